#!/bin/bash
# take_benign2.sh <G>: copy a finished benign round-2 group's patches into /verif/benign/<prop>_b4_<k> and check them
G=$1
for d in /tmp/benign4/$G/benign_out/C??_?; do
  [ -f $d/patch.diff ] || continue
  n=$(basename $d); p=${n%_*}; k=${n##*_}; dest=/verif/benign/${p}_b4_$k
  mkdir -p $dest; cp $d/patch.diff $dest/; [ -f $d/meta.json ] && cp $d/meta.json $dest/
  /venv/bin/python /verif/tools/check_benign.py $dest > /tmp/benign10_res_${p}_b4_$k.json 2>&1
  /venv/bin/python - <<PYEOF
import json
try:
    r=json.loads(open('/tmp/benign10_res_${p}_b4_$k.json').read().strip().splitlines()[-1])
    if 'results' not in r: print('${p}_b4_$k', r.get('error','?')[:150])
    else:
        bad={q:([x[:160] for x in v['new_violations'][:2]],[e[:260] for e in v['errors'][:2]]) for q,v in r['results'].items() if v['new_violations'] or v['errors']}
        print('${p}_b4_$k', 'FA' if r['false_alarm'] else ('UND' if r['undecided'] else 'ok'), bad if bad else '')
except Exception as e: print('${p}_b4_$k', 'ERR', e)
PYEOF
done
