#!/bin/bash
# reverify_seed.sh <name under /verif/seeded>: run the current rules against a stored seed on the current /repo HEAD
# and refresh meta.json['verification'] (patch, demo, suite note stay as stored)
N=$1; D=/verif/seeded/$N; P=${N%%_*}
WT=/tmp/vseed_rv_$$; TMP=/tmp/rv_keep_$$
trap 'git -C /repo worktree remove --force $WT >/dev/null 2>&1; rm -rf $TMP' EXIT
timeout 1500 /venv/bin/python /verif/tools/verify_seed.py $D --prop $P --wt $WT --keep $TMP > /tmp/rv_$N.json 2>/dev/null
/venv/bin/python - <<PYEOF
import json, os
old=json.load(open('$D/meta.json'))
try:
    new=json.load(open('$TMP/meta.json'))
    v=new.get('verification',{}); v.pop('seed',None)
    old['verification']=v
    json.dump(old,open('$D/meta.json','w'),indent=1)
    print('$N', 'detected' if v.get('detected') else ('NOAPPLY' if v.get('demo_patched_exit') is None else 'MISSED'), v.get('demo_clean_exit'), v.get('demo_patched_exit'))
except Exception as e:
    print('$N', 'ERROR', e)
PYEOF
