#!/venv/bin/python
"""Regenerate /verif/MANIFEST.json from the rule registry and omstatic/claims.py."""
import json
import os
import sys

sys.path.insert(0, os.path.dirname(os.path.dirname(os.path.abspath(__file__))))
from omstatic import engine, claims  # noqa: E402

engine.load_rules()
props = [json.loads(l)['id'] for l in open('/verif/properties.jsonl')]
baseline = json.load(open('/root/.vp/BASELINE.json'))['cmd'] if os.path.exists('/root/.vp/BASELINE.json') else ''
checks, na = [], []
for p in props:
    if p in engine.REGISTRY and p in claims.CLAIMS and p not in getattr(claims, 'PENDING', ()):
        c = claims.CLAIMS[p]
        rules = ', '.join(s.id for s in engine.REGISTRY[p])
        checks.append(dict(
            property_id=p,
            quick_cmd=f'/venv/bin/python -m omstatic {p} --tier quick',
            thorough_cmd=f'/venv/bin/python -m omstatic {p} --tier thorough',
            evidence_file=f'/verif/evidence/{p}.json',
            replay_cmd_template='/venv/bin/python -m omstatic --replay {path}',
            engine='omstatic',
            level_claimed=dict(category='other', text=c['text'] + f' Rules: {rules}.',
                               design_ref=f'DESIGN.md section 4 / {p}'),
            level_note=claims.NOTE_COMMON,
            technique='static analysis: ' + c['technique']))
    else:
        na.append(dict(property_id=p, reason=claims.NOT_APPLICABLE.get(p, claims.UNBUILT_REASON)))
man = dict(
    version=1,
    setup_cmd='true',
    hooks=dict(guard='OPENMDAO_VERIF_STATIC', enable='none needed: checks parse sources, no instrumentation',
               baseline_off_cmd=baseline.replace('--junitxml=<file>', '--junitxml=/tmp/verif_baseline.junit.xml'),
               source_commits=[], add_only=True),
    engines=[dict(name='omstatic', path='/verif/omstatic', serves_properties=[c['property_id'] for c in checks],
                  kind_free_text='repository-specific static analysis over the Python AST: statement CFG with '
                                 'exceptional edges, reaching definitions, truth tables, mirror/adjoint matchers')],
    checks=checks,
    notes='All checks are static (ast only; OpenMDAO is never imported). Exit 0 ok, 1 VIOLATION, 2 ANALYSIS-ERROR '
          '(cannot decide / anchor vanished). Thorough tier adds repo-wide generalisations and the in-memory '
          'mutant/twin self-test of the checker. Known findings: /verif/known_findings.json.',
    not_applicable=na)
json.dump(man, open('/verif/MANIFEST.json', 'w'), indent=1)
print('claimed', [c['property_id'] for c in checks])
print('n/a', [n['property_id'] for n in na])
