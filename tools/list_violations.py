#!/venv/bin/python
"""Print current violations of the given properties as known_findings.json entries (for triage by hand)."""
import json, os, sys
sys.path.insert(0, os.path.dirname(os.path.dirname(os.path.abspath(__file__))))
from omstatic import engine
from omstatic.core import Repo
engine.load_rules()
for prop in sys.argv[1:]:
    repo = Repo()
    for r in engine.run_rules(prop, repo, 'quick'):
        for it in r['items']:
            if it['status'] == 'violation':
                print(json.dumps(dict(property=prop, rule=it['rule'], where=f"{it['file']}:{it['func']}",
                                      construct=it['construct'], line=it['line'], text=it['text'][:120], why=it['why'][:300])))
        if r['error']:
            print('# ERROR', r['rule'], r['error'])
