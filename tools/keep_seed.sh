#!/bin/bash
# keep_seed.sh <prop> <k> <suite note> [--root DIR] [--tag TAG] [verify_seed args]:
# verify again against the current rules and store under /verif/seeded/<prop>_<tag><k>
P=$1; K=$2; NOTE=$3; shift 3
ROOT=/tmp/seed; TAG=""
while [ "$1" = "--root" ] || [ "$1" = "--tag" ]; do
  if [ "$1" = "--root" ]; then ROOT=$2; else TAG=$2; fi; shift 2
done
WT=/tmp/vseed_keep_$$
DEST=/verif/seeded/${P}_${TAG}$K
trap 'git -C /repo worktree remove --force $WT >/dev/null 2>&1' EXIT
timeout 1500 /venv/bin/python /verif/tools/verify_seed.py $ROOT/$P/seed_out/$K --prop $P --wt $WT --keep $DEST "$@" > /tmp/keep_${P}_${TAG}$K.json 2>/dev/null
/venv/bin/python - <<PYEOF
import json, os
p='$DEST/meta.json'
if not os.path.exists(p):
    print('${P}_${TAG}$K', 'NOT STORED (verification failed: see /tmp/keep_${P}_${TAG}$K.json)')
else:
    m=json.load(open(p)); m['suite']="""$NOTE"""
    v=m.get('verification',{})
    for k in ('seed',): v.pop(k,None)
    json.dump(m,open(p,'w'),indent=1)
    print('${P}_${TAG}$K', 'detected' if v.get('detected') else 'MISSED', v.get('demo_clean_exit'), v.get('demo_patched_exit'))
PYEOF
