#!/bin/bash
# keep_seed.sh <prop> <k> <suite note> : verify again against current rules and store under /verif/seeded/<prop>_<k>
P=$1; K=$2; NOTE=$3; shift 3
WT=/tmp/vseed_keep_$$
trap 'git -C /repo worktree remove --force $WT >/dev/null 2>&1' EXIT
timeout 1500 /venv/bin/python /verif/tools/verify_seed.py /tmp/seed/$P/seed_out/$K --wt $WT --keep /verif/seeded/${P}_$K "$@" > /tmp/keep_${P}_$K.json 2>/dev/null
/venv/bin/python - <<EOF
import json
p='/verif/seeded/${P}_$K/meta.json'
m=json.load(open(p)); m['suite']="""$NOTE"""
v=m.get('verification',{})
for k in ('seed',): v.pop(k,None)
json.dump(m,open(p,'w'),indent=1)
print('${P}_$K', 'detected' if v.get('detected') else 'MISSED', v.get('demo_clean_exit'), v.get('demo_patched_exit'))
EOF
