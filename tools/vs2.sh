#!/bin/bash
# vs2.sh <prop> [root=/tmp/seed2]: verify every seed of the round-2 seeder of a property
P=$1; ROOT=${2:-/tmp/seed2}
for d in $ROOT/$P/seed_out/*/; do [ -f $d/patch.diff ] && /verif/tools/vs.sh $d --prop $P; done
