#!/bin/bash
# vs.sh <seed_dir> [extra verify_seed args]: pretty one-seed verification
WT=/tmp/vseed_$$
trap 'git -C /repo worktree remove --force $WT >/dev/null 2>&1' EXIT
timeout 1500 /venv/bin/python /verif/tools/verify_seed.py "$@" --wt $WT 2>&1 | grep -v conda | /venv/bin/python -c "
import json,sys
for l in sys.stdin:
    try: d=json.loads(l)
    except Exception: print(l.strip()[:300]); continue
    print((d.get('title') or '')[:110]); print('  demo clean',d['demo_clean_exit'],'patched',d.get('demo_patched_exit'),'| baseline',d.get('baseline_exit'),'| DETECTED' if d.get('detected') else '| missed', '(analysis-error only)' if d.get('analysis_error_only') else '')
    if 'tests_exit' in d: print('  tests', d['tests_exit'], d['tests_tail'])
    for k,v in d.get('checks',{}).items():
        print('  ',k,'exit',v['exit'])
        for x in v['new_violations'][:3]: print('      +',x[:260])
        for x in v['errs'][:2]: print('      !',x[:200])
"
