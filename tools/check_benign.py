#!/venv/bin/python
"""Run the checks against a behaviour-preserving patch: every verdict must stay what it is on /repo.

usage: check_benign.py <dir with patch.diff [meta.json]> [--wt DIR]
Applies the patch in a scratch worktree, runs the quick check of every claimed property whose evidence
lists one of the touched files among its analysed modules, and prints one JSON line:
  {"patch":..., "touched":[...], "results": {prop: {"exit":n, "new_violations":[...], "errors":[...]}}, "false_alarm": bool,
   "undecided": bool}
"""
import glob
import json
import os
import re
import subprocess
import sys

VERIF = os.path.dirname(os.path.dirname(os.path.abspath(__file__)))


def sh(cmd, cwd=None, env=None, timeout=1800):
    e = dict(os.environ)
    e.update(env or {})
    p = subprocess.run(cmd, shell=True, cwd=cwd, env=e, capture_output=True, text=True, timeout=timeout)
    return p.returncode, p.stdout + p.stderr


TIER = 'thorough' if '--thorough' in sys.argv else 'quick'


def run_check(prop, wt):
    rc, o = sh(f'timeout 1500 /venv/bin/python -m omstatic {prop} --tier {TIER} --no-write', cwd=VERIF,
               env=dict(OMSTATIC_REPO=wt, PYTHONPATH=VERIF, OMSTATIC_SKIP_SELFTEST='1'))
    viol = set()
    for l in o.splitlines():
        m = re.match(r'  violation rule=(\S+) (\S+?):\d+ in (.*?): (.*)', l)
        if m:
            viol.add(m.groups())
    errs = [l[:400] for l in o.splitlines() if l.startswith('ANALYSIS-ERROR')]
    return rc, viol, errs


def main():
    d = os.path.abspath(sys.argv[1])
    wt = sys.argv[sys.argv.index('--wt') + 1] if '--wt' in sys.argv else f'/tmp/vbenign_{os.getpid()}'
    patch = os.path.join(d, 'patch.diff')
    touched = sorted(set(re.findall(r'^\+\+\+ b/(\S+)', open(patch).read(), flags=re.M)))
    props = []
    for ev in sorted(glob.glob(os.path.join(VERIF, 'evidence', 'C??.json'))):
        e = json.load(open(ev))
        mods = set(e.get('coverage', {}).get('modules_analysed', []))
        if mods & set(touched):
            props.append(e['property_id'])
    manifest = {c['property_id'] for c in json.load(open(os.path.join(VERIF, 'MANIFEST.json')))['checks']}
    props = [p for p in props if p in manifest]
    created = not os.path.isdir(wt)
    if created:
        rc, o = sh(f'git -C /repo worktree add --detach {wt} HEAD')
        if rc:
            print(o)
            return 2
    sh('git checkout -q -- . && git clean -fdq', cwd=wt)
    base = {p: run_check(p, wt) for p in props}
    rc, o = sh(f'git apply {patch}', cwd=wt)
    res = dict(patch=d, touched=touched, props=props)
    if rc:
        res['error'] = 'patch does not apply: ' + o[-300:]
        print(json.dumps(res))
        if created:
            sh(f'git -C /repo worktree remove --force {wt}')
        return 1
    results = {}
    for p in props:
        rc, viol, errs = run_check(p, wt)
        newv = sorted(viol - base[p][1])
        newe = [e for e in errs if e not in base[p][2]]
        results[p] = dict(exit=rc, base_exit=base[p][0], new_violations=[' | '.join(v) for v in newv][:5], errors=newe[:4])
    res['results'] = results
    res['false_alarm'] = any(r['new_violations'] for r in results.values())
    res['undecided'] = any(r['errors'] for r in results.values())
    sh('git checkout -q -- . && git clean -fdq', cwd=wt)
    if created:
        sh(f'git -C /repo worktree remove --force {wt}')
    print(json.dumps(res))
    return 0


if __name__ == '__main__':
    sys.exit(main())
