#!/venv/bin/python
"""Build a formatting twin of /repo (every shipped module replaced by ast.unparse(ast.parse(src))):
comments, blank lines, line numbers, parentheses and string quoting change, behaviour does not.
All checks must give the same verdict on it.  usage: fmt_twin.py <dest_dir>"""
import ast, os, shutil, sys
dest = sys.argv[1]
if os.path.exists(dest):
    shutil.rmtree(dest)
n = 0
for dp, dns, fns in os.walk('/repo/openmdao'):
    dns[:] = [d for d in dns if d not in ('__pycache__',) and not d.endswith('_out')]
    rel = os.path.relpath(dp, '/repo')
    os.makedirs(os.path.join(dest, rel), exist_ok=True)
    for fn in fns:
        src = os.path.join(dp, fn)
        dst = os.path.join(dest, rel, fn)
        if fn.endswith('.py') and '/tests' not in dp and '/test_suite' not in dp and '/docs' not in dp:
            try:
                s = open(src, encoding='utf-8').read()
                open(dst, 'w', encoding='utf-8').write(ast.unparse(ast.parse(s)) + '\n')
                n += 1
                continue
            except Exception as e:
                print('skip', src, e)
        if fn.endswith(('.py', '.ini')):
            shutil.copy(src, dst)
print('reformatted', n, 'modules into', dest)
