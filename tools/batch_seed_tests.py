#!/venv/bin/python
"""Run the full pinned test-suite once over several seeded changes applied together.

usage: batch_seed_tests.py <name> <seed_dir> [<seed_dir> ...]
Applies every patch that applies cleanly on top of the others in a scratch worktree /tmp/vbatch_<name>,
runs the suite with xdist, and prints which BASELINE stable_pass tests do not pass.  Seeds whose patch
conflicts are listed as 'deferred'.  The worktree is removed afterwards.
"""
import json
import os
import subprocess
import sys
import xml.etree.ElementTree as ET


def sh(cmd, cwd=None, env=None, timeout=4000):
    e = dict(os.environ)
    e.update(env or {})
    p = subprocess.run(cmd, shell=True, cwd=cwd, env=e, capture_output=True, text=True, timeout=timeout)
    return p.returncode, p.stdout + p.stderr


def main():
    name = sys.argv[1]
    seeds = [os.path.abspath(s) for s in sys.argv[2:]]
    wt = f'/tmp/vbatch_{name}'
    sh(f'git -C /repo worktree remove --force {wt}')
    rc, o = sh(f'git -C /repo worktree add --detach {wt} HEAD')
    if rc:
        print(o)
        return 2
    applied, deferred = [], []
    for s in seeds:
        rc, o = sh(f'git apply {s}/patch.diff', cwd=wt)
        (applied if rc == 0 else deferred).append(s)
    junit = f'/tmp/vbatch_{name}.xml'
    rc, o = sh(f'timeout 3500 /venv/bin/python -m pytest -q -p no:cacheprovider --timeout=900 '
               f'--continue-on-collection-errors -n 10 --junitxml={junit} > /tmp/vbatch_{name}.log 2>&1',
               cwd=wt, env=dict(PYTHONPATH=wt))
    sp = set(json.load(open('/root/.vp/BASELINE.json'))['stable_pass'])
    res = {}
    for tc in ET.parse(junit).iter('testcase'):
        n = tc.get('classname') + '::' + tc.get('name')
        st = 'pass'
        for ch in tc:
            if ch.tag in ('failure', 'error'):
                st = 'fail'
            elif ch.tag == 'skipped' and st == 'pass':
                st = 'skip'
        if res.get(n) != 'pass':
            res[n] = st
    bad = sorted(n for n in sp if res.get(n) != 'pass')
    out = dict(name=name, applied=applied, deferred=deferred, tests=len(res), stable_pass_not_passing=bad)
    json.dump(out, open(f'/tmp/vbatch_{name}.json', 'w'), indent=1)
    print(json.dumps(out, indent=1))
    sh(f'git -C /repo worktree remove --force {wt}')
    return 0


if __name__ == '__main__':
    sys.exit(main())
