#!/venv/bin/python
"""Confirm a seeded breaking change and run the property's check against it.

usage: verify_seed.py <seed_dir> [--prop Cxx] [--wt /tmp/vseed] [--tests "pytest args"] [--keep <dest>]

seed_dir holds patch.diff, demo.py, meta.json.  Steps (all in a scratch worktree of /repo, never /repo):
  1. demo on the clean tree must exit 0;  2. patch applies;  3. demo on the patched tree must exit 1;
  4. optional related tests on the patched tree;  5. `omstatic <prop>` (quick, then thorough rules
  without self-test) with OMSTATIC_REPO pointing at the patched worktree;  6. clean the worktree.
Prints one JSON line with the outcome.
"""
import argparse
import json
import os
import shutil
import subprocess
import sys

VERIF = os.path.dirname(os.path.dirname(os.path.abspath(__file__)))


def sh(cmd, cwd=None, env=None, timeout=1800):
    e = dict(os.environ)
    e.update(env or {})
    try:
        p = subprocess.run(cmd, shell=True, cwd=cwd, env=e, capture_output=True, text=True, timeout=timeout)
        return p.returncode, (p.stdout + p.stderr)
    except subprocess.TimeoutExpired:
        return 124, 'TIMEOUT'


def main():
    ap = argparse.ArgumentParser()
    ap.add_argument('seed')
    ap.add_argument('--prop')
    ap.add_argument('--wt', default='/tmp/vseed')
    ap.add_argument('--tests', default='')
    ap.add_argument('--keep')
    ap.add_argument('--props', default='', help='extra properties whose checks should also be run')
    a = ap.parse_args()
    seed = os.path.abspath(a.seed)
    meta = json.load(open(os.path.join(seed, 'meta.json')))
    prop = a.prop or meta['property']
    wt = a.wt
    if not os.path.isdir(wt):
        rc, o = sh(f'git -C /repo worktree add --detach {wt} HEAD')
        if rc:
            print(o)
            return 2
    sh('git checkout -q -- . && git clean -fdq -e seed_out', cwd=wt)
    sh(f'git checkout -q --detach $(git -C /repo rev-parse HEAD)', cwd=wt)
    env = dict(PYTHONPATH=wt, OPENMDAO_REPORTS='0')
    res = dict(seed=seed, property=prop, title=meta.get('title'))
    allprops = [prop] + [x for x in a.props.split(',') if x]

    def run_checks():
        out = {}
        for p in allprops:
            rc, o = sh(f'timeout 600 /venv/bin/python -m omstatic {p} --tier quick --no-write', cwd=VERIF,
                       env=dict(OMSTATIC_REPO=wt, PYTHONPATH=VERIF))
            viol = set()
            for l in o.splitlines():
                if l.startswith('  violation rule='):
                    import re
                    m = re.match(r'  violation rule=(\S+) (\S+?):\d+ in (.*?): (.*)', l)
                    viol.add(m.groups() if m else (l,))
            errs = [l for l in o.splitlines() if l.startswith('ANALYSIS-ERROR')]
            out[p] = dict(exit=rc, viol=viol, errs=errs[:5])
        return out
    base = run_checks()
    res['baseline_exit'] = {p: b['exit'] for p, b in base.items()}
    rc, o = sh(f'timeout 900 /venv/bin/python {seed}/demo.py', cwd=wt, env=env)
    res['demo_clean_exit'] = rc
    rc, o = sh(f'git apply {seed}/patch.diff', cwd=wt)
    res['patch_applies'] = rc == 0
    if rc:
        res['error'] = o[-400:]
        print(json.dumps(res))
        return 1
    rc, o = sh(f'timeout 900 /venv/bin/python {seed}/demo.py', cwd=wt, env=env)
    res['demo_patched_exit'] = rc
    res['demo_patched_tail'] = o.strip().splitlines()[-3:]
    rc, o = sh('/venv/bin/python -c "import openmdao, sys; sys.exit(0)"', cwd=wt, env=env)
    res['imports'] = rc == 0
    if a.tests:
        rc, o = sh(f'timeout 3000 /venv/bin/python -m pytest -q -p no:cacheprovider -n 8 {a.tests}', cwd=wt, env=env,
                   timeout=3100)
        res['tests_exit'] = rc
        res['tests_tail'] = o.strip().splitlines()[-2:]
    after = run_checks()
    checks = {}
    for p in allprops:
        newv = sorted(after[p]['viol'] - base[p]['viol'])
        checks[p] = dict(exit=after[p]['exit'], new_violations=[' | '.join(v) for v in newv][:6],
                         errs=after[p]['errs'])
    res['checks'] = checks
    res['detected'] = any(c['new_violations'] for c in checks.values())
    res['analysis_error_only'] = (not res['detected']) and any(c['exit'] == 2 and base[p]['exit'] != 2
                                                               for p, c in checks.items())
    sh('git checkout -q -- . && git clean -fdq', cwd=wt)
    sh('rm -rf *_out reports', cwd=wt)
    if a.keep:
        os.makedirs(a.keep, exist_ok=True)
        for fn in ('patch.diff', 'demo.py'):
            shutil.copy(os.path.join(seed, fn), os.path.join(a.keep, fn))
        meta['verification'] = res
        json.dump(meta, open(os.path.join(a.keep, 'meta.json'), 'w'), indent=1)
    print(json.dumps(res))
    return 0


if __name__ == '__main__':
    sys.exit(main())
