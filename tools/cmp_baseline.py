#!/venv/bin/python
"""cmp_baseline.py junit.xml [junit2.xml ...]: which BASELINE stable_pass tests did not pass."""
import json, sys, xml.etree.ElementTree as ET
sp = set(json.load(open('/root/.vp/BASELINE.json'))['stable_pass'])
res = {}
for fn in sys.argv[1:]:
    for tc in ET.parse(fn).iter('testcase'):
        name = tc.get('classname') + '::' + tc.get('name')
        st = 'pass'
        for ch in tc:
            if ch.tag in ('failure', 'error'):
                st = 'fail'
            elif ch.tag == 'skipped' and st == 'pass':
                st = 'skip'
        if res.get(name) != 'pass':
            res[name] = st
bad = sorted(n for n in sp if res.get(n) != 'pass')
print('tests in junit:', len(res), ' stable_pass not passing:', len(bad))
for n in bad[:40]:
    print('  ', res.get(n, 'missing'), n)
