"""Triage (b): dict-form case exactly as documented in Problem.load_case (list_inputs/list_outputs with
prom_name=True, return_format='dict')."""
import os, tempfile, warnings
import numpy as np, openmdao.api as om
os.environ['OPENMDAO_REPORTS'] = '0'
os.chdir(tempfile.mkdtemp())

def build():
    p = om.Problem()
    p.model.add_subsystem('c1', om.ExecComp('y = 2*x'), promotes=['*'])      # x has no IVC: _auto_ivc source
    p.model.add_subsystem('c2', om.ExecComp('z = 3*y + w'), promotes_inputs=['y'])  # c2.w unpromoted
    return p

p = build(); p.setup()
p.set_val('x', 5.0); p.set_val('c2.w', 7.0)
p.run_model()
case = {'inputs': p.model.list_inputs(prom_name=True, return_format='dict', out_stream=None),
        'outputs': p.model.list_outputs(prom_name=True, return_format='dict', out_stream=None)}
print("case['inputs']  :", {k: (m['prom_name'], m['val']) for k, m in case['inputs'].items()})
print("case['outputs'] :", {k: (m['prom_name'], m['val']) for k, m in case['outputs'].items()})
q = build(); q.setup(); q.final_setup()
with warnings.catch_warnings(record=True) as w:
    warnings.simplefilter('always')
    q.load_case(case)
for x in w: print('  WARNING:', str(x.message)[:120])
bad = 0
for tab in ('inputs', 'outputs'):
    for an, m in case[tab].items():
        got = q.get_val(an); ok = np.allclose(got, m['val']); bad += not ok
        print(f"  get_val({an!r}) = {got}  in case {m['val']}  {'ok' if ok else 'MISMATCH'}")
q.run_model()
print('  after run_model c2.z =', q.get_val('c2.z'), ' original', p.get_val('c2.z'))
print('->', 'NOT RESTORED' if bad else 'restored', '| warnings', len(w))
