"""C04 defect D3: a *full* discrete transfer (sub=None) moves nothing on a single process.

DefaultTransfer._setup_discrete_transfers fills transfers[<target subsystem>] only; the key None is
written only under `group.comm.size > 1`.  Group._discrete_transfer(None) reads
self._discrete_transfers[None] (a defaultdict -> []) when comm.size == 1.  Full transfers are issued by
NonlinearBlockJac._single_iteration and Group._apply_nonlinear, so under NLBJ a discrete input never
receives its source object.
"""
import warnings
warnings.simplefilter('ignore')
import openmdao.api as om


class Src(om.ExplicitComponent):
    def setup(self):
        self.add_input('a', 1.0)
        self.add_output('x', 1.0)
        self.add_discrete_output('d', 'initial-src')
        self.n = 0

    def compute(self, inputs, outputs, discrete_inputs, discrete_outputs):
        self.n += 1
        outputs['x'] = 0.5 * inputs['a'] + 1
        discrete_outputs['d'] = 'computed-by-src'


class Tgt(om.ExplicitComponent):
    def setup(self):
        self.add_input('x', 1.0)
        self.add_discrete_input('d', 'initial-tgt')
        self.add_output('a', 1.0)
        self.seen = []

    def compute(self, inputs, outputs, discrete_inputs, discrete_outputs):
        self.seen.append(discrete_inputs['d'])
        outputs['a'] = 0.5 * inputs['x']


for solver in ('NonlinearBlockGS', 'NonlinearBlockJac'):
    p = om.Problem()
    m = p.model
    s = m.add_subsystem('s', Src())
    t = m.add_subsystem('t', Tgt())
    m.connect('s.x', 't.x')
    m.connect('s.d', 't.d')
    m.connect('t.a', 's.a')
    m.nonlinear_solver = getattr(om, solver)(maxiter=4, iprint=-1)
    p.setup()
    p.run_model()
    same = t._discrete_inputs['d'] == s._discrete_outputs['d']
    print(f"{solver}: source d = {s._discrete_outputs['d']!r}, input d after run_model = "
          f"{t._discrete_inputs['d']!r}, values seen by compute = {t.seen}",
          'ok' if same else 'VIOLATION')
