"""Triage for C10: bounds enforcement with ref < ref0 (decreasing scaling map)."""
import numpy as np, openmdao.api as om

class Imp(om.ImplicitComponent):
    def setup(self):
        # root at x = 5, outside upper bound 2 -> Newton step from 1 overshoots the bound
        self.add_output('x', 1.0, lower=0.0, upper=2.0, ref=-1.0, ref0=3.0)
        self.declare_partials('x', 'x')
    def apply_nonlinear(self, i, o, r):
        r['x'] = o['x'] - 5.0
    def linearize(self, i, o, p):
        p['x', 'x'] = 1.0

for ls in (om.BoundsEnforceLS, om.ArmijoGoldsteinLS):
  for method in ('vector', 'scalar', 'wall'):
    p = om.Problem()
    p.model.add_subsystem('c', Imp())
    nl = p.model.nonlinear_solver = om.NewtonSolver(solve_subsystems=False, maxiter=1, iprint=-1)
    nl.linesearch = ls(bound_enforcement=method, iprint=-1)
    p.model.linear_solver = om.DirectSolver()
    p.setup()
    p.set_val('c.x', 1.0)
    p.run_model()
    print(ls.__name__, method, 'x after 1 Newton iter from 1.0 toward 5.0 with bounds [0,2]:', p.get_val('c.x'))
