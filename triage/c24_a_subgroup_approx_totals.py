"""C24 triage (a): sub-group with approx_totals, two compute_totals calls with different of/wrt."""
import os, sys, warnings
import numpy as np
import openmdao.api as om
import openmdao.utils.relevance as relmod


def build():
    p = om.Problem()
    m = p.model
    m.add_subsystem('ivc', om.IndepVarComp(), promotes=['*'])
    m.ivc.add_output('x', 2.0)
    m.ivc.add_output('y', 3.0)
    g = m.add_subsystem('g', om.Group(), promotes=['*'])
    g.add_subsystem('ca', om.ExecComp('fa = 3*x'), promotes=['*'])
    g.add_subsystem('cb', om.ExecComp('fb = 5*y'), promotes=['*'])
    g.approx_totals(method='fd')
    p.setup()
    p.set_solver_print(-1)
    p.run_model()
    return p


def run(norel):
    relmod._no_relevance = norel
    p = build()
    J1 = p.compute_totals(of=['fa'], wrt=['x'], return_format='array')
    J2 = p.compute_totals(of=['fb'], wrt=['y'], return_format='array')
    return float(J1[0, 0]), float(J2[0, 0])


on = run(False)
off = run(True)
print('relevance on : dfa/dx, dfb/dy =', on)
print('relevance off: dfa/dx, dfb/dy =', off)
ok = np.allclose(on, off) and np.allclose(off, (3.0, 5.0))
print('PASS' if ok else 'FAIL: results differ with relevance enabled')
sys.exit(0 if ok else 1)
