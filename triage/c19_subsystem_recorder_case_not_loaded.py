"""Triage (a): case recorded by a recorder attached to a SUBSYSTEM, loaded with Problem.load_case."""
import os, tempfile, warnings
import numpy as np, openmdao.api as om
os.environ['OPENMDAO_REPORTS'] = '0'
os.chdir(tempfile.mkdtemp())

def build(promote_inside):
    p = om.Problem()
    p.model.add_subsystem('ivc', om.IndepVarComp('a', 1.0))
    g = p.model.add_subsystem('g', om.Group())
    kw = dict(promotes=['*']) if promote_inside else {}
    g.add_subsystem('c1', om.ExecComp('y = 2*x'), **kw)
    g.add_subsystem('c2', om.ExecComp('z = 3*y + w'), **kw)
    if not promote_inside:
        g.connect('c1.y', 'c2.y')
    p.model.connect('ivc.a', 'g.x' if promote_inside else 'g.c1.x')
    return p

for promote_inside in (False, True):
    print('=== variables promoted inside g:', promote_inside)
    p = build(promote_inside)
    p.model.g.add_recorder(om.SqliteRecorder('cases.sql', record_viewer_data=False))
    p.model.g.recording_options['record_inputs'] = True
    p.setup()
    p.set_val('ivc.a', 5.0)
    p.set_val('g.w' if promote_inside else 'g.c2.w', 7.0)
    p.run_model(); p.cleanup()
    cr = om.CaseReader(p.get_outputs_dir() / 'cases.sql')
    case = cr.get_case(cr.list_cases('root.g', out_stream=None)[-1])
    print('case.inputs keys :', list(case.inputs), ' absolute_names:', list(case.inputs.absolute_names()))
    print('case.outputs keys:', list(case.outputs), ' absolute_names:', list(case.outputs.absolute_names()))
    q = build(promote_inside); q.setup(); q.final_setup()
    with warnings.catch_warnings(record=True) as w:
        warnings.simplefilter('always')
        q.load_case(case)
    for x in w: print('  WARNING:', str(x.message)[:110])
    bad = 0
    for tab in (case.inputs, case.outputs):
        for an in tab.absolute_names():
            got, want = q.get_val(an), tab[an]
            ok = np.allclose(got, want); bad += not ok
            print(f'  get_val({an!r}) = {got}  recorded {want}  {"ok" if ok else "MISMATCH"}')
    print('  ->', 'NOT RESTORED' if bad else 'restored', '| warnings:', len(w))
