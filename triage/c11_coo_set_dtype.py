import numpy as np, scipy.sparse as sp
from openmdao.jacobians.subjac import COOSubjac, CSRSubjac, CSCSubjac, OMCOOSubjac
for cls, mk in [(COOSubjac, sp.coo_matrix), (CSRSubjac, sp.csr_matrix), (CSCSubjac, sp.csc_matrix)]:
    val = mk(np.array([[1., 0.], [2., 3.]]))
    info = {'val': val, 'shape': (2, 2), 'rows': None, 'cols': None}
    s = cls(('y', 'x'), info, slice(0, 2), slice(0, 2), True, np.dtype(float))
    try:
        s.set_dtype(np.dtype(complex))
        print(cls.__name__, 'to complex ->', type(s.info['val']), getattr(s.info['val'], 'dtype', None), getattr(s.info['val'],'shape',None))
        d = s.as_coo_info()
        print('   as_coo_info ok', d[0])
        s.set_dtype(np.dtype(float))
        print(cls.__name__, 'to float ->', type(s.info['val']), s.info['val'].dtype)
    except Exception as e:
        print(cls.__name__, 'FAILED', type(e).__name__, e)
