"""Triage for C29: InputFileGenerator with inf / nan values."""
import os, tempfile, numpy as np
from openmdao.utils.file_wrap import InputFileGenerator, FileParser
d = tempfile.mkdtemp()
tmpl = os.path.join(d, 't.in'); out = os.path.join(d, 'o.in')
open(tmpl, 'w').write("header\nanchor 1.5 2.5 3.5\n")
for v in (float('inf'), float('-inf'), float('nan'), 0.1 + 0.2):
    g = InputFileGenerator(); g.set_template_file(tmpl); g.set_generated_file(out)
    g.mark_anchor('anchor')
    try:
        g.transfer_var(v, 0, 2)
        g.generate()
        p = FileParser(); p.set_file(out); p.mark_anchor('anchor')
        print(repr(v), '->', repr(p.transfer_var(0, 2)))
    except Exception as e:
        print(repr(v), 'ERR', type(e).__name__, e)
