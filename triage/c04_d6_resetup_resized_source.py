"""C04 triage: static connect(..., src_indices=[-1, -2]) and a source that is resized between two setups.

The Indexer object created by connect() outside setup() lives in _static_manual_connections and is reused by
every setup.  AllConnGraph (get_parent_val_shape_units / resolve_output_input_connection) calls
src_indices.set_src_shape(shape) only `if src_indices._src_shape is None`, so on the second setup the indexer
keeps the source shape (and the cached shaped instance) of the first one: negative indices are counted from
the end of the OLD source.
"""
import numpy as np, warnings
warnings.simplefilter('ignore')
import openmdao.api as om


class Src(om.ExplicitComponent):
    def initialize(self):
        self.options.declare('n', 5)

    def setup(self):
        self.add_output('x', np.arange(float(self.options['n'])))

    def compute(self, inputs, outputs):
        outputs['x'] = np.arange(float(self.options['n']))


for idx, flat in (([-1, -2], None), (om.slicer[-2:], None), (-1, None)):
    p = om.Problem()
    src = p.model.add_subsystem('src', Src())
    n_in = np.atleast_1d(np.arange(5.)[idx]).size
    p.model.add_subsystem('c', om.ExecComp('y=2*x', x=np.zeros(n_in), y=np.zeros(n_in)))
    p.model.connect('src.x', 'c.x', src_indices=idx)
    for n in (5, 8):
        src.options['n'] = n
        try:
            p.setup()
            p.run_model()
            got = p.get_val('c.x', from_src=False)
            exp = np.atleast_1d(np.arange(float(n))[idx])
            print(f'src_indices={idx} n={n}: input {got} expected {exp}', 'ok' if np.array_equal(got, exp) else 'VIOLATION')
        except Exception as e:
            print(f'src_indices={idx} n={n}: raised {type(e).__name__}: {str(e)[:120]}')
