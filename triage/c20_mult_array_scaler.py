import numpy as np
import openmdao.api as om

def build(ref, cref=None):
    p = om.Problem()
    m = p.model
    m.add_subsystem('c', om.ExecComp('f = (x[0]-3)**2 + (x[1]+1)**2 + x[0]*x[1]', x=np.ones(2)), promotes=['*'])
    m.add_subsystem('g', om.ExecComp('y = 2*x', x=np.ones(2), y=np.ones(2)), promotes=['*'])
    m.add_design_var('x', lower=np.array([-10., -10.]), upper=np.array([4., 10.]), ref=ref)
    m.add_objective('f')
    m.add_constraint('y', lower=np.array([-100., -6.0]), ref=cref)
    p.driver = om.ScipyOptimizeDriver(optimizer='SLSQP', tol=1e-10, disp=False)
    p.setup()
    p.run_driver()
    return p

for ref, cref in ((None, None), (2.0, 3.0), (np.array([2.0, 2.0]), None), (np.array([2.0, 5.0]), None), (2.0, np.array([3.0, 7.0]))):
    p = build(ref, cref)
    try:
        dvs, cons = p.driver.compute_lagrange_multipliers(driver_scaling=False)
        print('ref=', ref, cref, 'x=', p.get_val('x'), {k: v['multipliers'] for k, v in cons.items()}, {k: v['multipliers'] for k, v in dvs.items()})
    except Exception as e:
        print('ref=', ref, cref, 'x=', p.get_val('x'), 'EXC', type(e).__name__, e)
