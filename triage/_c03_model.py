import numpy as np, openmdao.api as om
n = 6
rng = np.random.default_rng(0)
A = np.zeros((n, n))
A[0, :] = rng.uniform(1, 2, n)
A[:, 0] = rng.uniform(1, 2, n)
A[np.arange(n), np.arange(n)] = rng.uniform(1, 2, n)
A[1,2] = 1.5; A[2,1]=1.3; A[3,4]=1.7
rows, cols = np.nonzero(A)
class Lin(om.ExplicitComponent):
    def setup(self):
        for i in range(n):
            self.add_input(f'x{i}', 1.0)
        self.add_output('y', np.ones(n))
        for i in range(n):
            r = np.nonzero(A[:, i])[0]
            self.declare_partials('y', f'x{i}', rows=r, cols=np.zeros(r.size, int), val=A[r, i])
    def compute(self, inputs, outputs):
        x = np.array([inputs[f'x{i}'][0] for i in range(n)])
        outputs['y'] = A @ x
def build(color, direct):
    p = om.Problem()
    p.model.add_subsystem('c', Lin(), promotes=['*'])
    for i in range(n):
        p.model.add_design_var(f'x{i}', lower=-10, upper=10, ref=float(i+2))
    p.model.add_constraint('y', lower=0., ref=np.arange(1,n+1)*3.0)
    p.model.add_objective('x0')
    p.driver = om.ScipyOptimizeDriver()
    if color:
        p.driver.declare_coloring(direct=direct, show_summary=False)
    p.setup(mode='auto')
    p.final_setup()
    p.run_model()
    if color:
        col = om.coloring.compute_total_coloring(p, mode='auto', of=['y'], wrt=[f'x{i}' for i in range(n)]) if False else None
    return p
import openmdao.utils.coloring as cm
for direct in (True, False):
    p = build(True, direct)
    coloring = cm.compute_total_coloring(p, of=['y'], wrt=[f'x{i}' for i in range(n)], run_model=True, driver=p.driver)
    print('direct', direct, 'fwd' , None if coloring._fwd is None else len(coloring._fwd[0]), 'rev', None if coloring._rev is None else len(coloring._rev[0]), 'subs', coloring._subtractions)
    p.driver._coloring_info.coloring = coloring
    Jc = p.driver._compute_totals(of=['y'], wrt=[f'x{i}' for i in range(n)], return_format='array', driver_scaling=True)
    p2 = build(False, direct)
    Ju = p2.driver._compute_totals(of=['y'], wrt=[f'x{i}' for i in range(n)], return_format='array', driver_scaling=True)
    print(np.max(np.abs(Jc - Ju)))
    Jc0 = p.driver._compute_totals(of=['y'], wrt=[f'x{i}' for i in range(n)], return_format='array', driver_scaling=False)
    Ju0 = p2.driver._compute_totals(of=['y'], wrt=[f'x{i}' for i in range(n)], return_format='array', driver_scaling=False)
    print(' unscaled diff', np.max(np.abs(Jc0 - Ju0)), np.max(np.abs(Ju0-A)))
np.set_printoptions(linewidth=200, precision=3)
print(Ju0); print(A)
print(Jc)
print(Ju)
