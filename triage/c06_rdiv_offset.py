"""C06 defect D2: PhysicalUnit.__rdiv__ (number / unit) lacks the non-zero-offset refusal that __mul__,
__div__ and __pow__ have.  Offset units therefore enter composite expressions through '1/degC'; the
result silently drops the offset while its _names still mention the offset unit, so simplify_unit returns
an expression with a different offset (or one the library rejects)."""
from openmdao.utils.units import simplify_unit, convert_units, _find_unit

for bad in ['m/degC', 'degC*m', 'degC**2']:
    try:
        _find_unit(bad, error=True); print('accepted', bad)
    except TypeError as ex:
        print('refused    ', bad, ':', ex)
e = '1/(1/degC)'
u = _find_unit(e, error=True)
print('accepted   ', e, '-> factor', u._factor, 'offset', u._offset, 'names', dict(u._names))
s = simplify_unit(e)
print('simplify_unit ->', repr(s), ' offset of that unit:', _find_unit(s)._offset)
print('convert_units(0., %r, "K") =' % e, convert_units(0., e, 'K'))
print('convert_units(0., %r, "K") =' % s, convert_units(0., s, 'K'), '  <-- differs: simplify changed the offset')
e2 = 'm/(1/degC)'
print('accepted   ', e2, _find_unit(e2, error=True)._factor)
s2 = simplify_unit(e2)
print('simplify_unit ->', repr(s2))
try:
    convert_units(1.0, e2, s2)
except Exception as ex:
    print('  FAIL: simplified expression is rejected:', type(ex).__name__, ex)
