import openmdao.core.total_jac as tj, openmdao.utils.coloring as cm
orig_unit = tj._TotalJacInfo._apply_unit_scaling
orig_sub = cm.Coloring._apply_subtractions
def new_unit(self, jd):
    if self.simul_coloring is not None and self.simul_coloring._subtractions:
        orig_sub(self.simul_coloring, self.J)
    return orig_unit(self, jd)
tj._TotalJacInfo._apply_unit_scaling = new_unit
cm.Coloring._apply_subtractions = lambda self, J: None
exec(open(__import__('os').path.join(__import__('os').path.dirname(__import__('os').path.abspath(__file__)), 'c03_substitution_scaling.py')).read())
