import numpy as np, openmdao.api as om
p = om.Problem()
p.model.add_subsystem('c', om.ExecComp('y = 2*x', x=np.ones(3), y=np.ones(3)), promotes=['*'])
p.model.add_design_var('x', lower=-10, upper=10)
p.model.add_objective('x', index=0)
p.model.add_constraint('y', lower=np.array([0., 5., 0.]), upper=np.array([1., 9., 3.]), ref=10., ref0=1.0)
p.setup()
p.set_val('x', [1., 1., 1.])
p.final_setup()
p.run_model()
for ds in (False, True):
    try:
        print(ds, p.driver.get_constraint_values(viol=True, driver_scaling=ds))
    except Exception as e:
        print(ds, 'ERR', type(e), e)
print(p.driver._cons['y']['lower'], p.driver._cons['y']['total_scaler'], p.driver._cons['y']['total_adder'])
