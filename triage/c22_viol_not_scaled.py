import numpy as np, openmdao.api as om
p = om.Problem()
p.model.add_subsystem('c', om.ExecComp('y = 2*x', x=np.ones(3), y=np.ones(3)), promotes=['*'])
p.model.add_design_var('x', lower=-10, upper=10)
p.model.add_objective('x', index=0)
p.model.add_constraint('y', lower=3., upper=5., ref=10., ref0=1.0)
p.setup()
p.set_val('x', [1., 2., 4.])
p.final_setup()
p.run_model()
for ds in (False, True):
    print(ds, p.driver.get_constraint_values(viol=True, driver_scaling=ds))
    print('  plain', p.driver.get_constraint_values(viol=False, driver_scaling=ds))
