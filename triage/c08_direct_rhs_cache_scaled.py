import numpy as np, warnings, sys
warnings.simplefilter('ignore')
import openmdao.api as om
def build(rhs_checking, ref):
    p=om.Problem(reports=None)
    m=p.model
    m.add_subsystem('ivc', om.IndepVarComp('x', 2.0))
    class Imp(om.ImplicitComponent):
        def setup(self):
            self.add_input('x', 1.0); self.add_output('y', 1.0, ref=ref, ref0=0.5 if ref!=1 else 0.0, res_ref=3.0 if ref!=1 else 1.0)
            self.declare_partials('y',['x','y'])
        def apply_nonlinear(self,i,o,r): r['y']=3*o['y']-i['x']**2
        def linearize(self,i,o,J): J['y','y']=3.0; J['y','x']=-2*i['x']
    G=m.add_subsystem('G', om.Group())
    G.add_subsystem('c', Imp())
    G.nonlinear_solver=om.NewtonSolver(solve_subsystems=False, iprint=-1)
    G.linear_solver=om.DirectSolver(assemble_jac=True, rhs_checking=rhs_checking)
    m.add_subsystem('d1', om.ExecComp('z=4*y'))
    m.add_subsystem('d2', om.ExecComp('z=8*y'))
    m.connect('ivc.x','G.c.x'); m.connect('G.c.y',['d1.y','d2.y'])
    m.add_design_var('ivc.x'); m.add_constraint('G.c.y', upper=100.); m.add_constraint('d1.z', upper=100.); m.add_constraint('d2.z', upper=100.)
    p.setup(mode='rev'); p.run_model()
    J=p.compute_totals(of=['G.c.y','d1.z','d2.z'], wrt=['ivc.x'])
    return [J['d1.z','ivc.x'][0,0], J['d2.z','ivc.x'][0,0]]
exact=[4*(2*2.0/3), 8*(2*2.0/3)]
bad=0
for rc in (False, True):
    for ref in (1.0, 10.0):
        r=build(rc, ref)
        ok=np.allclose(r, exact)
        bad+= not ok
        print('rhs_checking',rc,'ref',ref,'totals',r,'exact',exact,'ok' if ok else 'VIOLATION')
sys.exit(1 if bad else 0)
