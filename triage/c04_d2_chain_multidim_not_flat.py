"""C04 defect D2: a chain of src_indices (promotes at two levels) whose result is not 1-D.

AllConnGraph.get_src_index_array() returns the N-D (or 0-d) result of applying the chain to
arange(size).reshape(shape) without flattening it; default_transfer._fill() does `end += len(inds);
arr[start:end] = inds` -> ValueError / TypeError in final_setup for a valid model.
"""
import numpy as np, warnings
warnings.simplefilter('ignore')
import openmdao.api as om

src = np.arange(24.).reshape(2, 3, 4) + 100
for name, i1, i2 in (('[0:2] then [0:1]', slice(0, 2), slice(0, 1)),
                     ('[:, [0,-1]] then [..., -1]', (slice(None), [0, -1]), (..., -1)),
                     ('flat [3:21] then int 0', slice(3, 21), 0)):
    flat1 = name.startswith('flat')
    mid = src.ravel()[i1] if flat1 else src[tuple(np.array(i) if isinstance(i, list) else i for i in i1) if isinstance(i1, tuple) else i1]
    exp = np.atleast_1d(mid[i2])
    p = om.Problem()
    m = p.model
    m.add_subsystem('ivc', om.IndepVarComp('x', src.copy()), promotes=['x'])
    G = m.add_subsystem('G', om.Group())
    G.add_subsystem('c', om.ExecComp('y=2*x', x=np.zeros(exp.shape), y=np.zeros(exp.shape)))
    G.promotes('c', inputs=['x'], src_indices=i2, src_shape=mid.shape)
    m.promotes('G', inputs=['x'], src_indices=i1, flat_src_indices=flat1, src_shape=src.shape)
    p.setup()
    try:
        p.run_model()
        got = p.get_val('G.c.x', from_src=False)
        print(name, 'ok' if np.array_equal(got.ravel(), exp.ravel()) else f'VIOLATION {got} != {exp}')
    except Exception as e:
        print(f'{name}: VIOLATION run_model raised {type(e).__name__}: {e}')
        print('    get_val(from_src=True) works:', np.array_equal(np.ravel(p.get_val('G.c.x')), exp.ravel()))
