"""C21 runtime demonstration of three defects in the new-style (trust-constr) branch of
ScipyOptimizeDriver.run.  The objects handed to scipy are captured by wrapping scipy.optimize.minimize
as imported by the driver module; nothing in /repo is modified."""
import warnings
import numpy as np, openmdao.api as om
import openmdao.drivers.scipy_optimizer as so
warnings.simplefilter('ignore')

captured = {}
_orig = so.minimize
def spy(fun, x0, **kw):
    captured['constraints'] = kw.get('constraints')
    return _orig(fun, x0, **kw)
so.minimize = spy

def build(exprs, con_kw, **vals):
    p = om.Problem(reports=False)
    p.model.add_subsystem('c', om.ExecComp(exprs, **vals), promotes=['*'])
    p.model.add_design_var('x', lower=-10, upper=10)
    p.model.add_objective('f')
    p.model.add_constraint('g', **con_kw)
    p.driver = om.ScipyOptimizeDriver(optimizer='trust-constr', disp=False)
    p.setup()
    return p

print('--- D1: array nonlinear constraint g = x >= [4, 4]; only the last element reaches scipy')
p = build(['f = (x[0]-3)**2 + (x[1]-3)**2', 'g = 1.0*x'], dict(lower=np.array([4., 4.])), x=np.zeros(2), g=np.zeros(2))
p.run_driver()
print('   constraint objects handed to scipy:', len(captured['constraints']), '(constraint has 2 elements)')
print('   success =', p.driver.result.success, ' g =', p.get_val('g'), ' lower = [4, 4]  -> g[0] violated by', 4 - p.get_val('g')[0])

print('--- D2: linear constraint with constant term g = x0 + x1 + 5 <= 10 handed over as A x <= 10')
p = build(['f = (x[0]-3)**2 + (x[1]-3)**2', 'g = x[0] + x[1] + 5.0'], dict(upper=10.0, linear=True), x=np.zeros(2), g=0.0)
p.run_driver()
lc = captured['constraints'][0]
print('   LinearConstraint A =', np.asarray(lc.A), ' ub =', lc.ub, ' (true condition: A x <= 5)')
print('   success =', p.driver.result.success, ' g =', p.get_val('g'), ' upper = 10  -> violated by', p.get_val('g')[0] - 10)

print('--- D3: upper-only nonlinear constraint: jac callback has the opposite sign of the value callback')
for ub in (4.0, 8.0):
    p = build(['f = (x[0]-3)**2 + (x[1]-3)**2', 'g = x[0] + x[1]'], dict(upper=ub), x=np.zeros(2), g=0.0)
    p.run_driver()
    print('   upper =', ub, ': success =', p.driver.result.success, ' x =', p.get_val('x'),
          ' (true optimum x = [%g, %g])' % ((2, 2) if ub == 4.0 else (3, 3)))
nc = captured['constraints'][0]
x0 = np.array([1.0, 1.0]); h = 1e-6
p.driver._objfunc(x0); p.driver._gradfunc(x0)
v0 = nc.fun(x0); jac = nc.jac(x0)
p.driver._objfunc(x0 + np.array([h, 0])); v1 = nc.fun(x0 + np.array([h, 0]))
print('   fun(x) =', v0, ' finite-difference d fun/dx0 =', (v1 - v0) / h, ' jac(x)[0] =', jac[0])
