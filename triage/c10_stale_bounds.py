"""C10: stale scaled-bound arrays survive a second Problem.setup()."""
import numpy as np, openmdao.api as om

class Imp(om.ImplicitComponent):
    def initialize(self):
        self.options.declare('x_lower', default=None, allow_none=True)
    def setup(self):
        # x: root at -6 ; y: root at 1 (y keeps an upper bound so that _has_bounds stays True)
        self.add_output('x', -5.0, lower=self.options['x_lower'])
        self.add_output('y', 0.0, upper=10.0)
        self.declare_partials('x', 'x'); self.declare_partials('y', 'y')
    def apply_nonlinear(self, i, o, r):
        r['x'] = o['x'] + 6.0
        r['y'] = o['y'] - 1.0
    def linearize(self, i, o, p):
        p['x', 'x'] = 1.0; p['y', 'y'] = 1.0

for ls in (om.BoundsEnforceLS, om.ArmijoGoldsteinLS):
  for method in ('vector', 'scalar', 'wall'):
    p = om.Problem()
    c = p.model.add_subsystem('c', Imp(x_lower=0.0))
    nl = p.model.nonlinear_solver = om.NewtonSolver(solve_subsystems=False, maxiter=1, iprint=-1)
    nl.linesearch = ls(bound_enforcement=method, iprint=-1)
    p.model.linear_solver = om.DirectSolver()
    p.setup()
    p.set_val('c.x', 1.0)
    p.run_model()
    # second configuration: x no longer has a lower bound
    c.options['x_lower'] = None
    p.setup()
    p.set_val('c.x', -5.0)
    p.final_setup()
    print(ls.__name__, method, 'lower array after re-setup:', nl.linesearch._lower_bounds, 'meta lower:', p.model.c._var_abs2meta['output']['c.x']['lower'])
    p.run_model()
    print('   x after 1 Newton iter from -5 toward -6, no declared bounds on x:', p.get_val('c.x'))
