import numpy as np
import openmdao.api as om

class C(om.ExplicitComponent):
    def initialize(self):
        self.options.declare('kind', default='dense')
    def setup(self):
        self.add_input('x', np.ones(3))
        self.add_output('y', np.ones(3))
        k = self.options['kind']
        if k == 'dense':
            self.declare_partials('y', 'x')
        elif k == 'rc':
            self.declare_partials('y', 'x', rows=[0,1,2], cols=[0,1,2])
        elif k == 'diag':
            self.declare_partials('y', 'x', diagonal=True)
    def compute(self, i, o):
        o['y'] = i['x']**3
    def compute_partials(self, i, p):
        k = self.options['kind']
        if k == 'dense':
            p['y','x'] = np.diag(3*i['x']**2)
        else:
            p['y','x'] = 3*i['x']**2

for kind in ('dense', 'rc', 'diag'):
    p = om.Problem()
    p.model.add_subsystem('c', C(kind=kind))
    p.setup()
    p.run_model()
    d = p.check_partials(out_stream=None, method='fd', step=[1e-1, 1e-6])
    m = d['c']['y','x']
    print(kind, 'J_fd[0][0,0]=', np.asarray(m['J_fd'][0])[0,0], 'J_fd[1][0,0]=', np.asarray(m['J_fd'][1])[0,0], 'same obj', m['J_fd'][0] is m['J_fd'][1],
          'abs err', [e.forward for e in m['abs error']])
