"""C11: DenseMatrix._update_from_submat scales the whole (row_slice, col_slice) block by subjac.factor,
not only the columns selected by src_indices.  Two inputs of one component connected to disjoint
parts of the same source, the later-updated one with a unit conversion."""
import sys
import numpy as np
import openmdao.api as om

class C(om.ExplicitComponent):
    def setup(self):
        self.add_input('a', np.ones(2), units='m')
        self.add_input('b', np.ones(2), units='cm')
        self.add_output('y', np.ones(2))
        self.declare_partials('y', 'a', val=np.array([[1., 2.], [3., 4.]]))
        self.declare_partials('y', 'b', val=np.array([[5., 6.], [7., 8.]]))
    def compute(self, i, o):
        o['y'] = np.array([[1., 2.], [3., 4.]]) @ i['a'] + np.array([[5., 6.], [7., 8.]]) @ i['b']

def build(jac):
    p = om.Problem()
    p.model.add_subsystem('src', om.IndepVarComp('s', np.arange(1., 5.), units='m'))
    g = p.model.add_subsystem('g', om.Group())
    g.add_subsystem('pass_', om.ExecComp('s2 = 1.0*s', s={'shape': 4, 'units': 'm'}, s2={'shape': 4, 'units': 'm'}))
    g.add_subsystem('c', C())
    g.connect('pass_.s2', 'c.a', src_indices=[0, 1])
    g.connect('pass_.s2', 'c.b', src_indices=[2, 3])
    p.model.connect('src.s', 'g.pass_.s')
    if jac is not None:
        g.linear_solver = om.DirectSolver(assemble_jac=True)
        g.options['assembled_jac_type'] = jac
    p.setup()
    p.run_model()
    return p

res = {}
for jac in (None, 'csc', 'dense'):
    p = build(jac)
    J = p.compute_totals(of=['g.c.y'], wrt=['src.s'])['g.c.y', 'src.s']
    res[jac] = J
    print(jac, '\n', J)
    if jac:
        print(' dr/do:\n', p.model.g._assembled_jac._dr_do_mtx.todense())
exact = np.hstack([np.array([[1., 2.], [3., 4.]]), 100. * np.array([[5., 6.], [7., 8.]])])
print('exact\n', exact)
for k, v in res.items():
    print(k, 'max err', np.abs(v - exact).max())
