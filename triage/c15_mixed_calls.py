import numpy as np
from openmdao.components.interp_util.interp import InterpND
p1 = np.array([-3., -1., 0., 2.]); p2 = np.array([-2., 0., 1.])
f = np.add.outer(2*p1, 3*p2)
for method in ('2D-slinear', '3D-slinear', '1D-slinear', '2D-lagrange2', '1D-lagrange2', '2D-lagrange3', '1D-lagrange3', '1D-akima'):
    try:
        if method.startswith('1D'):
            it = InterpND(method=method, points=(np.arange(6.) - 3,), values=np.arange(6.)**2)
            many = np.array([[-2.5], [0.5]]); one = np.array([[0.5]])
        elif method.startswith('3D'):
            p3 = np.array([0., 1., 2.])
            it = InterpND(method=method, points=(p1, p2, p3), values=np.add.outer(f, p3))
            many = np.array([[-2., -1., .5], [1., .5, 1.5]]); one = np.array([[1., .5, 1.5]])
        else:
            it = InterpND(method=method, points=(p1, p2), values=f)
            many = np.array([[-2., -1.], [1., .5]]); one = np.array([[1., .5]])
        a = it.interpolate(many)
        b = it.interpolate(one)
        print(method, 'batch', a, 'then single', b)
    except Exception as e:
        print(method, 'batch ok then single-point call FAILED:', type(e).__name__, e)
