import numpy as np, io
import openmdao.api as om

class MF(om.ExplicitComponent):
    """matrix-free y = 3x ; fwd is right (3), rev is wrong (7)."""
    def setup(self):
        self.add_input('x', 1.0)
        self.add_output('y', 1.0)
    def compute(self, i, o):
        o['y'] = 3*i['x']
    def compute_jacvec_product(self, inputs, d_inputs, d_outputs, mode):
        if mode == 'fwd':
            if 'y' in d_outputs and 'x' in d_inputs:
                d_outputs['y'] += 3.0*d_inputs['x']
        else:
            if 'y' in d_outputs and 'x' in d_inputs:
                d_inputs['x'] += 7.0*d_outputs['y']

p = om.Problem()
p.model.add_subsystem('c', MF())
p.setup()
p.run_model()
s = io.StringIO()
d = p.check_partials(out_stream=s)
txt = s.getvalue()
i = txt.find('(Jrev - Jfwd)')
print(txt[i-30:i+330])
print('vals_at_max_error.fwd_rev =', d['c']['y','x']['vals_at_max_error'].fwd_rev, ' J_fwd=', d['c']['y','x']['J_fwd'], 'J_rev=', d['c']['y','x']['J_rev'])
