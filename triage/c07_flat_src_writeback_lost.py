"""C07 defect: set_val on an input with flat src_indices is silently dropped.

Indexer.indexed_val_set (openmdao/utils/indexer.py) writes `arr.ravel()[self.flat()] = val` when the
indexer has _flat_src.  ndarray.ravel() returns a *copy* for non-contiguous arrays, so the write is
lost whenever AllConnGraph.set_subarray hands it a strided view:
  A. the source vector is complex-allocated (force_alloc_complex=True, or any ExecComp / cs partials in the
     model): model._abs_get_val(src) is `view.real`, stride 16 -> every set_val on an input connected
     with 1-D src_indices does nothing after final_setup;
  B. nested promotes with src_indices where an outer level is a stepped slice ([::2]) -> chain[1] is a
     strided view, in every phase (before/after final_setup, after run_model), no complex needed.
Run: /venv/bin/python /tmp/c07/c07_flat_src_writeback_lost.py        (add --fixed to trial `.flat[...]`)
"""
import sys, warnings
import numpy as np
import openmdao.api as om
warnings.simplefilter('ignore')

if '--fixed' in sys.argv:
    from openmdao.utils.indexer import Indexer
    def indexed_val_set(self, arr, val):
        if self._flat_src:
            arr.flat[self.flat()] = val
        else:
            arr[self()] = val
    Indexer.indexed_val_set = indexed_val_set

class C(om.ExplicitComponent):
    def initialize(self): self.options.declare('n', default=3)
    def setup(self):
        n = self.options['n']
        self.add_input('x', np.ones(n), units='m'); self.add_output('y', np.ones(n), units='m')
    def compute(self, i, o): o['y'] = 2 * i['x']

bad = 0
def report(tag, name, v, got):
    global bad
    ok = np.allclose(got, v)
    bad += not ok
    print(f'{tag:34s} set_val({name!r}, {v}) -> get_val = {got}   {"ok" if ok else "ROUND TRIP BROKEN"}')

# A: complex-allocated vectors, plain connect with src_indices
for phase in ('after final_setup', 'after run_model'):
    p = om.Problem(reports=None)
    p.model.add_subsystem('ivc', om.IndepVarComp('a', np.arange(10.), units='m'))
    p.model.add_subsystem('c', C(n=4))
    p.model.connect('ivc.a', 'c.x', src_indices=[1, 3, 5, 7])
    p.setup(force_alloc_complex=True)
    p.final_setup()
    if phase == 'after run_model': p.run_model()
    v = np.array([10., 20., 30., 40.])
    p.set_val('c.x', v)
    report('A complex vectors, ' + phase, 'c.x', v, p.get_val('c.x'))
    p.set_val('c.x', 99., indices=[1])
    report('A  ... with indices=[1]', 'c.x', 99., p.get_val('c.x', indices=[1]))

# B: nested src_indices, real vectors, all phases
for phase in ('before final_setup', 'after final_setup', 'after run_model'):
    p = om.Problem(reports=None)
    g = p.model.add_subsystem('g', om.Group())
    g.add_subsystem('c', C(n=3))
    g.promotes('c', inputs=['x'], src_indices=[0, 2, 4], src_shape=(5,))
    p.model.promotes('g', inputs=['x'], src_indices=om.slicer[::2], src_shape=(10,))
    p.setup()
    if phase != 'before final_setup': p.final_setup()
    if phase == 'after run_model': p.run_model()
    v = np.array([1., 2., 3.])
    p.set_val('g.c.x', v)
    report('B nested src_indices, ' + phase, 'g.c.x', v, p.get_val('g.c.x'))
print('broken round trips:', bad)
sys.exit(1 if bad else 0)
