"""C17.effective: record_desvars/objectives/constraints are ignored when record_outputs is False."""
import os, tempfile, openmdao.api as om
def run(on, **opts):
    f = os.path.join(tempfile.mkdtemp(), 'cases.sql')
    p = om.Problem()
    p.model.add_subsystem('c', om.ExecComp(['y = 2*x', 'z = x + 1']), promotes=['*'])
    p.model.add_design_var('x', lower=0, upper=10); p.model.add_objective('y'); p.model.add_constraint('z', upper=100)
    p.driver = om.DOEDriver(om.ListGenerator([[('x', 1.0)]]))
    tgt = p.driver if on == 'driver' else p
    tgt.add_recorder(om.SqliteRecorder(f))
    for k, v in opts.items():
        tgt.recording_options[k] = v
    p.setup(); p.run_driver()
    if on == 'problem':
        p.record('final')
    sel = tgt._filtered_vars_to_record['output']
    p.cleanup()
    cr = om.CaseReader(f)
    c = cr.get_case(cr.list_cases(on, out_stream=None)[0])
    return 'selected by _get_vars_to_record:', sel, 'in case:', sorted(c.outputs or [])
for on in ('driver', 'problem'):
    print(on, 'includes=[] (desvars/obj/cons only) ->', *run(on, includes=[]))
    print(on, 'record_outputs=False                ->', *run(on, record_outputs=False))
