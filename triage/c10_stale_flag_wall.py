"""Repaired tree: is (lower=None, upper=None, _has_bounds=True) reachable?  Component._has_bounds is never reset."""
import sys
sys.path.insert(0, sys.argv[1] if len(sys.argv) > 1 else '/tmp/wt_fix2')
import numpy as np, openmdao, openmdao.api as om
print('openmdao from', openmdao.__file__)

class Imp(om.ImplicitComponent):
    def initialize(self):
        self.options.declare('x_lower', default=None, allow_none=True)
    def setup(self):
        self.add_output('x', 1.0, lower=self.options['x_lower'])
        self.declare_partials('x', 'x')
    def apply_nonlinear(self, i, o, r):
        r['x'] = o['x'] - 5.0
    def linearize(self, i, o, p):
        p['x', 'x'] = 1.0

for ls in (om.BoundsEnforceLS, om.ArmijoGoldsteinLS):
  for method in ('vector', 'scalar', 'wall'):
    p = om.Problem()
    c = p.model.add_subsystem('c', Imp(x_lower=0.0))
    nl = p.model.nonlinear_solver = om.NewtonSolver(solve_subsystems=False, maxiter=1, iprint=-1)
    nl.linesearch = ls(bound_enforcement=method, iprint=-1)
    p.model.linear_solver = om.DirectSolver()
    p.setup(); p.run_model()
    c.options['x_lower'] = None        # second configuration: no bound anywhere in the model
    p.setup(); p.final_setup()
    try:
        p.run_model()
        print(ls.__name__, method, 'has_bounds comp/model =', c._has_bounds, p.model._has_bounds,
              'arrays', nl.linesearch._lower_bounds, nl.linesearch._upper_bounds, 'x =', p.get_val('c.x'))
    except Exception as e:
        print(ls.__name__, method, 'has_bounds comp/model =', c._has_bounds, p.model._has_bounds, 'RAISED', type(e).__name__, e)
