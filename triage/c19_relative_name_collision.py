"""Triage (a), silent variant: a subsystem-relative promoted output name that also exists as a model-level
promoted name of ANOTHER variable is restored into that other variable, without any warning."""
import os, tempfile, warnings
import numpy as np, openmdao.api as om
os.environ['OPENMDAO_REPORTS'] = '0'
os.chdir(tempfile.mkdtemp())

def build():
    p = om.Problem()
    p.model.add_subsystem('top', om.ExecComp('y = a + 1'), promotes_outputs=['y'])   # model-level 'y' = top.y
    g = p.model.add_subsystem('g', om.Group())
    g.add_subsystem('c1', om.ExecComp('y = 2*x'), promotes=['*'])                      # g-level 'y' = g.c1.y
    return p

p = build()
p.model.g.add_recorder(om.SqliteRecorder('cases.sql', record_viewer_data=False))
p.setup(); p.set_val('g.x', 5.0); p.set_val('top.a', 100.0); p.run_model(); p.cleanup()
cr = om.CaseReader(p.get_outputs_dir() / 'cases.sql')
case = cr.get_case(cr.list_cases('root.g', out_stream=None)[-1])
print('case.outputs:', dict(case.outputs), 'absolute:', list(case.outputs.absolute_names()))
q = build(); q.setup(); q.final_setup()
before = q.get_val('top.y').copy()
with warnings.catch_warnings(record=True) as w:
    warnings.simplefilter('always')
    q.load_case(case)
print('warnings:', [str(x.message)[:80] for x in w])
print("get_val('g.c1.y') =", q.get_val('g.c1.y'), ' recorded', case.outputs['g.c1.y'])
print("get_val('top.y')  =", q.get_val('top.y'), ' before load_case', before, '(not in the case at all)')
