"""C12 triage: coloured approximated totals with an indexed design variable ahead of another design variable."""
import warnings
import numpy as np
import openmdao.api as om
warnings.filterwarnings('ignore')


def build(colored):
    p = om.Problem()
    ivc = p.model.add_subsystem('ivc', om.IndepVarComp(), promotes=['*'])
    ivc.add_output('a', np.array([1., 2., 3., 4.]))
    ivc.add_output('b', np.array([5., 6.]))
    p.model.add_subsystem('c1', om.ExecComp('y = a**2', a=np.ones(4), y=np.ones(4)), promotes=['*'])
    p.model.add_subsystem('c2', om.ExecComp('z = 3*b + b**2', b=np.ones(2), z=np.ones(2)), promotes=['*'])
    p.model.add_design_var('a', indices=[1, 3])       # indexed desvar declared first
    p.model.add_design_var('b')
    p.model.add_constraint('y', upper=100.)
    p.model.add_constraint('z', upper=100.)
    p.model.add_subsystem('o', om.ExecComp('f = 2*q'))
    p.model.add_objective('o.f')
    p.model.approx_totals(method='fd')
    p.driver = om.ScipyOptimizeDriver(optimizer='SLSQP', maxiter=1, disp=False)
    if colored:
        p.driver.declare_coloring(show_summary=False, num_full_jacs=2, tol=1e-20)
    p.setup()
    p.run_driver()
    p.set_val('a', [1., 2., 3., 4.])
    p.set_val('b', [5., 6.])
    p.run_model()
    return p


J = {}
for colored in (False, True):
    p = build(colored)
    J[colored] = p.compute_totals(return_format='array')
    print('coloured' if colored else 'uncoloured')
    print(np.round(J[colored], 4))
d = np.abs(J[True] - J[False]).max()
print('max |coloured - uncoloured| =', d, 'DEFECT REPRODUCED' if d > 1e-3 else 'no difference')
