"""C31 finding: Problem.check_totals permanently replaces the approximation settings of a model that uses
approx_totals (problem.py: the restore block is guarded by `if not approx:` while the FD pass that overwrites
model._approx_schemes / _owns_approx_jac_meta runs unconditionally)."""
import warnings
import numpy as np
import openmdao.api as om
warnings.simplefilter('ignore')

p = om.Problem()
p.model.add_subsystem('c', om.ExecComp('y = sin(3*x) + x**3'), promotes=['*'])
p.model.add_design_var('x'); p.model.add_objective('y')
p.model.approx_totals(method='fd', step=1e-1, form='central')      # user's (deliberately coarse) choice
p.setup(); p.set_val('x', 0.7); p.run_model()

before_meta = dict(p.model._owns_approx_jac_meta)
J0 = p.compute_totals()['y', 'x'].copy()
x0, y0 = p.get_val('x').copy(), p.get_val('y').copy()
p.check_totals(out_stream=None)                                    # default check: fd, forward, step 1e-6
J1 = p.compute_totals()['y', 'x'].copy()
print('inputs/outputs unchanged :', np.array_equal(x0, p.get_val('x')), np.array_equal(y0, p.get_val('y')))
print('approx meta before       :', before_meta)
print('approx meta after        :', p.model._owns_approx_jac_meta)
print('compute_totals before    :', J0.ravel())
print('compute_totals after     :', J1.ravel(), ' <- same state, different answer')
assert not np.allclose(J0, J1, rtol=1e-6), 'no leak'
print('LEAK CONFIRMED: |dJ| =', abs(J0 - J1).max())
