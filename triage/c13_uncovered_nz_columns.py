"""Triage for C13: under-declared rows/cols sparsity; approximated nonzeros outside the pattern in 2 columns."""
import numpy as np, openmdao.api as om, scipy.sparse as sp
class C(om.ExplicitComponent):
    def initialize(self):
        self.options.declare('fmt')
    def setup(self):
        self.add_input('x', np.ones(3)); self.add_output('y', np.ones(3))
        fmt = self.options['fmt']
        if fmt == 'rowcol':
            self.declare_partials('y', 'x', rows=[0, 1, 2], cols=[0, 1, 2])
        else:
            self.declare_partials('y', 'x', val=getattr(sp, fmt + '_matrix')(np.eye(3)))
    def compute(self, i, o):
        x = i['x']
        o['y'] = x + np.array([0., 3*x[0], 0.]) + np.array([5*x[2], 0., 0.])  # extra dy1/dx0 and dy0/dx2
    def compute_partials(self, i, p):
        if self.options['fmt'] == 'rowcol':
            p['y', 'x'] = np.ones(3)
for fmt in ('rowcol', 'coo', 'csc', 'csr'):
    p = om.Problem(); p.model.add_subsystem('c', C(fmt=fmt)); p.setup(); p.run_model()
    d = p.check_partials(out_stream=None)
    print(fmt, 'uncovered_nz reported:', d['c']['y', 'x'].get('uncovered_nz'), ' expected [(1,0),(0,2)]')
