"""C10: bounds on an output whose shape is determined dynamically (copy_shape / shape_by_conn)."""
import numpy as np, openmdao.api as om

class Imp(om.ImplicitComponent):
    def initialize(self):
        self.options.declare('dyn', default=True)
    def setup(self):
        self.add_input('a', shape_by_conn=True)
        if self.options['dyn']:
            self.add_output('x', 1.0, lower=0.0, upper=2.0, copy_shape='a')
        else:
            self.add_output('x', np.ones(2), lower=0.0, upper=2.0)
    def setup_partials(self):
        n = self._get_var_meta('x', 'size')
        self.declare_partials('x', 'x', rows=np.arange(n), cols=np.arange(n), val=1.0)
        self.declare_partials('x', 'a', rows=np.arange(n), cols=np.arange(n), val=0.0)
    def apply_nonlinear(self, i, o, r):
        r['x'] = o['x'] - 5.0   # root at 5, outside upper bound 2

for dyn in (False, True):
  for ls in (om.BoundsEnforceLS, om.ArmijoGoldsteinLS):
    p = om.Problem()
    p.model.add_subsystem('ivc', om.IndepVarComp('a', np.zeros(2)))
    p.model.add_subsystem('c', Imp(dyn=dyn))
    p.model.connect('ivc.a', 'c.a')
    nl = p.model.nonlinear_solver = om.NewtonSolver(solve_subsystems=False, maxiter=1, iprint=-1)
    nl.linesearch = ls(bound_enforcement='scalar', iprint=-1)
    p.model.linear_solver = om.DirectSolver()
    p.setup()
    p.final_setup()
    p.set_val('c.x', 1.0)
    p.run_model()
    m = p.model.c._var_abs2meta['output']['c.x']
    print('dynamic shape' if dyn else 'static shape ', ls.__name__, 'has_bounds(model)=', p.model._has_bounds,
          'meta lower/upper=', m['lower'], m['upper'], ' x after 1 Newton iter =', p.get_val('c.x'))
