"""Triage for C17: CaseReader.get_case(int) when the indexed global iteration is a problem case."""
import os, tempfile, numpy as np, openmdao.api as om
d = tempfile.mkdtemp(); f = os.path.join(d, 'cases.sql')
p = om.Problem()
p.model.add_subsystem('c', om.ExecComp('y = 2*x'), promotes=['*'])
p.model.add_design_var('x', lower=0, upper=10); p.model.add_objective('y')
rec = om.SqliteRecorder(f)
p.driver = om.DOEDriver(om.ListGenerator([[('x', 1.0)], [('x', 2.0)]]))
p.driver.add_recorder(rec); p.add_recorder(rec)
p.setup(); p.run_driver(); p.set_val('x', 7.0); p.run_model(); p.record('final'); p.cleanup()
cr = om.CaseReader(f)
ids = cr.list_cases(out_stream=None)
print('cases in order:', ids)
for i in range(len(ids)):
    try:
        c = cr.get_case(i)
        print(i, 'expected', ids[i], 'got', c.name, 'x=', c.get_val('x'))
    except Exception as e:
        print(i, 'expected', ids[i], 'ERR', type(e).__name__, e)
