"""C07 defect: a value set between setup() and final_setup() is silently discarded at final_setup when the
connection tree of the variable contains a dynamically shaped input (shape_by_conn) and the promoted
input has set_input_defaults(val=...).

Group._setup_part2 -> AllConnGraph.update_all_node_meta -> resolve_conn_tree (second pass, only for
trees with dynamic nodes) -> resolve_from_children re-derives `node_meta.val` of the auto_ivc source from
the children / group defaults (conn_graph.py ~l.2293-2303: `node_meta.val = val`) and overwrites what
set_val stored in the source node; Group.set_initial_values then loads the default into the vector.
Run: /venv/bin/python /tmp/c07/c07_set_lost_at_final_setup_dynamic.py   (--fixed trials a first-pass/None guard)
"""
import sys, inspect, textwrap, warnings
import numpy as np
import openmdao.api as om
warnings.simplefilter('ignore')

if '--fixed' in sys.argv:
    import openmdao.core.conn_graph as cg
    src = textwrap.dedent(inspect.getsource(cg.AllConnGraph.resolve_from_children))
    assert src.count('if val is not None:') == 1
    src = src.replace('if val is not None:', 'if val is not None and (self._first_pass or node_meta.val is None):')
    ns = {}
    exec(compile(src, 'patched', 'exec'), cg.__dict__, ns)
    cg.AllConnGraph.resolve_from_children = ns['resolve_from_children']

bad = 0
for dyn in (False, True):
    p = om.Problem(reports=None)
    G = p.model.add_subsystem('G', om.Group(), promotes=['x'])
    G.add_subsystem('c1', om.ExecComp('y=2*x', x={'shape': 3, 'units': 'cm'}, y={'shape': 3}), promotes=['x'])
    kw = {'shape_by_conn': True} if dyn else {'shape': 3}
    G.add_subsystem('c2', om.ExecComp('y=3*x', x=dict(units='mm', **kw), y={'copy_shape': 'x'} if dyn else {'shape': 3}),
                    promotes=['x'])
    G.set_input_defaults('x', val=np.ones(3) * 5., units='m')
    p.setup()
    v = np.array([1., 2., 3.])
    p.set_val('x', v)
    pre = p.get_val('x').copy()
    p.final_setup()
    post = p.get_val('x').copy()
    p.run_model()
    run = p.get_val('x').copy()
    ok = np.allclose(pre, v) and np.allclose(post, v) and np.allclose(run, v)
    bad += not ok
    print(f"shape_by_conn={dyn}: set_val('x', {v}) -> before final_setup {pre}, after final_setup {post}, "
          f"after run_model {run}, c2.y={p.get_val('G.c2.y')}   {'ok' if ok else 'VALUE LOST AT final_setup'}")
sys.exit(1 if bad else 0)
