"""C19: Problem.load_case stores a recorded OUTPUT value through INPUT endpoints.

case.outputs is keyed by promoted name; the value of an _auto_ivc output is recorded under the promoted
name of the inputs it feeds, in the auto_ivc's own units and with its full shape.  The outputs loop of
load_case resolves that key with resolver.absnames(name) (no iotype), which for such a key returns the
absolute *input* names, and calls model.set_val(<abs input>, val): the value is then interpreted in the
input's units / through the input's src_indices.
 (a) inputs c1.x [m] and c2.x [cm] promoted to 'x', set_input_defaults('x', units='m'):
     after load_case get_val('x') is the recorded value / 100, run_model does not reproduce the outputs.
 (b) same with src_indices on one input: load_case raises ValueError (shape mismatch)."""
import numpy as np, openmdao.api as om, os, tempfile, warnings
os.chdir(tempfile.mkdtemp())

def build(src_indices=False):
    p = om.Problem()
    m = p.model
    m.add_subsystem('c1', om.ExecComp('y = 2*x', x={'shape': (2,), 'units': 'm'}, y={'shape': (2,)}), promotes_inputs=['x'])
    if src_indices:
        m.add_subsystem('c2', om.ExecComp('y = 3*x', x={'units': 'cm'}))
        m.promotes('c2', inputs=['x'], src_indices=[1], src_shape=(2,))
    else:
        m.add_subsystem('c2', om.ExecComp('y = 3*x', x={'shape': (2,), 'units': 'cm'}, y={'shape': (2,)}), promotes_inputs=['x'])
    m.set_input_defaults('x', val=np.ones(2), units='m')
    return p

viol = 0
for si in (False, True):
    print('--- src_indices on c2.x:', si)
    p = build(si)
    p.add_recorder(om.SqliteRecorder('cases.sql'))
    p.recording_options['record_inputs'] = True
    p.recording_options['includes'] = ['*']
    p.setup(); p.set_val('x', [3., 7.]); p.run_model(); p.record('final'); p.cleanup()
    case = om.CaseReader(p.get_outputs_dir() / 'cases.sql').get_case('final')
    p2 = build(si); p2.setup(); p2.final_setup()
    try:
        p2.load_case(case)
    except Exception as e:
        print('load_case raised', type(e).__name__, e); viol += 1
        continue
    for kind, tab in (('output', case.outputs), ('input', case.inputs)):
        for n in tab:
            got, want = p2.get_val(n), tab[n]
            ok = np.allclose(got, want); viol += not ok
            print(f'{kind:6s} get_val({n!r}) = {got}  recorded {want}  {"ok" if ok else "MISMATCH"}')
    p2.run_model()
    for n in ('c1.y', 'c2.y'):
        ok = np.allclose(p2.get_val(n), case.outputs[n]); viol += not ok
        print(f'after run_model {n} = {p2.get_val(n)}  recorded {case.outputs[n]}  {"ok" if ok else "MISMATCH"}')
print('VIOLATION' if viol else 'ok')
