"""C12 triage: component with coloured cs partials plus one uncoloured fd partial."""
import warnings, traceback
import numpy as np
import openmdao.api as om
warnings.filterwarnings('ignore')


class C(om.ExplicitComponent):
    def setup(self):
        self.add_input('x', np.ones(4))
        self.add_input('a', 2.0)
        self.add_output('y', np.ones(4))
        self.declare_coloring(wrt='x', method='cs', show_summary=False, num_full_jacs=2, tol=1e-20)
        self.declare_partials('y', 'a', method='fd')

    def compute(self, i, o):
        o['y'] = i['a'] * i['x'] ** 3


p = om.Problem()
p.model.add_subsystem('c', C(), promotes=['*'])
p.setup(force_alloc_complex=True)
p.set_val('x', [1., 2., 3., 4.])
p.run_model()
try:
    p.model.run_linearize()          # first call computes the colouring
    J = p.compute_totals(of=['y'], wrt=['x', 'a'], return_format='array')
    ex = np.hstack([np.diag(3 * 2.0 * np.array([1., 2., 3., 4.]) ** 2), (np.array([1., 2., 3., 4.]) ** 3).reshape(4, 1)])
    print('max err', np.abs(J - ex).max())
except Exception as e:
    traceback.print_exc(limit=3)
    print('DEFECT REPRODUCED:', type(e).__name__, e)
