"""Triage for C21: SLSQP with an array constraint whose element 0 is one-sided and element 1 two-sided."""
import numpy as np, openmdao.api as om
p = om.Problem()
p.model.add_subsystem('c', om.ExecComp(['f = (x[0]-3)**2 + (x[1]-3)**2', 'g = 1.0*x'], x=np.zeros(2), g=np.zeros(2)), promotes=['*'])
p.model.add_design_var('x', lower=-10, upper=10)
p.model.add_objective('f')
p.model.add_constraint('g', lower=np.array([-5., -5.]), upper=np.array([1e30, 1.0]))
p.driver = om.ScipyOptimizeDriver(optimizer='SLSQP', disp=False)
p.setup()
fail = p.run_driver()
print('success:', p.driver.result.success if hasattr(p.driver, 'result') else not p.driver.fail, 'x =', p.get_val('x'), 'g =', p.get_val('g'), 'upper =', [1e30, 1.0])
