"""C12: coloured FD with a relative step_calc perturbs every column with the step of ONE variable.

ApproximationScheme._init_colored_approximations calls _get_approx_data once ("data is the same for all
colored approxs so we only need the first") but FiniteDifference._get_approx_data depends on the wrt
variable whenever step_calc != 'abs'.  Public API only; run with /venv/bin/python.
"""
import warnings
import numpy as np
import openmdao.api as om
warnings.filterwarnings('ignore')
A = np.array([1e4, 2e4])
B = np.array([1e-3, 2e-3])


class C(om.ExplicitComponent):
    def initialize(self):
        self.options.declare('colored', False)
        self.options.declare('sc', 'abs')

    def setup(self):
        self.add_input('a', A)
        self.add_input('b', B)
        self.add_output('y', np.zeros(2))
        self.add_output('z', np.zeros(2))
        self.declare_partials('*', '*', method='fd', step=1e-6, step_calc=self.options['sc'])
        if self.options['colored']:
            self.declare_coloring(wrt='*', method='fd', step=1e-6, show_summary=False)

    def compute(self, i, o):
        o['y'] = 3 * np.sin(i['a'] * 1e-4)
        o['z'] = np.exp(i['b'] * 1e3)


exact = np.zeros((4, 4))
exact[0, 0], exact[1, 1] = 3e-4 * np.cos(A * 1e-4)
exact[2, 2], exact[3, 3] = 1e3 * np.exp(B * 1e3)
scale = np.abs(exact).max(axis=1, keepdims=True)
bad = False
for sc in ('abs', 'rel', 'rel_avg', 'rel_legacy', 'rel_element'):
    J = {}
    for colored in (False, True):
        p = om.Problem()
        p.model.add_subsystem('c', C(colored=colored, sc=sc), promotes=['*'])
        p.setup()
        p.run_model()
        J[colored] = p.compute_totals(of=['y', 'z'], wrt=['a', 'b'], return_format='array')
    eu = (np.abs(J[False] - exact) / scale).max()
    ec = (np.abs(J[True] - exact) / scale).max()
    d = (np.abs(J[True] - J[False]) / scale).max()
    flag = '' if d < 10 * max(eu, 1e-12) else '   <-- coloured differs from uncoloured'
    bad |= bool(flag)
    print(f'step_calc={sc:12s} uncoloured rel.err {eu:.2e}   coloured rel.err {ec:.2e}   coloured-vs-uncoloured {d:.2e}{flag}')
print('DEFECT REPRODUCED' if bad else 'no difference')
