"""C23 'seeded generators are reproducible' on the UNCHANGED tree: sampling UniformGenerator.
Two generators built with the same seed and then iterated yield different cases, because the
process-wide numpy generator is seeded at construction (_setup) while draws happen lazily in __next__."""
import sys
from openmdao.drivers.sampling.uniform_generator import UniformGenerator
vd = {'x': {'lower': 0., 'upper': 1.}, 'y': {'lower': [-1., 2.], 'upper': [1., 3.]}}
g1 = UniformGenerator(vd, num_samples=3, seed=7)
g2 = UniformGenerator(vd, num_samples=3, seed=7)
c1 = [[list(map(float, s[n]['val'])) for n in vd] for s in g1]
c2 = [[list(map(float, s[n]['val'])) for n in vd] for s in g2]
print('g1', c1[0]); print('g2', c2[0])
if c1 != c2:
    print('FAIL: same seed, different cases'); sys.exit(1)
print('ok: same seed, same cases')
