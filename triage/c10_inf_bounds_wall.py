"""C10: explicitly infinite bound + 'wall' enforcement."""
import numpy as np, openmdao.api as om

class Imp(om.ImplicitComponent):
    def setup(self):
        self.add_output('x', 1.0, lower=-np.inf)
        self.declare_partials('x', 'x')
    def apply_nonlinear(self, i, o, r):
        r['x'] = o['x'] - 5.0
    def linearize(self, i, o, p):
        p['x', 'x'] = 1.0

for ls in (om.BoundsEnforceLS, om.ArmijoGoldsteinLS):
  for method in ('vector', 'scalar', 'wall'):
    p = om.Problem()
    p.model.add_subsystem('c', Imp())
    nl = p.model.nonlinear_solver = om.NewtonSolver(solve_subsystems=False, maxiter=1, iprint=-1)
    nl.linesearch = ls(bound_enforcement=method, iprint=-1)
    p.model.linear_solver = om.DirectSolver()
    p.setup()
    try:
        p.run_model()
        print(ls.__name__, method, 'x =', p.get_val('c.x'), nl.linesearch._lower_bounds, nl.linesearch._upper_bounds)
    except Exception as e:
        print(ls.__name__, method, 'RAISED', type(e).__name__, e)
