"""Triage for C15: in-bounds boundary points on a grid with negative coordinates raise OutOfBoundsError."""
import numpy as np
from openmdao.components.interp_util.interp import InterpND
grid = np.array([-3.0, -2.0, -1.0]); vals = grid * 2.0
for x in (-3.0, -1.0, -2.5):
    try:
        itp = InterpND(method='slinear', points=(grid,), values=vals, extrapolate=False)
        print(x, '->', itp.interpolate(np.array([x])))
    except Exception as e:
        print(x, 'ERR', type(e).__name__, e)
