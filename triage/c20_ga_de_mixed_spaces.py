"""DE/GA drivers compare driver-scaled constraint values with model-space bounds."""
import numpy as np
import openmdao.api as om

def run(drv, con_ref):
    p = om.Problem()
    m = p.model
    m.add_subsystem('c', om.ExecComp('f = -x'), promotes=['*'])   # maximise x
    m.add_subsystem('g', om.ExecComp('y = x'), promotes=['*'])
    m.add_design_var('x', lower=0.0, upper=100.0)
    m.add_objective('f')
    m.add_constraint('y', upper=5.0, ref=con_ref)     # y <= 5 in model units
    if drv == 'de':
        p.driver = om.DifferentialEvolutionDriver(max_gen=60, pop_size=30, penalty_parameter=1e4)
    else:
        p.driver = om.SimpleGADriver(max_gen=60, pop_size=40, penalty_parameter=1e4, bits={'x': 12})
    p.driver._randomstate = 11
    p.setup()
    p.set_val('x', 1.0)
    p.run_driver()
    return p.get_val('x')[0], p.get_val('y')[0]

for drv in ('de', 'ga'):
    for ref in (None, 10.0):
        x, y = run(drv, ref)
        print(f'{drv}: constraint y<=5 declared with ref={ref}: optimum x={x:.3f} y={y:.3f}  feasible={y <= 5 + 1e-2}')
