"""C24 triage (1): implicit comp, coupled states, input partials declared per state; x1 depends on b only via x2."""
import sys
import numpy as np
import openmdao.api as om
import openmdao.utils.relevance as relmod


class Imp(om.ImplicitComponent):
    def setup(self):
        self.add_input('a', 1.0)
        self.add_input('b', 1.0)
        self.add_output('x1', 1.0)
        self.add_output('x2', 1.0)
        self.declare_partials('x1', ['a', 'x1', 'x2'])
        self.declare_partials('x2', ['b', 'x2'])

    def apply_nonlinear(self, i, o, r):
        r['x1'] = o['x1'] - i['a'] - 3.0 * o['x2']
        r['x2'] = o['x2'] - 2.0 * i['b']

    def solve_nonlinear(self, i, o):
        o['x2'] = 2.0 * i['b']
        o['x1'] = i['a'] + 3.0 * o['x2']

    def linearize(self, i, o, J):
        J['x1', 'a'] = -1.0
        J['x1', 'x1'] = 1.0
        J['x1', 'x2'] = -3.0
        J['x2', 'b'] = -2.0
        J['x2', 'x2'] = 1.0


def run(norel, mode):
    relmod._no_relevance = norel
    p = om.Problem()
    m = p.model
    m.add_subsystem('ivc', om.IndepVarComp(), promotes=['*'])
    m.ivc.add_output('a', 1.0)
    m.ivc.add_output('b', 1.0)
    m.add_subsystem('imp', Imp(), promotes=['*'])
    m.add_subsystem('resp', om.ExecComp('y = 2*x1'), promotes=['*'])
    m.linear_solver = om.ScipyKrylov(atol=1e-14, rtol=1e-14)
    m.add_design_var('a'); m.add_design_var('b'); m.add_objective('y')
    p.setup(mode=mode); p.set_solver_print(-1); p.run_model()
    return float(p.compute_totals(of=['y'], wrt=['b'], return_format='array')[0, 0])


bad = False
for mode in ('fwd', 'rev'):
    on, off = run(False, mode), run(True, mode)
    print(f'{mode}: dy/db relevance on = {on:.4f} off = {off:.4f} exact = 12')
    bad |= abs(on - off) > 1e-8
print('FAIL' if bad else 'PASS'); sys.exit(1 if bad else 0)
