"""C24 triage (2): explicit comp with fd partials; two compute_totals with different wrt."""
import sys
import openmdao.api as om
import openmdao.utils.relevance as relmod


class C(om.ExplicitComponent):
    def setup(self):
        self.add_input('xa', 1.0); self.add_input('xb', 1.0)
        self.add_output('y', 0.0)
        self.declare_partials('y', 'xa')
        self.declare_partials('y', 'xb', method='fd')

    def compute_partials(self, i, J):
        J['y', 'xa'] = 4.0

    def compute(self, i, o):
        o['y'] = 4.0 * i['xa'] + 6.0 * i['xb']


def run(norel):
    relmod._no_relevance = norel
    p = om.Problem()
    m = p.model
    m.add_subsystem('ivc', om.IndepVarComp(), promotes=['*'])
    m.ivc.add_output('xa', 1.0); m.ivc.add_output('xb', 1.0)
    m.add_subsystem('c', C(), promotes=['*'])
    p.setup(); p.set_solver_print(-1); p.run_model()
    j1 = float(p.compute_totals(of=['y'], wrt=['xa'], return_format='array')[0, 0])
    j2 = float(p.compute_totals(of=['y'], wrt=['xb'], return_format='array')[0, 0])
    return round(j1, 5), round(j2, 5)


on, off = run(False), run(True)
print('relevance on :', on); print('relevance off:', off)
bad = on != off
print('FAIL' if bad else 'PASS'); sys.exit(1 if bad else 0)
