import numpy as np, openmdao.api as om
exec(open(__import__('os').path.join(__import__('os').path.dirname(__import__('os').path.abspath(__file__)) if '__file__' in dir() else '.', '_c03_model.py')).read().split("import openmdao.utils.coloring as cm")[0])
wrt=[f'x{i}' for i in range(n)]
res = {}
for color in (True, False):
    p = om.Problem()
    p.model.add_subsystem('c', Lin(), promotes=['*'])
    for i in range(n):
        p.model.add_design_var(f'x{i}', lower=-10, upper=10, ref=float(i+2))
    p.model.add_constraint('y', lower=0., ref=np.arange(1,n+1)*3.0)
    p.model.add_objective('x0')
    p.driver = om.ScipyOptimizeDriver(optimizer='SLSQP', maxiter=1, disp=False)
    if color:
        p.driver.declare_coloring(direct=False, show_summary=False, min_improve_pct=0.)
    p.setup(mode='auto')
    p.run_driver()
    tj = p.driver._total_jac
    print(color, 'nsolves', tj.nsolves, None if tj.simul_coloring is None else tj.simul_coloring._subtractions, tj.modes)
    res[color] = tj.compute_totals()
    if isinstance(res[color], dict):
        res[color] = np.hstack([res[color]['y', w] for w in wrt])
sc_out = 1/(np.arange(1,n+1)*3.0); sc_in = 1/np.arange(2,n+2)
exact = (A*sc_out[:,None])/sc_in[None,:]
np.set_printoptions(linewidth=200, precision=4)
print("colored vs uncolored", np.max(np.abs(res[True]-res[False]))); print(res[True]-res[False])

