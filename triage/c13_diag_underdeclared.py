import numpy as np
import openmdao.api as om

class C(om.ExplicitComponent):
    def setup(self):
        self.add_input('x', np.ones(3))
        self.add_output('y', np.ones(3))
        self.declare_partials('y', 'x', diagonal=True)
    def compute(self, i, o):
        x = i['x']
        o['y'] = 2*x
        o['y'][1] += 3*x[0]      # out of pattern (1,0)
        o['y'][0] += 5*x[2]      # out of pattern (0,2)
    def compute_partials(self, i, p):
        p['y','x'] = 2*np.ones(3)

p = om.Problem()
p.model.add_subsystem('c', C())
p.setup(force_alloc_complex=True)
p.run_model()
try:
    d = p.check_partials(out_stream=None, method='cs')
    print(d['c']['y','x'].get('uncovered_nz'), d['c']['y','x'].get('uncovered_threshold'))
except Exception as e:
    import traceback; traceback.print_exc()
