"""C01 defect: DirectSolver(assemble_jac=False) , rev mode, model-level ref on the `of` variable.

The LU matrix built by _build_mtx is the *scaled* operator  M = R^-1 J O  (O = diag(ref), R = diag(res_ref)).
In rev mode DirectSolver.solve solves  M^T x = b  = O J^T R^-1 x = b, but the rev-mode operator that every
other code path (apply_linear in rev, ScipyKrylov, LinearBlockGS, assembled DirectSolver) uses with the same
fwd-convention vector scaling is  O^-1 J^T R.  The two differ by O^2 / R^2.
"""
import warnings; warnings.simplefilter('ignore')
import numpy as np
import scipy.linalg
import openmdao.api as om
from openmdao.solvers.linear.direct import DirectSolver


def build(linear_solver, mode, ref, res_ref):
    p = om.Problem()
    m = p.model
    m.add_subsystem('c1', om.ExecComp('y = 3.0*x + 0.25*z', y={'ref': ref, 'res_ref': res_ref}), promotes=['*'])
    m.add_subsystem('c2', om.ExecComp('z = y + x'), promotes=['*'])
    m.nonlinear_solver = om.NonlinearBlockGS(iprint=-1, maxiter=200, atol=1e-14, rtol=1e-14)
    m.linear_solver = linear_solver
    p.setup(mode=mode)
    p.set_val('x', 1.5)
    p.run_model()
    return p


def totals(p):
    return p.compute_totals(of=['y', 'z'], wrt=['x'], return_format='array').ravel()


exact = np.array([13. / 3., 16. / 3.])
print('exact dy/dx, dz/dx        ', exact)
rows = [('DirectSolver(assemble_jac=False) fwd', om.DirectSolver(assemble_jac=False), 'fwd'),
        ('DirectSolver(assemble_jac=False) rev', om.DirectSolver(assemble_jac=False), 'rev'),
        ('DirectSolver(assemble_jac=True) rev', om.DirectSolver(assemble_jac=True), 'rev'),
        ('ScipyKrylov rev', om.ScipyKrylov(atol=1e-14, rtol=1e-14), 'rev')]
worst = {}
for label, ls, mode in rows:
    J = totals(build(ls, mode, ref=10.0, res_ref=1.0))
    worst[label] = np.max(np.abs(J - exact))
    print(f'{label:38s}', J, ' max err', worst[label])

# root cause check: compensate the scaling in the non-assembled rev branch and the error disappears
orig = DirectSolver.solve
def patched(self, mode, rel_systems=None):
    system = self._system()
    if mode == 'rev' and system._get_assembled_jac() is None:
        O = system._doutputs._scaling[0] if system._has_output_scaling else 1.0
        R = system._dresiduals._scaling[0] if system._has_resid_scaling else 1.0
        b = system._doutputs.asarray()
        x = system._dresiduals.asarray()
        x[:] = scipy.linalg.lu_solve(self._lup, b * O * O, trans=1) / (R * R)
        return
    return orig(self, mode, rel_systems)
DirectSolver.solve = patched
J = totals(build(om.DirectSolver(assemble_jac=False), 'rev', ref=10.0, res_ref=1.0))
print(f'{"DirectSolver() rev + O^2/R^2 compensation":38s}', J, ' max err', np.max(np.abs(J - exact)))
J2 = totals(build(om.DirectSolver(assemble_jac=False), 'rev', ref=10.0, res_ref=7.0))
print(f'{"   same, res_ref=7":38s}', J2, ' max err', np.max(np.abs(J2 - exact)))
DirectSolver.solve = orig
J3 = totals(build(om.DirectSolver(assemble_jac=False), 'rev', ref=10.0, res_ref=7.0))
print(f'{"DirectSolver() rev, res_ref=7 (as is)":38s}', J3, ' max err', np.max(np.abs(J3 - exact)))
assert worst['DirectSolver(assemble_jac=False) rev'] > 1.0 and worst['DirectSolver(assemble_jac=False) fwd'] < 1e-9
print('DEFECT CONFIRMED: rev totals differ from fwd/exact by the factor ref**2 =', exact[0] / totals(build(om.DirectSolver(assemble_jac=False), 'rev', 10.0, 1.0))[0])
