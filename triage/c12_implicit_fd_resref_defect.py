"""C12: FD (forward/backward) partials of an ImplicitComponent are wrong when res_ref != 1 and the residual is non-zero.

ImplicitComponent._linearize wraps compute_approximations in _unscaled_context(outputs=[self._outputs]) only, so
FiniteDifference._run_point reads the base point current_coeff * system._residuals in the SCALED state while the
perturbed residuals (captured after run_apply_nonlinear) are physical.  ExplicitComponent._linearize unscales both.
Public API only; run with /venv/bin/python.
"""
import numpy as np
import openmdao.api as om


class Imp(om.ImplicitComponent):
    def initialize(self):
        self.options.declare('form', default='forward')
        self.options.declare('res_ref', default=1.0)

    def setup(self):
        self.add_input('a', 2.0)
        self.add_output('x', 1.0, res_ref=self.options['res_ref'])
        self.declare_partials('x', ['a', 'x'], method='fd', form=self.options['form'], step=1e-6)

    def apply_nonlinear(self, inputs, outputs, residuals):
        residuals['x'] = inputs['a'] * outputs['x'] ** 2 - 3.0


bad = False
for res_ref in (1.0, 100.0):
    for form in ('forward', 'backward', 'central'):
        p = om.Problem()
        p.model.add_subsystem('c', Imp(form=form, res_ref=res_ref))
        p.setup()
        p.final_setup()
        p.set_val('c.a', 2.0)
        p.set_val('c.x', 1.5)                 # residual = 2*2.25 - 3 = 1.5  (non-zero, as inside a Newton iteration)
        p.model.run_apply_nonlinear()
        p.model.run_linearize()
        sj = p.model.c._jacobian._subjacs
        J = np.array([float(np.ravel(sj[('c.x', 'c.a')].get_val())[0]), float(np.ravel(sj[('c.x', 'c.x')].get_val())[0])])
        ex = np.array([1.5 ** 2, 2 * 2.0 * 1.5])
        err = np.abs(J - ex).max()
        flag = '' if err < 1e-4 else '   <-- WRONG'
        bad |= bool(flag)
        print(f'res_ref={res_ref:6.1f} form={form:8s} dR/da={J[0]: .6e} dR/dx={J[1]: .6e} exact={ex}  err={err:.2e}{flag}')
print('DEFECT REPRODUCED' if bad else 'no difference')
