"""C04 triage D7: one promotes(..., inputs=['a', 'b'], src_indices=[-1, 0]) call shares ONE Indexer object.

Group.promotes builds a single _PromotesInfo (hence a single Indexer) and attaches it to every promoted name
(`subsys._var_promotes['input'].extend((i, prominfo) for i in inputs)`), AllConnGraph.add_promotion puts that same
object on both graph edges.  The two edges resolve it against two different source shapes (set_src_shape), the last
one wins: negative indices / open slices of the first input are resolved against the size of the OTHER source.
"""
import numpy as np, warnings
warnings.simplefilter('ignore')
import openmdao.api as om

p = om.Problem()
m = p.model
m.add_subsystem('sa', om.IndepVarComp('a', np.arange(5.) + 10), promotes=['a'])       # size 5
m.add_subsystem('sb', om.IndepVarComp('b', np.arange(93.) + 100), promotes=['b'])     # size 93
m.add_subsystem('c', om.ExecComp('y = a + b', a=np.zeros(2), b=np.zeros(2), y=np.zeros(2)))
m.promotes('c', inputs=['a', 'b'], src_indices=[-1, 0])
p.setup()
p.run_model()
a, b = p.get_val('c.a', from_src=False), p.get_val('c.b', from_src=False)
print('c.a =', a, 'expected [14. 10.]', 'ok' if np.array_equal(a, [14., 10.]) else 'VIOLATION')
print('c.b =', b, 'expected [192. 100.]', 'ok' if np.array_equal(b, [192., 100.]) else 'VIOLATION')
e = {k[1]: d.get('src_indices') for k, d in ((k, p.model.get_conn_graph().edges[k]) for k in p.model.get_conn_graph().edges) if d.get('src_indices') is not None}
print('same Indexer object on both edges:', len({id(v) for v in e.values()}) == 1, list(e))
