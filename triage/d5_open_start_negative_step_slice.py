"""C04 defect D5: flat slice src_indices with open start, negative step and an explicit non-negative stop.

SliceIndexer.shaped_instance keeps slice(None, 0, -1) unresolved (only negative bounds / open stop are
resolved); ShapedSliceIndexer.as_array then evaluates np.arange(*slc.indices(sys.maxsize)) =
arange(maxsize-1, 0, -1)[...] -> empty array or ValueError ("Maximum allowed size exceeded").
"""
import numpy as np, warnings
warnings.simplefilter('ignore')
import openmdao.api as om

src = np.arange(7.) + 10
for slc in (om.slicer[:0:-1], om.slicer[:2:-2]):
    exp = src[slc]
    p = om.Problem()
    p.model.add_subsystem('ivc', om.IndepVarComp('x', src.copy()))
    p.model.add_subsystem('c', om.ExecComp('y=2*x', x=np.zeros(exp.shape), y=np.zeros(exp.shape)))
    p.model.connect('ivc.x', 'c.x', src_indices=slc, flat_src_indices=True)
    try:
        p.setup()
        p.run_model()
        got = p.get_val('c.x', from_src=False)
        print(slc, 'expected', exp, 'input holds', got, 'ok' if np.array_equal(got, exp) else 'VIOLATION',
              '| transfer out_inds', p.model._transfers['fwd'][None]._out_inds)
    except (Exception, MemoryError) as e:
        print(slc, 'VIOLATION raised', type(e).__name__, str(e)[:100])
