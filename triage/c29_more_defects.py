"""Runtime demonstration of the two C29 defects reported by omstatic C29 (run: /venv/bin/python /tmp/c29_defects.py)."""
import os, tempfile, warnings
warnings.simplefilter('ignore')
import numpy as np
from openmdao.utils.file_wrap import InputFileGenerator, FileParser

d = tempfile.mkdtemp()
tmpl = os.path.join(d, 't.in'); out = os.path.join(d, 'o.in')

print('--- D1: negative float whose %.16g spelling has an exponent but no decimal point')
for v in (-1e-10, -1e-05, -3e-09, -2e-300, 1e-10, -1.5e-10):
    open(tmpl, 'w').write("header\nanchor 1.5 2.5 3.5\n")
    g = InputFileGenerator(); g.set_template_file(tmpl); g.set_generated_file(out)
    g.mark_anchor('anchor'); g.transfer_var(v, 0, 2); g.generate()
    line = open(out).read().splitlines()[1]
    p = FileParser(); p.set_file(out); p.mark_anchor('anchor')
    back, nxt = p.transfer_var(0, 2), p.transfer_var(0, 3)
    ok = (back == v and nxt == 2.5)
    print(f'  wrote {v!r:10} line={line!r:28} read field2={back!r:8} field3={nxt!r:8} {"ok" if ok else "WRONG"}')

print('--- D2: array larger than the template row, row is not the last line of the file')
open(tmpl, 'w').write("header\nanchor 1.5 2.5\nnext 7 8 9\nlast 1 2\n")
g = InputFileGenerator(); g.set_template_file(tmpl); g.set_generated_file(out)
g.mark_anchor('anchor')
g.transfer_array(np.array([1.25, 2.25, 3.25, 4.25]), 0, 2, 3, sep=' ')
g.generate()
print('  generated file:', repr(open(out).read()))
p = FileParser(); p.set_file(out); p.mark_anchor('anchor')
print('  untouched cell (anchor+1, field 2) was 7, now reads', repr(p.transfer_var(1, 2)))

print('--- D3: transfer_keyvar with a negative occurrence after an anchor')
open(tmpl, 'w').write('title line\nA1 1 2.5 -3\nmid x 4.25e-07 z\nA2 10 20.5 30 40\ntail 5 6 7 8\nA1 7 8 9\nend\n')
p = FileParser(); p.set_file(tmpl)
print('  no anchor      : transfer_keyvar("A1", 3, occurrence=-1) ->', p.transfer_keyvar('A1', 3, occurrence=-1), '(last A1 row is "A1 7 8 9": 9 is right)')
p.mark_anchor('mid')
try:
    print('  after anchor mid:', p.transfer_keyvar('A1', 3, occurrence=-1))
except Exception as e:
    print('  after mark_anchor("mid"): same call ->', type(e).__name__, e, '(it reads row anchor_row + (-2) = "title line")')
