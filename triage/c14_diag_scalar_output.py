"""C14 defect: has_diag_partials=True + array input feeding a size-1 output -> wrong partials, silently.

ExecComp._setup_partials declares (y, x) as a DENSE 1 x n partial when y has size 1 (diagonal=True is
only used when both sizes are > 1), but ExecComp.compute_partials perturbs the WHOLE input array at
once whenever has_diag_partials is set (`if has_diag_partials or psize == 1`) and broadcasts the single
complex-step result over the dense row: every entry becomes sum_j dy/dx_j.
"""
import warnings
import numpy as np
import openmdao.api as om

warnings.simplefilter('ignore')


def partials(has_diag):
    p = om.Problem()
    p.model.add_subsystem('c', om.ExecComp(['y = 3.0*x', 'z = sum(x*x)'],
                                           x=np.array([1., 2., 3.]), y=np.ones(3),
                                           has_diag_partials=has_diag))
    p.setup()
    p.run_model()
    J = p.compute_totals(of=['c.y', 'c.z'], wrt=['c.x'])
    return p.get_val('c.z'), J['c.z', 'c.x'], J['c.y', 'c.x']


exact = 2 * np.array([[1., 2., 3.]])
for flag in (False, True):
    z, dz, dy = partials(flag)
    print(f'has_diag_partials={flag}: z={z}  dz/dx={dz.tolist()}  exact={exact.tolist()}  '
          f'dy/dx diag={np.diag(dy).tolist()}')
z, dz, dy = partials(True)
assert np.allclose(dy, 3 * np.eye(3))
if not np.allclose(dz, exact):
    print('DEFECT REPRODUCED: dz/dx with has_diag_partials=True is', dz.tolist(), 'instead of', exact.tolist())
    raise SystemExit(1)
print('no defect')
