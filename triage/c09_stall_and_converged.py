"""Triage for C09: a solve that meets atol on the same iterate at which stall detection fires is
reported as a failure (AnalysisError with err_on_non_converge)."""
import numpy as np, openmdao.api as om

class Seq(om.ImplicitComponent):
    """Residual norm follows a scripted history regardless of state."""
    def setup(self):
        self.add_output('x', 1.0)
        self.declare_partials('x', 'x', val=1.0)
        self.k = 0
        self.hist = [1.0, 1.0e-7, 1.0e-11]
    def apply_nonlinear(self, inputs, outputs, residuals):
        residuals['x'] = self.hist[min(self.k, len(self.hist) - 1)]
        self.k += 1
    def linearize(self, i, o, p):
        pass

p = om.Problem()
c = p.model.add_subsystem('c', Seq())
nl = p.model.nonlinear_solver = om.NewtonSolver(solve_subsystems=False, maxiter=10, atol=1e-10, rtol=1e-30,
                                           stall_limit=1, stall_tol=1e-6, stall_tol_type='abs',
                                           err_on_non_converge=True, iprint=2)
nl.linesearch = None
p.model.linear_solver = om.DirectSolver()
p.setup()
try:
    p.run_model()
    print('no error: reported converged')
except om.AnalysisError as e:
    print('AnalysisError although final norm <= atol:', e)
