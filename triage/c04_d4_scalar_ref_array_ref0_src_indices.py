"""C04/C08 defect D4 (crash only): source with scalar ref, array ref0, connected through src_indices.

Group._compute_root_scale_factors: `ref = np.full(ref0.shape, ref)` is evaluated *before*
`ref0 = ref0[src_indices]`, so ref has the source size and ref0 the input size -> ValueError.
(The mirrored case array ref / scalar ref0 works because ref is indexed first.)
"""
import numpy as np, warnings
warnings.simplefilter('ignore')
import openmdao.api as om

for label, ref, ref0 in (('array ref, scalar ref0', np.arange(6.) + 2, 0.5), ('scalar ref, array ref0', 3.0, np.arange(6.) * .25)):
    p = om.Problem()
    m = p.model
    m.add_subsystem('s', om.ExecComp('x = 2*a', x={'val': np.ones(6), 'ref': ref, 'ref0': ref0}, a=np.arange(6.)))
    m.add_subsystem('c', om.ExecComp('y = 3*x', x=np.zeros(2), y=np.zeros(2)))
    m.connect('s.x', 'c.x', src_indices=[4, 1])
    try:
        p.setup()
        p.run_model()
        print(label, 'input =', p.get_val('c.x', from_src=False), 'ok' if np.allclose(p.get_val('c.x', from_src=False), [8., 2.]) else 'VIOLATION')
    except Exception as e:
        print(label, 'VIOLATION raised', type(e).__name__, e)
