import numpy as np, warnings, os, tempfile
warnings.simplefilter('ignore')
import openmdao.api as om
d=tempfile.mkdtemp()
p=om.Problem(reports=None)
p.model.add_subsystem('ivc', om.IndepVarComp('x', 3.0))
c=p.model.add_subsystem('c', om.ExecComp('y=2*x'))
p.model.connect('ivc.x','c.x')
# scaling
p.model.c._init_kw = None
class C(om.ExplicitComponent):
    def setup(self):
        self.add_input('x', 1.0); self.add_output('y', 1.0, ref=10.0, ref0=1.0, res_ref=5.0)
        self.declare_partials('*','*',method='fd')
    def compute(self, i, o): o['y']=2*i['x']
p.model.add_subsystem('d', C()); p.model.connect('ivc.x','d.x')
p.model.nonlinear_solver=om.NonlinearBlockGS(maxiter=2)
p.model.add_recorder(om.SqliteRecorder(d+'/s.sql'))
p.model.nonlinear_solver.add_recorder(om.SqliteRecorder(d+'/n.sql'))
p.model.recording_options['record_residuals']=True
p.setup(); p.run_model()
print('true y', p.get_val('d.y'))
p.cleanup()
for f,src in (('s.sql','root'),('n.sql',None)):
    cr=om.CaseReader(d+'/'+f)
    for cid in cr.list_cases(out_stream=None)[-2:]:
        case=cr.get_case(cid)
        print(f, cid, 'd.y=', case.outputs['d.y'], 'resid' , case.residuals['d.y'] if case.residuals else None)
