import numpy as np, openmdao.api as om

class Boom(om.ExplicitComponent):
    def setup(self):
        self.add_input('x', 1.0); self.add_output('y', 1.0)
        self.declare_partials('y', 'x', val=2.0)
        self.n = 0
    def compute(self, inputs, outputs):
        self.n += 1
        if self.armed:
            raise RuntimeError('model blew up')
        outputs['y'] = 2 * inputs['x']

p = om.Problem()
c = p.model.add_subsystem('c', Boom(), promotes=['*'])
c.armed = False
p.model.add_design_var('x', lower=-10, upper=10)
p.model.add_objective('x')
p.model.add_constraint('y', lower=6.0)       # infeasible at x=1 (y=2): violation -4
p.setup()
p.set_val('x', 1.0)
p.run_model()
print('violation before:', p.driver.get_constraint_values(viol=True, driver_scaling=False))
c.armed = True
try:
    failed = p.find_feasible(iprint=1)
    print('find_feasible returned failed =', failed, ' success =', p.driver.result.success)
    print('x =', p.get_val('x'), ' exc_info pending:', p.driver._exc_info is not None)
except Exception as e:
    print('raised', type(e).__name__, e)
