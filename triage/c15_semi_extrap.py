import numpy as np
from openmdao.components.interp_util.interp_semi import InterpNDSemi
from openmdao.components.interp_util.outofbounds_error import OutOfBoundsError
import openmdao.api as om

# 1-D semi-structured table, grid 0..3
grid = np.array([0., 1., 2., 3.])
vals = np.array([0., 1., 4., 9.])
it = InterpNDSemi(grid, vals, method='slinear', extrapolate=False)
print('table.extrapolate =', it.table.extrapolate, ' (InterpNDSemi.extrapolate =', it.extrapolate, ')')
for x in (-1.0, 5.0):
    try:
        print('x=', x, '->', it.interpolate(np.array([x])), 'NO ERROR although extrapolate=False')
    except OutOfBoundsError as e:
        print('x=', x, 'raised', e)

# 2-D
g2 = np.array([[0., 0.], [0., 1.], [1., 0.], [1., 1.], [2., 0.], [2., 1.]])
v2 = np.arange(6.)
it = InterpNDSemi(g2, v2, method='slinear', extrapolate=False)
try:
    print('2D x=(5,5) ->', it.interpolate(np.array([[5., 5.]])), 'NO ERROR')
except OutOfBoundsError as e:
    print('2D raised', e)

# component level
for tdg in (False, True):
    p = om.Problem()
    c = om.MetaModelSemiStructuredComp(method='slinear', extrapolate=False, training_data_gradients=tdg)
    c.add_input('x', grid, val=5.0)
    c.add_output('f', training_data=vals)
    p.model.add_subsystem('c', c)
    p.setup()
    try:
        p.run_model()
        print('comp training_data_gradients=%s: f =' % tdg, p.get_val('c.f'), 'NO ERROR')
    except Exception as e:
        print('comp training_data_gradients=%s: raised' % tdg, type(e).__name__)
