"""C12 triage: relative FD step is computed once (first linearisation) and cached in the approx groups."""
import warnings
import numpy as np
import openmdao.api as om
warnings.filterwarnings('ignore')


class C(om.ExplicitComponent):
    def setup(self):
        self.add_input('x', 0.0)
        self.add_output('y', 0.0)
        self.declare_partials('y', 'x', method='fd', step=1e-6, step_calc='rel', form='forward')

    def compute(self, i, o):
        o['y'] = np.sin(i['x'] * 1e-3) * 1e3


def jac(first_x):
    p = om.Problem()
    p.model.add_subsystem('c', C(), promotes=['*'])
    p.setup()
    if first_x is not None:
        p.set_val('x', first_x); p.run_model()
        p.compute_totals(of=['y'], wrt=['x'])            # first linearisation fixes the step
    p.set_val('x', 1000.0); p.run_model()
    J = p.compute_totals(of=['y'], wrt=['x'], return_format='array')[0, 0]
    step = p.model.c._approx_schemes['fd']._approx_groups[0][1][0]
    return J, step

ex = np.cos(1.0)
for first in (None, 0.0, 1e9):
    J, step = jac(first)
    print(f'first linearisation at x={first!s:6}: step used at x=1000 is {np.ravel(step)[0]:.3e}  d y/d x = {J:.9f}  rel.err = {abs(J - ex) / ex:.2e}')
