"""C21 runtime demonstration (unmodified /repo, scipy 1.18): trust-constr evaluates the constraint
callbacks BEFORE the objective at each new point, so _con_val_func returns the cached value of the
previous point.  Scalar, lower-only, nonlinear constraint: none of the other three defects applies."""
import warnings
import numpy as np, openmdao.api as om
warnings.simplefilter('ignore')
p = om.Problem(reports=False)
p.model.add_subsystem('c', om.ExecComp(['f = (x[0]-3)**2 + (x[1]-3)**2', 'g = x[0] + x[1]'], x=np.zeros(2), g=0.0), promotes=['*'])
p.model.add_design_var('x', lower=-10, upper=10)
p.model.add_objective('f')
p.model.add_constraint('g', lower=7.0)
p.driver = d = om.ScipyOptimizeDriver(optimizer='trust-constr', disp=False)
p.setup()
log = []
orig = type(d)._con_val_func
def spy(self, x, name, dbl, idx):
    r = orig(self, x, name, dbl, idx)
    log.append((np.array(x), float(r)))
    return r
type(d)._con_val_func = spy
p.run_driver()
type(d)._con_val_func = orig
for x, r in log[:4]:
    print('   scipy asks g at x =', x, ' true g =', x.sum(), ' callback returned', r)
print('success =', d.result.success, ' x =', p.get_val('x'), ' g =', p.get_val('g'), ' lower = 7 (true optimum x = [3.5, 3.5], g = 7)')
