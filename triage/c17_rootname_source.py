"""C17.rooted: a system whose name starts with 'root' cannot be queried by source (CaseTable.list_sources)."""
import os, tempfile, openmdao.api as om
f = os.path.join(tempfile.mkdtemp(), 'cases.sql')
p = om.Problem()
a = p.model.add_subsystem('rootcomp', om.ExecComp('y = 2*x'))
b = p.model.add_subsystem('other', om.ExecComp('y = 3*x'))
rec = om.SqliteRecorder(f)
a.add_recorder(rec); b.add_recorder(rec)
p.setup(); p.run_model(); p.cleanup()
cr = om.CaseReader(f)
print('all cases     :', [c.split('|')[-2] for c in cr.list_cases(out_stream=None)])
print('list_sources  :', sorted(cr.list_sources(out_stream=None)))
for case in cr.get_cases():
    print('case.source   :', case.source)
for s in ('root.other', 'root.rootcomp', 'rootcomp'):
    try:
        print(f'list_cases({s!r}) ->', len(cr.list_cases(s, recurse=False, out_stream=None)), 'case(s)')
    except Exception as e:
        print(f'list_cases({s!r}) -> {type(e).__name__}: {e}')
