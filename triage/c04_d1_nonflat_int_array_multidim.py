"""C04 defect D1: non-flat int / 1-D array src_indices on a multi-dimensional source.

connect('ivc.x', 'c.x', src_indices=[-1, 0]) (flat_src_indices=False) on a (3,4) source selects rows
[-1, 0] -> target shape (2,4); setup accepts it, get_val(from_src=True) is right, but the transfer built by
DefaultTransfer._setup_transfers from AllConnGraph.get_src_index_array() uses
ShapedArrayIndexer.as_array() == the raw 1-D array [2, 0] as *flat* source positions: only 2 of the 8
positions of the np.empty() transfer index array are written, the rest is uninitialised memory.
Result: the input holds wrong values (or IndexError if the garbage is out of range).
"""
import numpy as np, warnings
warnings.simplefilter('ignore')
import openmdao.api as om

src = np.arange(12.).reshape(3, 4) + 100
for name, idx in (('array [-1, 0]', [-1, 0]), ('int 1', 1), ('int -1', -1)):
    exp = np.atleast_1d(src[np.array(idx) if isinstance(idx, list) else idx])
    p = om.Problem()
    p.model.add_subsystem('ivc', om.IndepVarComp('x', src.copy()))
    p.model.add_subsystem('c', om.ExecComp('y=2*x', x=np.zeros(exp.shape), y=np.zeros(exp.shape)))
    p.model.connect('ivc.x', 'c.x', src_indices=idx, flat_src_indices=False)
    p.setup()
    try:
        p.run_model()
    except Exception as e:
        print(f'{name}: run_model raised {type(e).__name__}: {e}')
        xfer = None
    got = p.get_val('c.x', from_src=False)
    print(f'{name}: expected input {exp.ravel()}')
    print(f'{" " * len(name)}  actual input   {got.ravel()}')
    print(f'{" " * len(name)}  get_val(from_src=True) {np.ravel(p.get_val("c.x"))}')
    print(f'{" " * len(name)}  transfer out_inds {p.model._transfers["fwd"][None]._out_inds}')
    print('   VIOLATION' if not np.array_equal(got.ravel(), exp.ravel()) else '   ok')
