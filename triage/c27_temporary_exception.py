"""Triage for C27: OptionsDictionary.temporary() does not restore on exception."""
from openmdao.utils.options_dictionary import OptionsDictionary
o = OptionsDictionary()
o.declare('a', default=1, types=int)
try:
    with o.temporary(a=5):
        raise RuntimeError('boom')
except RuntimeError:
    pass
print('after exception a =', o['a'], '(declared previous value 1)', 'cache', o._context_cache)
assert o['a'] == 1, 'temporary() leaked the temporary value after an exception'
