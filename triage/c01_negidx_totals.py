import numpy as np, warnings
warnings.simplefilter('ignore')
import openmdao.api as om
src = np.arange(12.).reshape(3,4)+1
for lin in ('direct_asm', 'direct', 'lnrunonce'):
  for mode in ('fwd','rev'):
    idx=[0,5,-1,3]
    p = om.Problem()
    G = p.model.add_subsystem('G', om.Group())
    G.add_subsystem('s', om.ExecComp('x = a*2', x={'val': src.copy()}, a={'val': src.copy()/2}))
    G.add_subsystem('c', om.ExecComp('y=3*x', x={'val': np.zeros(4)}, y={'val': np.zeros(4)}))
    G.connect('s.x', 'c.x', src_indices=idx, flat_src_indices=True)
    if lin.startswith('direct'):
        G.linear_solver = om.DirectSolver(assemble_jac=lin=='direct_asm')
    p.setup(mode=mode)
    p.run_model()
    J = p.compute_totals(of=['G.c.y'], wrt=['G.s.a'])[('G.c.y','G.s.a')]
    Jexp = np.zeros((4,12)); 
    for r,i in enumerate(idx): Jexp[r, i % 12] = 6
    print(lin, mode, 'totals ok', np.allclose(J, Jexp), '' if np.allclose(J,Jexp) else J[2])
