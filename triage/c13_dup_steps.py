import numpy as np
import openmdao.api as om

class C(om.ExplicitComponent):
    def setup(self):
        self.add_input('x', np.ones(3))
        self.add_output('y', np.ones(3))
        self.declare_partials('y', 'x', rows=[0,1,2], cols=[0,1,2])
    def compute(self, i, o):
        x = i['x']
        o['y'] = 2*x
        o['y'][1] += 3*x[0]      # out of pattern (1,0)
        o['y'][0] += 5*x[2]      # out of pattern (0,2)
    def compute_partials(self, i, p):
        p['y','x'] = 2*np.ones(3)

p = om.Problem()
p.model.add_subsystem('c', C())
p.setup(force_alloc_complex=True)
p.run_model()
d = p.check_partials(out_stream=None, method='fd', step=[1e-6, 1e-7])
print('two steps:', d['c']['y','x'].get('uncovered_nz'), d['c']['y','x'].get('uncovered_threshold'))
d = p.check_partials(out_stream=None, method='fd')
print('second call:', d['c']['y','x'].get('uncovered_nz'))
d = p.check_partials(out_stream=None, method='fd')
print('third call:', d['c']['y','x'].get('uncovered_nz'))
print('comp meta keys', list(p.model.c._subjacs_info[('c.y','c.x')].keys()))
import io
s = io.StringIO()
p2 = om.Problem(); p2.model.add_subsystem('c', C()); p2.setup(); p2.run_model()
p2.check_partials(out_stream=s, method='fd', step=[1e-6, 1e-7])
print([l for l in s.getvalue().splitlines() if 'Sparsity excludes' in l or 'Rows:' in l or 'Cols:' in l])
