"""C27: temporary() leaves earlier options changed when a later temporary value is rejected."""
import warnings
from openmdao.utils.options_dictionary import OptionsDictionary
o = OptionsDictionary()
o.declare('a', default=1, types=int)
o.declare('b', default=2, types=int)
try:
    with o.temporary(a=5, b='bad'):
        print('body ran (unexpected)')
except TypeError as e:
    print('temporary() raised:', e)
print("after: a =", o['a'], " b =", o['b'], " cache =", o._context_cache)
print('a restored?', o['a'] == 1)

# alias + target in one call, restored in setup order
o2 = OptionsDictionary()
o2.declare('new', default=0, types=int)
o2.declare('old', default=0, types=int, deprecation=('old is deprecated', 'new'))
with warnings.catch_warnings():
    warnings.simplefilter('ignore')
    with o2.temporary(old=1, new=2):
        pass
    print('alias case: new =', o2['new'], '(was 0)')

# set_function non idempotent
o3 = OptionsDictionary()
o3.declare('s', default=1, set_function=lambda meta, v: v * 2)
o3['s'] = 3
print('s =', o3['s'])
with o3.temporary(s=10):
    print(' inside s =', o3['s'])
print('after s =', o3['s'], '(was 6)')
