import numpy as np, openmdao.api as om
def build(ref, res_ref, solver):
    p = om.Problem()
    m = p.model
    m.add_subsystem('c', om.ExecComp('y = 3.0*x'), promotes=['*'])
    class E(om.ExplicitComponent):
        def setup(self):
            self.add_input('y'); self.add_output('z', ref=ref, res_ref=res_ref)
            self.declare_partials('z','y')
        def compute(self, i, o): o['z'] = 2*i['y']
        def compute_partials(self, i, J): J['z','y'] = 2.0
    m.add_subsystem('e', E(), promotes=['*'])
    m.add_subsystem('d', om.ExecComp('w = 5.0*z'), promotes=['*'])
    if solver == 'lbgs': m.linear_solver = om.LinearBlockGS()
    elif solver == 'direct': m.linear_solver = om.DirectSolver()
    elif solver == 'krylov': m.linear_solver = om.ScipyKrylov()
    return p
for mode in ('fwd','rev'):
  for solver in ('runonce','lbgs','direct','krylov'):
    for ref,res_ref in ((5.0,None),(5.0,1.0),(1.0,7.0),(5.0,7.0)):
        p = build(ref,res_ref,solver); p.setup(mode=mode); p.run_model()
        J = p.compute_totals(of=['w'], wrt=['x'])
        print(mode, solver, 'ref',ref,'res_ref',res_ref,'dw/dx =', J['w','x'].ravel(), '(exact 30)')
