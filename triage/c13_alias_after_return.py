import numpy as np
import openmdao.api as om

class C(om.ExplicitComponent):
    def setup(self):
        self.add_input('x', np.ones(3))
        self.add_output('y', np.ones(3))
        self.declare_partials('y', 'x')
    def compute(self, i, o):
        o['y'] = i['x']**3
    def compute_partials(self, i, p):
        p['y','x'] = np.diag(10*i['x']**2)     # WRONG: should be 3 x^2

p = om.Problem()
p.model.add_subsystem('c', C())
p.setup()
p.run_model()
d = p.check_partials(out_stream=None, method='fd')
m = d['c']['y','x']
print('returned J_fd[0,0] right after check_partials :', m['J_fd'][0,0])
print('is the component\'s own jacobian storage      :', m['J_fd'] is p.model.c._subjacs_info[('c.y','c.x')]['val'])
p.model.run_linearize()
print('returned J_fd[0,0] after the next linearize   :', m['J_fd'][0,0])
