"""C19: a recorded input that exists in the model is not restored by Problem.load_case when the case
stores its inputs as a dict (any model with a discrete variable): PromAbsDict then keys case.inputs by
PROMOTED name, but the inputs loop of load_case only accepts names for which resolver.is_abs(name,'input')
holds, so every promoted input is skipped with a (wrong) 'not found in the model' warning."""
import numpy as np, openmdao.api as om, os, tempfile, warnings
os.chdir(tempfile.mkdtemp())

class D(om.ExplicitComponent):
    def setup(self):
        self.add_discrete_input('n', 1)
        self.add_input('x', 1.0)
        self.add_output('y', 0.0)
    def compute(self, inputs, outputs, discrete_inputs, discrete_outputs):
        outputs['y'] = inputs['x'] * discrete_inputs['n']

def build():
    p = om.Problem()
    p.model.add_subsystem('d', D(), promotes=['*'])
    return p

p = build()
p.model.add_recorder(om.SqliteRecorder('cases.sql'))
p.model.recording_options['record_inputs'] = True
p.model.recording_options['record_outputs'] = False
p.setup()
p.set_val('x', 3.); p.set_val('n', 5)
p.run_model(); p.cleanup()
case = om.CaseReader(p.get_outputs_dir() / 'cases.sql').get_case(0)
print('recorded inputs :', dict(case.inputs), ' recorded outputs:', case.outputs and dict(case.outputs))

p2 = build(); p2.setup(); p2.final_setup()
with warnings.catch_warnings(record=True) as w:
    warnings.simplefilter('always')
    p2.load_case(case)
    for x in w: print('WARNING:', x.message)
bad = 0
for n in case.inputs:
    got, want = p2.get_val(n), case.inputs[n]
    ok = np.all(got == want)
    bad += not ok
    print(f'get_val({n!r}) after load_case = {got}   recorded = {want}   {"ok" if ok else "MISMATCH"}')
p2.run_model()
print('y after run_model =', p2.get_val('y'), '  original run gave', p.get_val('y'))
print('VIOLATION' if bad else 'ok')
