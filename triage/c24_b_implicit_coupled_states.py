"""C24 triage (b): analytic ImplicitComponent with two coupled states, group-level ScipyKrylov."""
import sys
import numpy as np
import openmdao.api as om
import openmdao.utils.relevance as relmod

K, M = 1.0, 1.0 / 3.0


class Coupled(om.ImplicitComponent):
    def setup(self):
        self.add_input('x', 1.0)
        self.add_output('o1', 1.0)
        self.add_output('o2', 1.0)
        self.declare_partials('o1', ['x', 'o1', 'o2'])
        self.declare_partials('o2', ['o1', 'o2'])

    def apply_nonlinear(self, i, o, r):
        r['o1'] = 2.0 * o['o1'] - i['x'] - K * o['o2']
        r['o2'] = o['o2'] - M * o['o1']

    def solve_nonlinear(self, i, o):
        o['o1'] = i['x'] / (2.0 - K * M)
        o['o2'] = M * o['o1']

    def linearize(self, i, o, J):
        J['o1', 'x'] = -1.0
        J['o1', 'o1'] = 2.0
        J['o1', 'o2'] = -K
        J['o2', 'o1'] = -M
        J['o2', 'o2'] = 1.0


def run(norel, mode, lin):
    relmod._no_relevance = norel
    p = om.Problem()
    m = p.model
    m.add_subsystem('ivc', om.IndepVarComp('x', 2.0), promotes=['*'])
    g = m.add_subsystem('g', om.Group(), promotes=['*'])
    g.add_subsystem('c', Coupled(), promotes=['*'])
    g.linear_solver = om.ScipyKrylov(atol=1e-14, rtol=1e-14) if lin == 'krylov' else om.DirectSolver()
    p.setup(mode=mode)
    p.set_solver_print(-1)
    p.run_model()
    return float(p.compute_totals(of=['o1'], wrt=['x'], return_format='array')[0, 0])


bad = False
for lin in ('krylov', 'direct'):
    for mode in ('fwd', 'rev'):
        on, off = run(False, mode, lin), run(True, mode, lin)
        print(f'{lin:7s} {mode}: do1/dx relevance on = {on:.6f}  off = {off:.6f}  exact = {1/(2-K*M):.6f}')
        bad |= abs(on - off) > 1e-8
print('FAIL: totals differ with relevance enabled' if bad else 'PASS')
sys.exit(1 if bad else 0)
