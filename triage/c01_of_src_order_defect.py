"""C01: compute_totals(of=<source names in the order the responses were *added*>) on the UNCHANGED tree.

Group._get_totals_metadata builds  of_src_names  by iterating driver._responses (insertion order) instead of
driver._get_ordered_nl_responses() (objectives first).  When a constraint was added before the objective, a
request  of=[con_source, obj_source]  compares equal to of_src_names, has_custom_derivs stays False, and the
driver's coloring (rows ordered objective, constraint) is applied to a jacobian whose rows are ordered
constraint, objective.
"""
import sys, warnings
import numpy as np
import openmdao.api as om
warnings.simplefilter('ignore')
A = np.array([[2.0, -3.0], [5.0, 7.0]])


class Comp(om.ExplicitComponent):
    def setup(self):
        self.add_input('x', np.ones(3)); self.add_input('z', np.ones(2))
        self.add_output('f', 1.0); self.add_output('g', np.ones(2))
        self.declare_partials('f', 'x', rows=[0], cols=[2])
        self.declare_partials('g', 'z', val=A)
        self.declare_partials('g', 'x', rows=[0, 1], cols=[0, 1], val=1.0)

    def compute(self, i, o):
        o['f'] = i['x'][2] ** 2; o['g'] = A @ i['z'] + i['x'][:2]

    def compute_partials(self, i, p):
        p['f', 'x'] = 2.0 * i['x'][2]


def build(mode, coloring):
    p = om.Problem()
    p.model.add_subsystem('c', Comp(), promotes=['*'])
    p.model.add_design_var('x', lower=-10, upper=10)
    p.model.add_design_var('z', lower=-10, upper=10)
    p.model.add_constraint('g', upper=1000.)          # constraint added BEFORE the objective
    p.model.add_objective('f')
    p.driver = om.ScipyOptimizeDriver(optimizer='SLSQP', disp=False, maxiter=1)
    if coloring:
        p.driver.declare_coloring(show_summary=False, show_sparsity=False)
    p.setup(mode=mode)
    p.set_val('x', np.array([1.5, -2.0, 4.0])); p.set_val('z', np.array([0.5, -0.25]))
    p.run_model()
    return p


ok = True
for mode in ('fwd', 'rev'):
    for coloring in (False, True):
        p = build(mode, coloring)
        x = p.get_val('x')
        exact = {('c.f', 'x'): np.array([[0., 0., 2 * x[2]]]), ('c.f', 'z'): np.zeros((1, 2)),
                 ('c.g', 'x'): np.array([[1., 0, 0], [0, 1., 0]]), ('c.g', 'z'): A}
        p.compute_totals()                       # driver order: generates / uses the driver colouring
        J = p.compute_totals(of=['c.g', 'c.f'], wrt=['x', 'z'], return_format='flat_dict')
        bad = [k for k, e in exact.items() if not np.allclose(J[k], e)]
        print(f'mode={mode} coloring={coloring}:', 'ok' if not bad else f'MISMATCH {bad}')
        for k in bad:
            print('   ', k, 'observed', J[k].tolist(), 'expected', exact[k].tolist())
        ok &= not bad
print('PASS' if ok else 'FAIL'); sys.exit(0 if ok else 1)
