"""Triage for C08: matrix-free ExplicitComponent with ref/res_ref on its output; totals vs unscaled model."""
import numpy as np, openmdao.api as om
class MF(om.ExplicitComponent):
    def initialize(self):
        self.options.declare('ref', default=1.0); self.options.declare('res_ref', default=None)
    def setup(self):
        self.add_input('x', 1.0)
        self.add_output('y', 1.0, ref=self.options['ref'], res_ref=self.options['res_ref'])
    def compute(self, i, o):
        o['y'] = 3.0 * i['x']
    def compute_jacvec_product(self, inputs, d_inputs, d_outputs, mode):
        if mode == 'fwd':
            if 'y' in d_outputs and 'x' in d_inputs:
                d_outputs['y'] += 3.0 * d_inputs['x']
        else:
            if 'y' in d_outputs and 'x' in d_inputs:
                d_inputs['x'] += 3.0 * d_outputs['y']
for ref, res_ref in ((1.0, None), (10.0, None), (10.0, 2.0)):
  for mode in ('fwd', 'rev'):
    for lin in ('default', 'lnbgs', 'krylov'):
        p = om.Problem()
        p.model.add_subsystem('c', MF(ref=ref, res_ref=res_ref), promotes=['*'])
        p.model.add_subsystem('d', om.ExecComp('z = 2*y'), promotes=['*'])
        if lin == 'lnbgs': p.model.linear_solver = om.LinearBlockGS()
        if lin == 'krylov': p.model.linear_solver = om.ScipyKrylov()
        p.setup(mode=mode); p.run_model()
        J = p.compute_totals(of=['z'], wrt=['x'])
        print(ref, res_ref, mode, lin, J['z', 'x'].ravel(), '(exact 6)')
