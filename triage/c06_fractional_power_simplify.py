"""C06 defect D1: simplify_unit returns a string the library itself rejects when the (accepted)
expression contains an inverse-integer float exponent and a resulting exponent of magnitude >= 2.
PhysicalUnit.__pow__ (float branch) divides _names and _powers with true division, so exponents become
floats (2.0) and PhysicalUnit.name() renders them as 'm**2.0', which __pow__ refuses."""
from openmdao.utils.units import simplify_unit, convert_units, _find_unit, unit_conversion

for e in ['(m**2/s**4)**0.5', '(m**4)**0.5', '(m**6)**(1/3)', '(ft*m**3)**0.5']:
    u = _find_unit(e, error=True)           # accepted by the library
    print('accepted   ', e, '-> factor', u._factor, 'powers', u._powers[:3], 'names', dict(u._names))
    s = simplify_unit(e)
    print('  simplify_unit ->', repr(s))
    try:
        print('  convert 1.0', e, '->', s, '=', convert_units(1.0, e, s))
    except Exception as ex:
        print('  FAIL: simplified expression is rejected:', type(ex).__name__, ex)
