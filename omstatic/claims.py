"""Per-property claim texts used to generate MANIFEST.json (tools/gen_manifest.py)."""

NOTE_COMMON = ('Trusted base: CPython ast, the omstatic engine (CFG with exceptional edges, reaching '
               'definitions, truth tables) and the frozen idiom tables in the rule modules. Callee bodies '
               'not named in the rule are opaque. Decides the structural clauses only.')

CLAIMS = {
    'C01': dict(technique='AST/CFG rules: dominance (zero seeds before solve, linearize before solve), '
                          'save/restore pairing in try/finally, sibling-branch agreement of jacobian scaling',
                text='Decides structural necessary conditions of total-derivative correctness in '
                     'core/total_jac.py and the autoscaler; numerical equality with the exact derivative is '
                     'not decidable statically.'),
    'C02': dict(technique='syntactic adjoint-pair matching of fwd/rev branches (transpose, scatter/gather '
                          'role swap, mode tables)',
                text='Every fwd/rev operator pair in subjacs, transfers, matrices and jacobian _apply is '
                     'checked to be a syntactic adjoint pair; round-off duality is not decided.'),
    'C03': dict(technique='CFG ordering (reconstruction before scaling), once-per-iteration colour '
                          'assignment, role-swapped twin comparison of jac setters',
                text='Decides the ordering/once/twin clauses of colouring reconstruction; properness and '
                     'optimality of the greedy colouring are not decided.'),
    'C04': dict(technique='CFG dominance: transfer before subsystem evaluation in every solver sweep; '
                          'tuple-protocol agreement of unit conversion factors',
                text='Decides that each solver sweep transfers into a subsystem before evaluating it and '
                     'that (factor, offset) tuples are consumed in producer order; index arithmetic not decided.'),
    'C06': dict(technique='predicate/guard equivalence and homomorphism table over PhysicalUnit methods',
                text='Decides that the compatibility predicate equals the conversion guard and that unit '
                     'arithmetic combines (factor, powers) homomorphically; numeric factors not decided.'),
    'C07': dict(technique='mirror matching of convert_get/convert_set argument roles and affine form',
                text='Decides that set/get conversions are mirror images; promotion/index histories not decided.'),
    'C08': dict(technique='mirror matching of scale/unscale contexts, ENCLOSE of user hooks, scaling '
                          'typestate over vector operations, who-may-call table',
                text='Decides the pairing/enclosure/typestate clauses of solver scaling; convergence values not decided.'),
    'C09': dict(technique='abstract-domain truth tables over the extracted loop guard and classification '
                          'chain; CFG once/dominance rules for the counter; who-writes table',
                text='The shared iteration loop is a finite decision structure; it is extracted from the AST '
                     'and decided exhaustively over an abstract domain of the compared quantities (incl. '
                     'NaN/inf, stall, forced iteration). What _iter_get_norm returns is not decided.'),
    'C10': dict(technique='monotonicity (sign) analysis of bound images, exhaustive dispatch, CFG ordering '
                          'of enforce-before-evaluate',
                text='Decides that scaled bounds are order-preserving images for any sign of ref-ref0, that '
                     'every enforcement method is dispatched and applied before the residual is evaluated.'),
    'C11': dict(technique='zero-then-accumulate protocol, lexsort key table, factor-once, cache invalidation',
                text='Decides structural protocol clauses of the assembled matrices; numeric equality of products not decided.'),
    'C12': dict(technique='snapshot/perturb/restore pairing on the CFG, exact rational check of the FD '
                          'coefficient table, step-degree typing',
                text='Decides the side-effect clause and the algebraic table clause; truncation error not decided.'),
    'C13': dict(technique='lazy-init/accumulate control dependence, slot agreement of error tuples',
                text='Decides that every uncovered nonzero of every column is appended and that error slots '
                     'are filled from the pair compared.'),
    'C14': dict(technique='perturb/unperturb mirror in the same loop iteration; exhaustive declaration loops',
                text='Decides the perturbation pairing and declaration coverage; values of partials not decided.'),
    'C15': dict(technique='sign analysis of the out-of-bounds tolerance',
                text='Decides that the bounds tolerance is non-negative for every grid sign; interpolation values not decided.'),
    'C17': dict(technique='SQL schema extraction and writer/reader agreement, exhaustive record_type '
                          'dispatch, option-to-kind gating table',
                text='Decides recorder/reader schema agreement, dispatch exhaustiveness and option gating; '
                     'value equality with the live model not decided.'),
    'C18': dict(technique='transaction-scope analysis: both inserts in one `with connection`, no commit '
                          'between, lastrowid dataflow, who-may-write table',
                text='Given SQLite atomic commit, decides that each case row and its global_iterations row '
                     'are one transaction and that nothing writes case tables outside a transaction.'),
    'C19': dict(technique='no-drop loop analysis and taint of recorded value to set_val',
                text='Decides that no recorded variable is silently dropped by load_case and values reach set_val untransformed.'),
    'C20': dict(technique='inverse-sequence mirror of scaling/unscaling, sibling agreement of bounds and '
                          'jacobian branches, tuple protocols',
                text='Decides that unscaling is the exact inverse op sequence of scaling and that bounds/jacobian '
                     'use the same map; arithmetic of determine_adder_scaler not decided.'),
    'C21': dict(technique='loop-carried rebinding (LOOPDEF) and branch-table coverage of constraint sides',
                text='Decides that per-element constraints read element j of the bounds and that every finite '
                     'bound side is emitted; optimizer behaviour not decided.'),
    'C22': dict(technique='index agreement of elementwise bound arithmetic; def-use effect of scaling on the returned value',
                text='Decides that bounds are indexed like the values and that the returned violation is the scaled distance.'),
    'C23': dict(technique='seed-before-draw dominance, taint of generated values to _set_design_var',
                text='Decides seeding order and faithful application of generated cases; level arithmetic not decided.'),
    'C24': dict(technique='save/restore pairing of relevance contexts, skip-implies-zero sibling loops, truth table of filter',
                text='Decides the context pairing, zeroing of skipped subsystems and the filter truth table; '
                     'correctness of the relevance graph not decided.'),
    'C25': dict(technique='sign-parity comparison of compute vs compute_partials under flag combinations',
                text='Decides that value and derivative apply the same sign flips and conditioning; bracketing inequality not decided.'),
    'C27': dict(technique='GUARD dominance of validation over the store; try/finally pairing in temporary()',
                text='Decides that validation dominates every store and that temporary() restores on the exceptional path.'),
    'C29': dict(technique='partial-operation totality on the float formatting path; writer/reader token table',
                text='Decides that formatting is total on non-finite floats and that the reader grammar accepts the writer tokens with sign.'),
    'C31': dict(technique='effect analysis (receiver classes of mutating calls), snapshot/restore pairing',
                text='Decides that derivative entry points mutate only linear vectors and restore what they save; determinism not decided.'),
    'C33': dict(technique='operator/name table of in-place vector methods; scale round-trip mirror',
                text='Decides that each vector method applies its namesake NumPy operator to the live data.'),
}

NOT_APPLICABLE = {
    'C05': 'index specs x shapes -> flat positions is integer arithmetic on run-time values; no pairing/ordering/table '
           'whose shape implies NumPy-equality (DESIGN 4/C05)',
    'C16': 'equality of returned derivatives with derivatives of returned values is numeric for every method',
    'C26': 'formula/partial correctness of ten components is arithmetic identity between expressions; needs execution or symbolic evaluation (another family)',
    'C28': 'surrogate training/prediction numerics; no structural clause implies interpolation of training data',
    'C30': 'complex-step numerics of cs_safe/jax helpers; correctness is a numeric identity',
    'C32': 'ordering correctness is a property of SCC/topological sort over all graphs; no structural clause implies it',
    'C34': 'AD results of optional jax components; numeric and dependent on jax',
}

UNBUILT_REASON = 'structural clause identified (DESIGN section 4) but the checker is not built; not claimed'

# rule modules that exist but are not claimed yet (work in progress / waiting for a fix commit)
PENDING = set()
