"""Boolean formulas over AST atoms; equivalence/implication by truth-table enumeration."""
import ast
import itertools

from . import astx
from .core import AnalysisError


class F:
    """Formula: ('atom', key) | ('not', f) | ('and', [f..]) | ('or', [f..]) | ('const', bool)."""

    def __init__(self, op, *args):
        self.op = op
        self.args = args

    def atoms(self):
        if self.op == 'atom':
            return {self.args[0]}
        if self.op == 'const':
            return set()
        out = set()
        for a in (self.args[0] if self.op in ('and', 'or') else self.args):
            out |= a.atoms()
        return out

    def ev(self, val):
        if self.op == 'atom':
            return val[self.args[0]]
        if self.op == 'const':
            return self.args[0]
        if self.op == 'not':
            return not self.args[0].ev(val)
        if self.op == 'and':
            return all(a.ev(val) for a in self.args[0])
        if self.op == 'or':
            return any(a.ev(val) for a in self.args[0])
        raise AssertionError(self.op)

    def __repr__(self):
        if self.op == 'atom':
            return str(self.args[0])
        if self.op == 'const':
            return str(self.args[0])
        if self.op == 'not':
            return f'~{self.args[0]!r}'
        j = ' & ' if self.op == 'and' else ' | '
        return '(' + j.join(repr(a) for a in self.args[0]) + ')'


def A(k):
    return F('atom', k)


def Not(f):
    return F('not', f)


def And(*fs):
    return F('and', list(fs))


def Or(*fs):
    return F('or', list(fs))


TRUE = F('const', True)
FALSE = F('const', False)


def from_ast(expr, atom_of):
    """Build a formula from a condition AST.  ``atom_of(node) -> key`` names atoms.

    ``atom_of`` may return a tuple ('not', key) to denote a negated atom, or a formula F.
    Chained comparisons a < b < c are split into conjunctions.
    """
    if isinstance(expr, ast.BoolOp):
        parts = [from_ast(v, atom_of) for v in expr.values]
        return And(*parts) if isinstance(expr.op, ast.And) else Or(*parts)
    if isinstance(expr, ast.UnaryOp) and isinstance(expr.op, ast.Not):
        return Not(from_ast(expr.operand, atom_of))
    if isinstance(expr, ast.Constant) and isinstance(expr.value, bool):
        return TRUE if expr.value else FALSE
    if isinstance(expr, ast.Compare) and len(expr.ops) > 1:
        parts = []
        left = expr.left
        for op, right in zip(expr.ops, expr.comparators):
            parts.append(from_ast(ast.Compare(left=left, ops=[op], comparators=[right]), atom_of))
            left = right
        return And(*parts)
    k = atom_of(expr)
    if isinstance(k, F):
        return k
    if isinstance(k, tuple) and len(k) == 2 and k[0] == 'not':
        return Not(A(k[1]))
    if k is None:
        raise AnalysisError(f'unrecognised condition atom: {astx.src(expr)}')
    return A(k)


def valuations(atoms, constraint=None):
    atoms = sorted(atoms)
    if len(atoms) > 14:
        raise AnalysisError('too many atoms for truth table')
    for bits in itertools.product((False, True), repeat=len(atoms)):
        v = dict(zip(atoms, bits))
        if constraint is None or constraint(v):
            yield v


def equivalent(f, g, constraint=None, extra_atoms=()):
    """Return (True, n_rows, None) or (False, n_rows, counterexample valuation)."""
    atoms = f.atoms() | g.atoms() | set(extra_atoms)
    n = 0
    for v in valuations(atoms, constraint):
        n += 1
        if bool(f.ev(v)) != bool(g.ev(v)):
            return False, n, v
    return True, n, None


def implies(f, g, constraint=None, extra_atoms=()):
    atoms = f.atoms() | g.atoms() | set(extra_atoms)
    n = 0
    for v in valuations(atoms, constraint):
        n += 1
        if f.ev(v) and not g.ev(v):
            return False, n, v
    return True, n, None


def fmt_val(v):
    return ', '.join(f'{k}={"T" if b else "F"}' for k, b in sorted(v.items()))
