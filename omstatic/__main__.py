"""CLI: /venv/bin/python -m omstatic C09 --tier quick|thorough   (exit 0 ok / 1 violation / 2 cannot decide)."""
import argparse
import json
import os
import sys
import traceback


def main(argv=None):
    ap = argparse.ArgumentParser(prog='omstatic')
    ap.add_argument('prop', nargs='?')
    ap.add_argument('--tier', default=os.environ.get('VERIF_TIER', 'quick'), choices=['quick', 'thorough'])
    ap.add_argument('--replay', help='print the violations stored in a replay file and re-run their rules')
    ap.add_argument('--list', action='store_true')
    ap.add_argument('--no-write', action='store_true')
    ap.add_argument('--strict-selftest', action='store_true',
                    help='a self-test failure (mutant not reported / twin not silent) makes the run exit 2')
    args = ap.parse_args(argv)
    try:
        seed = int(os.environ.get('VERIF_SEED', '0'))
    except ValueError:
        seed = 0
    from . import engine
    try:
        if args.list:
            engine.load_rules()
            for p in sorted(engine.REGISTRY):
                for s in engine.REGISTRY[p]:
                    print(f'{s.id:28s} floor={s.floor} tier={s.tier}  {s.doc.splitlines()[0] if s.doc else ""}')
            return 0
        if args.replay:
            with open(args.replay) as f:
                data = json.load(f)
            for it in data.get('violations', []):
                print(f"{it['rule']} {it['file']}:{it['line']} {it['func']}: {it['text']}\n   why: {it['why']}")
            return engine.check_property(data['property'], 'quick', seed, write=False)
        if not args.prop:
            ap.error('property id required')
        return engine.check_property(args.prop, args.tier, seed, write=not args.no_write,
                                     strict_selftest=args.strict_selftest or
                                     os.environ.get('OMSTATIC_STRICT_SELFTEST') == '1')
    except Exception as e:  # never let a traceback look like a violation
        traceback.print_exc()
        print(f'ANALYSIS-ERROR property={args.prop} checker crashed: {type(e).__name__}: {e}')
        return 2


if __name__ == '__main__':
    sys.exit(main())
