"""Rule registry, verdict collection, findings file, evidence writer, self-test driver."""
import ast
import importlib
import json
import os
import sys
import time
import traceback
from concurrent.futures import ProcessPoolExecutor

from . import astx
from .core import Repo, AnalysisError, Func

VERIF = os.path.dirname(os.path.dirname(os.path.abspath(__file__)))
EVIDENCE_DIR = os.path.join(VERIF, 'evidence')
FINDINGS_FILE = os.path.join(VERIF, 'known_findings.json')

REGISTRY = {}   # property id -> [RuleSpec]
SELFTEST = {}   # property id -> {'mutants': [...], 'twins': [...]}
INFO = {}       # property id -> dict(explanation=..., assumptions=[...])


class RuleSpec:
    def __init__(self, rid, fn, floor, tier, doc):
        self.id = rid
        self.fn = fn
        self.floor = floor
        self.tier = tier
        self.doc = doc
        self.prop = rid.split('.')[0]


def rule(rid, floor=1, tier='quick'):
    """Register a rule.  floor = minimum number of recognised instances on a healthy tree."""
    def deco(fn):
        spec = RuleSpec(rid, fn, floor, tier, (fn.__doc__ or '').strip())
        REGISTRY.setdefault(spec.prop, []).append(spec)
        return fn
    return deco


def describe(prop, explanation, assumptions=()):
    INFO[prop] = dict(explanation=explanation, assumptions=list(assumptions))


class Mutant:
    """A seeded variant of the source used to test the checker (thorough tier, in memory)."""

    def __init__(self, name, rel, old, new, expect, nth=0, also=()):
        self.name, self.rel, self.old, self.new, self.expect, self.nth = name, rel, old, new, expect, nth
        self.also = also  # further (rel, old, new) edits applied together

    kind = 'mutant'


class Twin(Mutant):
    """A behaviour-preserving rewrite that must stay silent."""

    def __init__(self, name, rel, old, new, nth=0, also=()):
        super().__init__(name, rel, old, new, None, nth, also)

    kind = 'twin'


def selftest(prop, *items):
    SELFTEST.setdefault(prop, []).extend(items)


class Out:
    """Collector handed to each rule."""

    def __init__(self, spec, repo):
        self.spec = spec
        self.repo = repo
        self.items = []
        self.counts = {}
        self.notes = []

    def _where(self, where, node):
        rel = qn = ''
        if isinstance(where, Func):
            rel, qn = where.rel, where.qualname
        elif isinstance(where, tuple):
            rel, qn = where
        elif isinstance(where, str):
            rel = where
        line = getattr(node, 'lineno', 0) if node is not None and not isinstance(node, (str, int)) else \
            (node if isinstance(node, int) else 0)
        text = astx.src(node) if isinstance(node, ast.AST) else (node if isinstance(node, str) else '')
        return rel, qn, line, text

    def _add(self, status, where, node, why, key=None):
        rel, qn, line, text = self._where(where, node)
        self.items.append(dict(rule=self.spec.id, status=status, file=rel, func=qn, line=line,
                               construct=key or text, text=text, why=why))

    def ok(self, where, node, why=''):
        self._add('ok', where, node, why)

    def bad(self, where, node, why, key=None):
        self._add('violation', where, node, why, key)

    def unsure(self, where, node, why):
        self._add('undecided', where, node, why)

    def count(self, name, n=1):
        self.counts[name] = self.counts.get(name, 0) + n

    def note(self, msg):
        self.notes.append(msg)


LOAD_ERRORS = {}
_LOADED = False


def load_rules(only=None):
    """Import rules/Cxx.py (all of them, or just the module of one property).

    A module that fails to import only disables its own property.
    """
    global _LOADED
    pkg = os.path.join(os.path.dirname(os.path.abspath(__file__)), 'rules')
    if only is not None:
        names = [only] if os.path.isfile(os.path.join(pkg, only + '.py')) else []
    else:
        if _LOADED:
            return
        _LOADED = True
        names = [fn[:-3] for fn in sorted(os.listdir(pkg)) if fn.endswith('.py') and not fn.startswith('_')]
    for nm in names:
        if nm in LOAD_ERRORS or f'omstatic.rules.{nm}' in sys.modules:
            continue
        try:
            importlib.import_module(f'omstatic.rules.{nm}')
        except Exception as e:
            LOAD_ERRORS[nm] = f'{type(e).__name__}: {e}'
            REGISTRY.pop(nm, None)


def run_rules(prop, repo, tier='quick', only=None):
    """Run all rules of a property; returns list of per-rule dicts."""
    out = []
    for spec in REGISTRY.get(prop, []):
        if spec.tier == 'thorough' and tier != 'thorough':
            continue
        if only and spec.id not in only:
            continue
        o = Out(spec, repo)
        err = None
        t0 = time.time()
        try:
            spec.fn(repo, o)
        except AnalysisError as e:
            err = f'cannot decide: {e}'
        except RecursionError as e:  # pragma: no cover
            err = f'recursion: {e}'
        except Exception as e:  # a bug in the checker is an analysis error, never a violation
            tb = traceback.format_exc().strip().splitlines()
            err = f'checker exception {type(e).__name__}: {e} [{tb[-3].strip() if len(tb) > 2 else ""}]'
        n_inst = sum(1 for i in o.items if i['status'] in ('ok', 'violation'))
        if err is None and n_inst < spec.floor:
            err = (f'only {n_inst} instance(s) recognised, expected at least {spec.floor} '
                   f'(anchor moved or idiom not recognised)')
        out.append(dict(rule=spec.id, doc=spec.doc, items=o.items, counts=o.counts, notes=o.notes,
                        error=err, wall=time.time() - t0, floor=spec.floor))
    return out


# ------------------------------------------------------------------ findings
def load_findings():
    if not os.path.isfile(FINDINGS_FILE):
        return []
    with open(FINDINGS_FILE) as f:
        return json.load(f).get('findings', [])


def finding_key(prop, item):
    return (prop, item['rule'], f"{item['file']}:{item['func']}", item['construct'])


def match_known(prop, item, findings):
    k = finding_key(prop, item)
    for fd in findings:
        if fd.get('status') != 'known':
            continue
        if (fd['property'], fd['rule'], fd['where'], fd['construct']) == k:
            return fd
    return None


# ------------------------------------------------------------------ self-test
def _apply(src, old, new, nth, name):
    cnt = src.count(old)
    if cnt == 0:
        return None
    if nth == 'all':
        return src.replace(old, new)
    idx = -1
    for _ in range(nth + 1):
        idx = src.find(old, idx + 1)
        if idx < 0:
            return None
    return src[:idx] + new + src[idx + len(old):]


_BASE = None


def _selftest_job(args):
    prop, i = args
    load_rules(prop)
    m = SELFTEST[prop][i]
    base = _BASE or Repo()
    overrides = {}
    for rel, old, new, nth in [(m.rel, m.old, m.new, m.nth)] + [tuple(a) + (0,) * (4 - len(a)) for a in m.also]:
        try:
            s = overrides.get(rel) or base.source(rel)
        except AnalysisError:
            return dict(name=m.name, kind=m.kind, result='inapplicable', detail=f'{rel} missing')
        s2 = _apply(s, old, new, nth, m.name)
        if s2 is None:
            return dict(name=m.name, kind=m.kind, result='inapplicable', detail='pattern not found')
        overrides[rel] = s2
    for rel, s in overrides.items():
        try:
            compile(s, rel, 'exec')
        except SyntaxError as e:
            return dict(name=m.name, kind=m.kind, result='broken', detail=f'does not compile: {e}')
    repo = Repo(overrides=overrides, base=base)
    only = None
    if m.kind == 'mutant' and m.expect:
        only = [m.expect] if isinstance(m.expect, str) else list(m.expect)
    # a mutant may name a thorough-tier rule; twins are judged by the quick-tier rules
    res = run_rules(prop, repo, 'thorough' if only else 'quick', only=only)
    viol = [(r['rule'], it) for r in res for it in r['items'] if it['status'] == 'violation']
    errs = [(r['rule'], r['error']) for r in res if r['error']]
    und = [(r['rule'], it) for r in res for it in r['items'] if it['status'] == 'undecided']
    return dict(name=m.name, kind=m.kind, expect=m.expect,
                viol=[(r, it['file'], it['func'], it['line'], it['text'][:100], it['why'][:200], it['construct']) for r, it in viol],
                errs=errs, und=[(r, it['why'][:100]) for r, it in und], result='ran')


def run_selftest(prop, base_items, findings, jobs=16, base_repo=None):
    """Run mutants and twins of a property. base_items: violations on the unmutated tree."""
    items = SELFTEST.get(prop, [])
    if not items:
        return dict(mutants=0, killed=0, twins=0, silent=0, inapplicable=0, failures=[], samples=[])
    base_viol = {(it['rule'], it['file'], it['func'], it['construct']) for it in base_items}
    global _BASE
    _BASE = base_repo   # parsed modules are shared with the mutated Repo, not re-parsed
    import signal

    def _alarm(signum, frame):
        raise TimeoutError('self-test job exceeded its time limit')
    results = []
    old = signal.signal(signal.SIGALRM, _alarm)
    try:
        for i in range(len(items)):
            signal.alarm(int(os.environ.get('OMSTATIC_SELFTEST_TIMEOUT', '600')))
            try:
                results.append(_selftest_job((prop, i)))
            except Exception as e:  # timeout or crash inside a job
                results.append(dict(name=items[i].name, kind=items[i].kind, result='broken',
                                    detail=f'self-test job failed: {type(e).__name__}: {e}'))
            finally:
                signal.alarm(0)
    finally:
        signal.signal(signal.SIGALRM, old)
    summary = dict(mutants=0, killed=0, twins=0, silent=0, inapplicable=0, failures=[], samples=[])
    for r in results:
        if r['result'] == 'inapplicable':
            summary['inapplicable'] += 1
            summary['samples'].append(dict(name=r['name'], kind=r['kind'], result='inapplicable'))
            continue
        if r['result'] == 'broken':
            summary['failures'].append(f"{r['kind']} {r['name']}: {r['detail']}")
            continue
        new_viol = [v for v in r['viol'] if (v[0], v[1], v[2], v[6]) not in base_viol]
        if r['kind'] == 'mutant':
            summary['mutants'] += 1
            exp = r['expect']
            hit = [v for v in new_viol if exp is None or v[0] == exp or (isinstance(exp, (list, tuple)) and v[0] in exp)]
            if hit:
                summary['killed'] += 1
                summary['samples'].append(dict(name=r['name'], kind='mutant', result='killed',
                                               by=hit[0][0], at=f'{hit[0][1]}:{hit[0][2]}:{hit[0][3]}',
                                               why=hit[0][5]))
            else:
                summary['failures'].append(
                    f"mutant {r['name']} not reported by {exp} (violations={[v[0] for v in new_viol]}, "
                    f"errors={r['errs']}, undecided={r['und']})")
        else:
            summary['twins'] += 1
            if not new_viol and not r['errs'] and not r['und']:
                summary['silent'] += 1
                summary['samples'].append(dict(name=r['name'], kind='twin', result='silent'))
            else:
                summary['failures'].append(
                    f"twin {r['name']} not silent: violations={[(v[0], v[4], v[5]) for v in new_viol]} "
                    f"errors={r['errs']} undecided={r['und']}")
    return summary


# ------------------------------------------------------------------ top level
def check_property(prop, tier='quick', seed=0, write=True, strict_selftest=False):
    t0 = time.time()
    load_rules(prop)
    if prop in LOAD_ERRORS:
        print(f'ANALYSIS-ERROR property={prop} rule module failed to import: {LOAD_ERRORS[prop]}')
        return 2
    if prop not in REGISTRY:
        print(f'ANALYSIS-ERROR property={prop} no rules registered')
        return 2
    repo = Repo()
    findings = load_findings()
    res = run_rules(prop, repo, tier)

    violations, known, errors = [], [], []
    n_ok = n_inst = 0
    for r in res:
        nv = sum(1 for it in r['items'] if it['status'] == 'violation')
        nu = sum(1 for it in r['items'] if it['status'] == 'undecided')
        no = sum(1 for it in r['items'] if it['status'] == 'ok')
        n_ok += no
        n_inst += no + nv + nu
        verdict = 'pass'
        if r['error']:
            verdict = 'analysis-error'
        elif nv:
            verdict = 'violation'
        elif nu:
            verdict = 'undecided'
        print(f"RULE {r['rule']} instances={no + nv + nu} ok={no} verdict={verdict}")
        if r['error']:
            errors.append(f"{r['rule']}: {r['error']}")
        for it in r['items']:
            if it['status'] == 'violation':
                fd = match_known(prop, it, findings)
                (known if fd else violations).append((it, fd))
            elif it['status'] == 'undecided':
                errors.append(f"{it['rule']}: undecided at {it['file']}:{it['line']} {it['func']}: "
                              f"{it['text'][:100]} -- {it['why']}")

    st = None
    if tier == 'thorough' and os.environ.get('OMSTATIC_SKIP_SELFTEST') != '1':
        base_items = [it for r in res for it in r['items'] if it['status'] == 'violation']
        st = run_selftest(prop, base_items, findings, base_repo=repo)
        print(f"SELFTEST {prop} mutants={st['mutants']} killed={st['killed']} twins={st['twins']} "
              f"silent={st['silent']} inapplicable={st['inapplicable']}")
        # The self-test examines the checker, not the repository: a mutant that is not reported or a twin
        # that is not silent (or a job that ran out of time on a loaded machine) says nothing about whether
        # the property holds on this tree, so it never changes the verdict.  It is printed, recorded in the
        # evidence, and turned into an analysis error only under --strict-selftest (used before committing).
        for f in st['failures']:
            if strict_selftest:
                errors.append(f'selftest: {f}')
            else:
                print(f'SELFTEST-FAIL property={prop} {f[:600]}')

    for it, fd in known:
        print(f"KNOWN-FINDING: property={prop} rule={it['rule']} {it['file']}:{it['line']} {it['func']}: "
              f"{it['text'][:120]} -- {fd.get('what', it['why'])}")
    replay = os.path.join(EVIDENCE_DIR, f'{prop}.violation.json')
    if violations:
        for it, _ in violations:
            print(f"  violation rule={it['rule']} {it['file']}:{it['line']} in {it['func']}: "
                  f"{it['text'][:140]}\n    why: {it['why']}")
    for e in errors:
        print(f'ANALYSIS-ERROR property={prop} {e}')

    wall = time.time() - t0
    if write:
        os.makedirs(EVIDENCE_DIR, exist_ok=True)
        write_evidence(prop, tier, seed, repo, res, violations, known, errors, st, wall)
        if violations:
            with open(replay, 'w') as f:
                json.dump(dict(property=prop, violations=[it for it, _ in violations]), f, indent=1)
        elif os.path.exists(replay):
            os.remove(replay)
    if violations:
        print(f'VIOLATION property={prop} replay={replay}')
        return 1
    if errors:
        return 2
    print(f'OK property={prop} tier={tier} rules={len(res)} instances={n_inst} wall={wall:.2f}s')
    return 0


def write_evidence(prop, tier, seed, repo, res, violations, known, errors, st, wall):
    info = INFO.get(prop, {})
    samples = []
    distinct = set()
    obligations = discharged = 0
    evaluations = 0
    per_rule = []
    for r in res:
        no = sum(1 for it in r['items'] if it['status'] == 'ok')
        nall = len(r['items'])
        obligations += nall
        discharged += no
        evaluations += nall + sum(r['counts'].values())
        per_rule.append(dict(rule=r['rule'], what=r['doc'][:300], instances=nall, ok=no, floor=r['floor'],
                             counts=r['counts'], error=r['error'], wall_s=round(r['wall'], 3)))
        for it in r['items']:
            distinct.add((it['rule'], it['file'], it['func'], it['construct']))
        for it in r['items'][:4]:
            samples.append(dict(rule=it['rule'], at=f"{it['file']}:{it['line']}", func=it['func'],
                                construct=it['text'][:140], verdict=it['status'], detail=it['why'][:240]))
    cov = dict(
        explanation=info.get('explanation', '') or f'static rules for {prop}',
        rule=('each obligation is one rule instance: a construct of /repo (function, statement, call '
              'site, branch, truth-table formula) matched by a rule and decided ok/violation; distinct = '
              'distinct (rule, file, function, construct) tuples'),
        obligations=obligations, discharged=discharged,
        evaluations=max(evaluations, 1), distinct_nontrivial=len(distinct),
        samples=samples[:60], rules=per_rule,
        modules_analysed=sorted(repo.consulted), source_digest=repo.digest(),
        known_findings=[dict(rule=it['rule'], at=f"{it['file']}:{it['func']}", construct=it['construct'])
                        for it, _ in known],
        analysis_errors=errors[:20],
        exhaustive=False,
        checker_cmd=f'/venv/bin/python -m omstatic {prop} --tier {tier}',
        trusted_base=['CPython ast module', 'omstatic engine (CFG, reaching definitions, truth tables)',
                      'frozen idiom tables listed in DESIGN.md'],
    )
    if st is not None:
        cov['programs'] = st['mutants'] + st['twins']
        cov['disagreements_checked'] = st['killed'] + st['silent']
        cov['selftest'] = dict(mutants=st['mutants'], killed=st['killed'], twins=st['twins'],
                               silent=st['silent'], inapplicable=st['inapplicable'],
                               failures=st['failures'], samples=st['samples'][:80])
    ev = dict(property_id=prop, tier=tier, seed=int(seed), level='other', coverage=cov,
              assumptions=info.get('assumptions', []) + [
                  'decides the structural clauses named in coverage.rules, not the numerical behaviour'],
              wall_s=round(wall, 3), violations=len(violations))
    with open(os.path.join(EVIDENCE_DIR, f'{prop}.json'), 'w') as f:
        json.dump(ev, f, indent=1, default=str)
