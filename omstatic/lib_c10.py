"""Bounded evaluator for C10: interprets extracted array formulas of /repo over exact rationals.

Nothing of OpenMDAO or numpy is imported or executed by CPython: the AST of the analysed function is
walked by this evaluator with its own small model of numbers (Fraction / +-inf / nan), n-d arrays with
views and numpy broadcasting (Arr), OpenMDAO vectors (Vec) and attribute bags (Obj).  Three outcomes:
a value, `Unknown` (construct outside the recognised fragment -> cannot decide) and `PyExc` (the
analysed code would raise: modelled exceptions only).
"""
import ast
from fractions import Fraction

from . import astx

INF = float('inf')
NAN = float('nan')


class Unknown(Exception):
    """The evaluator does not model this construct (never a violation)."""

    def __init__(self, node, why):
        super().__init__(why)
        self.node, self.why = node, why


class PyExc(Exception):
    """The analysed code raises an exception (modelled faithfully)."""

    def __init__(self, tname, msg='', node=None):
        super().__init__(f'{tname}: {msg}')
        self.tname, self.msg, self.node = tname, msg, node


class _Ret(Exception):
    def __init__(self, v):
        self.v = v


class _Brk(Exception):
    pass


class _Cont(Exception):
    pass


_EXC_PARENTS = {'KeyError': 'LookupError', 'IndexError': 'LookupError', 'LookupError': 'Exception',
                'ZeroDivisionError': 'ArithmeticError', 'FloatingPointError': 'ArithmeticError',
                'OverflowError': 'ArithmeticError', 'ArithmeticError': 'Exception',
                'ValueError': 'Exception', 'TypeError': 'Exception', 'AttributeError': 'Exception',
                'RuntimeError': 'Exception', 'NotImplementedError': 'RuntimeError',
                'AnalysisError': 'Exception', 'StopIteration': 'Exception', 'Exception': 'BaseException',
                'AssertionError': 'Exception', 'NameError': 'Exception'}


def exc_isa(tname, cls):
    seen = 0
    while tname is not None and seen < 10:
        if tname == cls:
            return True
        tname = _EXC_PARENTS.get(tname, 'Exception' if tname not in ('Exception', 'BaseException') else
                                 ('BaseException' if tname == 'Exception' else None))
        seen += 1
    return False


# ------------------------------------------------------------------------------------ numbers
def isnum(x):
    return isinstance(x, (bool, int, Fraction, float))


def num(x):
    """Normalise a python number: finite floats become exact Fractions."""
    if isinstance(x, float):
        if x != x or x in (INF, -INF):
            return x
        return Fraction(x)
    return x


def _nonfinite(x):
    return isinstance(x, float)


def s_bin(op, a, b, node=None):
    """Scalar binary arithmetic with numpy float semantics (x/0 -> inf/nan)."""
    if a is None or b is None:
        raise PyExc('TypeError', f'unsupported operand type(s) for {op}: NoneType', node)
    if isinstance(a, str) and isinstance(b, str) and op == '+':
        return a + b
    if isinstance(a, str) and op == '%':
        return '<str>'
    if isinstance(a, (tuple, list)) and isinstance(b, type(a)) and op == '+':
        return a + b
    if not (isnum(a) and isnum(b)):
        raise Unknown(node, f'arithmetic {op} on {type(a).__name__}/{type(b).__name__}')
    if op in ('&', '|', '^'):
        if isinstance(a, bool) and isinstance(b, bool):
            return {'&': a and b, '|': a or b, '^': a != b}[op]
        if isinstance(a, int) and isinstance(b, int):
            return {'&': a & b, '|': a | b, '^': a ^ b}[op]
        raise PyExc('TypeError', f'unsupported operand for {op}', node)
    if _nonfinite(a) or _nonfinite(b):
        fa, fb = float(a), float(b)
        try:
            if op == '+':
                return fa + fb
            if op == '-':
                return fa - fb
            if op == '*':
                return num(fa * fb)
            if op == '/':
                if fb == 0:
                    return NAN if fa != fa else (INF if fa > 0 else -INF)
                return num(fa / fb)
            if op == '**':
                return num(fa ** fb)
        except (OverflowError, ZeroDivisionError):
            return NAN
        raise Unknown(node, f'operator {op} on non-finite numbers')
    if op == '+':
        return a + b
    if op == '-':
        return a - b
    if op == '*':
        return a * b
    if op == '/':
        if b == 0:
            return NAN if a == 0 else (INF if a > 0 else -INF)
        return Fraction(a) / Fraction(b)
    if op == '//':
        if b == 0:
            raise PyExc('ZeroDivisionError', 'integer division by zero', node)
        return a // b
    if op == '%':
        if b == 0:
            raise PyExc('ZeroDivisionError', 'modulo by zero', node)
        return a % b
    if op == '**':
        try:
            if isinstance(b, int) or (isinstance(b, Fraction) and b.denominator == 1):
                if a == 0 and b < 0:
                    return INF
                return Fraction(a) ** int(b)
            return num(float(a) ** float(b))
        except (OverflowError, ZeroDivisionError, ValueError):
            return NAN
    raise Unknown(node, f'operator {op}')


def s_cmp(op, a, b, node=None):
    if op == 'is':
        return a is b or (isnum(a) and isnum(b) and type(a) is type(b) and a == b and isinstance(a, (bool, int)))
    if op == 'is not':
        return not s_cmp('is', a, b, node)
    if op in ('==', '!='):
        if isinstance(a, (tuple, list)) and isinstance(b, (tuple, list)):
            if type(a) is not type(b):
                r = False
            elif len(a) != len(b):
                r = False
            else:
                r = all(truth(v_cmp('==', x, y, node), node) for x, y in zip(a, b))
            return r if op == '==' else not r
        try:
            r = (a == b)
        except Exception:
            r = False
        if isinstance(a, float) and a != a or isinstance(b, float) and b != b:
            r = False
        return bool(r) if op == '==' else not bool(r)
    if a is None or b is None:
        raise PyExc('TypeError', f"'{op}' not supported between NoneType and number", node)
    if isinstance(a, str) and isinstance(b, str):
        pass
    elif not (isnum(a) and isnum(b)):
        raise Unknown(node, f'comparison {op} on {type(a).__name__}/{type(b).__name__}')
    if op == '<':
        return a < b
    if op == '<=':
        return a <= b
    if op == '>':
        return a > b
    if op == '>=':
        return a >= b
    raise Unknown(node, f'comparison {op}')


# ------------------------------------------------------------------------------------ arrays
def _prod(shape):
    p = 1
    for d in shape:
        p *= d
    return p


def bshape(s1, s2, node=None):
    n = max(len(s1), len(s2))
    out = []
    for i in range(1, n + 1):
        d1 = s1[-i] if i <= len(s1) else 1
        d2 = s2[-i] if i <= len(s2) else 1
        if d1 == d2:
            out.append(d1)
        elif d1 == 1:
            out.append(d2)
        elif d2 == 1:
            out.append(d1)
        else:
            raise PyExc('ValueError', f'operands could not be broadcast together with shapes {s1} {s2}', node)
    return tuple(reversed(out))


def bidx(shape, out):
    """For every flat position of `out`, the flat position in an array of `shape` broadcast to it."""
    if shape == out:
        return list(range(_prod(out)))
    pad = (1,) * (len(out) - len(shape)) + tuple(shape)
    strides = []
    s = 1
    for d in reversed(pad):
        strides.append(0 if d == 1 else s)
        s *= d
    strides = list(reversed(strides))
    res = []
    n = _prod(out)
    for flat in range(n):
        rem = flat
        pos = 0
        for k in range(len(out) - 1, -1, -1):
            d = out[k]
            c = rem % d if d else 0
            rem = rem // d if d else 0
            pos += c * strides[k]
        res.append(pos)
    return res


class Arr:
    """n-d array (row-major) as a view (base list + positions)."""

    __slots__ = ('base', 'idx', 'shape')

    def __init__(self, base, idx, shape):
        self.base, self.idx, self.shape = base, idx, tuple(shape)

    @classmethod
    def of(cls, vals, shape=None):
        vals = list(vals)
        return cls(vals, list(range(len(vals))), (len(vals),) if shape is None else shape)

    @classmethod
    def scalar(cls, v):
        return cls([v], [0], ())

    @property
    def size(self):
        return len(self.idx)

    def vals(self):
        b = self.base
        return [b[i] for i in self.idx]

    def setvals(self, vals):
        b = self.base
        for i, v in zip(self.idx, vals):
            b[i] = v

    def copy(self):
        return Arr.of(self.vals(), self.shape)

    def item(self):
        return self.base[self.idx[0]]

    def __repr__(self):
        return f'Arr{self.shape}{self.vals()}'


def unwrap(x):
    """0-d array -> python scalar."""
    if isinstance(x, Arr) and x.shape == ():
        return x.item()
    return x


def as_arr(x, node=None):
    if isinstance(x, Arr):
        return x
    if isinstance(x, Vec):
        raise Unknown(node, 'Vector used where an array is expected')
    if isnum(x) or x is None:
        return Arr.scalar(x)
    if isinstance(x, (list, tuple)):
        flat, shape = _flatten_seq(x, node)
        return Arr.of(flat, shape)
    raise Unknown(node, f'cannot view {type(x).__name__} as array')


def _flatten_seq(x, node):
    if not isinstance(x, (list, tuple)):
        return [unwrap(x)], ()
    subs = [_flatten_seq(e, node) for e in x]
    if not subs:
        return [], (0,)
    sh = subs[0][1]
    if any(s[1] != sh for s in subs):
        raise Unknown(node, 'ragged sequence')
    flat = []
    for f, _ in subs:
        flat.extend(f)
    return flat, (len(subs),) + tuple(sh)


def ew(fn, operands, node=None):
    """Elementwise application with numpy broadcasting; python scalars only -> python scalar."""
    if not any(isinstance(o, Arr) for o in operands):
        return fn(*operands)
    arrs = [as_arr(o, node) for o in operands]
    out = ()
    for a in arrs:
        out = bshape(out, a.shape, node)
    maps = [bidx(a.shape, out) for a in arrs]
    vs = [a.vals() for a in arrs]
    n = _prod(out)
    res = [fn(*[vs[k][maps[k][i]] for k in range(len(arrs))]) for i in range(n)]
    return Arr.of(res, out)


def v_bin(op, a, b, node=None):
    if isinstance(a, Arr) or isinstance(b, Arr):
        return ew(lambda x, y: s_bin(op, x, y, node), [a, b], node)
    return s_bin(op, a, b, node)


def v_cmp(op, a, b, node=None):
    if op in ('is', 'is not'):
        return s_cmp(op, a, b, node)
    if isinstance(a, Arr) or isinstance(b, Arr):
        if (a is None or b is None) and op in ('==', '!='):
            return op == '!='
        return ew(lambda x, y: s_cmp(op, x, y, node), [a, b], node)
    return s_cmp(op, a, b, node)


def truth(x, node=None):
    if isinstance(x, Arr):
        if x.size == 1:
            return truth(x.item(), node)
        if x.size == 0:
            return False
        raise PyExc('ValueError', 'The truth value of an array with more than one element is ambiguous', node)
    if x is None:
        return False
    if isinstance(x, float):
        return x != 0
    if isnum(x):
        return bool(x)
    if isinstance(x, (str, list, tuple, dict, set, frozenset)):
        return len(x) > 0
    if isinstance(x, Vec):
        return len(x.data.idx) > 0
    if isinstance(x, (Obj, Native)):
        return True
    raise Unknown(node, f'truth value of {type(x).__name__}')


def _as_index(i, node):
    i = unwrap(i)
    if isinstance(i, bool):
        return int(i)
    if isinstance(i, int):
        return i
    if isinstance(i, Fraction) and i.denominator == 1:
        return int(i)
    raise PyExc('TypeError', f'index must be an integer, got {i!r}', node)


def arr_select(a, key, node=None):
    """Positions (into a.idx) and result shape selected by a numpy index; view=True if basic indexing."""
    if key is Ellipsis or (isinstance(key, tuple) and len(key) == 0):
        return list(range(a.size)), a.shape, True
    if isinstance(key, slice):
        if not a.shape:
            raise PyExc('IndexError', 'too many indices for array', node)
        lo = None if key.start is None else _as_index(key.start, node)
        hi = None if key.stop is None else _as_index(key.stop, node)
        st = None if key.step is None else _as_index(key.step, node)
        rows = list(range(a.shape[0]))[slice(lo, hi, st)]
        inner = _prod(a.shape[1:])
        pos = [r * inner + k for r in rows for k in range(inner)]
        return pos, (len(rows),) + a.shape[1:], True
    if isinstance(key, Arr) and key.shape != () and key.size and all(isinstance(v, bool) for v in key.vals()):
        if key.shape != a.shape:
            if key.size != a.size or len(key.shape) != len(a.shape):
                raise PyExc('IndexError', f'boolean index did not match indexed array: {key.shape} vs {a.shape}', node)
        pos = [i for i, m in enumerate(key.vals()) if m]
        return pos, (len(pos),), False
    if isinstance(key, Arr) and key.shape != ():
        if key.size == 0:
            return [], (0,) + a.shape[1:], False
        if not a.shape:
            raise PyExc('IndexError', 'too many indices for array', node)
        inner = _prod(a.shape[1:])
        pos = []
        for v in key.vals():
            r = _as_index(v, node)
            if r < 0:
                r += a.shape[0]
            if not 0 <= r < a.shape[0]:
                raise PyExc('IndexError', 'index out of bounds', node)
            pos.extend(r * inner + k for k in range(inner))
        return pos, key.shape + a.shape[1:], False
    if isinstance(key, (list,)):
        return arr_select(a, as_arr(key, node), node)
    if isinstance(key, tuple):
        raise Unknown(node, 'tuple index on array')
    r = _as_index(key, node)
    if not a.shape:
        raise PyExc('IndexError', 'too many indices for array', node)
    if r < 0:
        r += a.shape[0]
    if not 0 <= r < a.shape[0]:
        raise PyExc('IndexError', f'index {r} is out of bounds for axis 0 with size {a.shape[0]}', node)
    inner = _prod(a.shape[1:])
    return [r * inner + k for k in range(inner)], a.shape[1:], True


def arr_get(a, key, node=None):
    pos, shape, view = arr_select(a, key, node)
    sub = Arr(a.base, [a.idx[p] for p in pos], shape)
    if shape == () and not (key is Ellipsis or key == ()):
        return Arr.scalar(sub.item())
    return sub if view else sub.copy()


def arr_set(a, key, val, node=None):
    pos, shape, _ = arr_select(a, key, node)
    tgt = Arr(a.base, [a.idx[p] for p in pos], shape)
    arr_assign(tgt, val, node)


def arr_assign(tgt, val, node=None):
    """tgt[...] = val with broadcasting of val to tgt.shape."""
    if isinstance(val, Vec):
        raise Unknown(node, 'Vector assigned into array')
    v = as_arr(val, node)
    if any(x is None for x in v.vals()):
        raise PyExc('TypeError', 'float() argument must be a number, not NoneType', node)
    if v.shape == tgt.shape:
        tgt.setvals(v.vals())
        return
    out = bshape(tgt.shape, v.shape, node)
    if out != tgt.shape:
        raise PyExc('ValueError', f'could not broadcast input array from shape {v.shape} into shape {tgt.shape}', node)
    m = bidx(v.shape, out)
    vs = v.vals()
    tgt.setvals([vs[m[i]] for i in range(tgt.size)])


# ------------------------------------------------------------------------------------ objects
class Native:
    """Base of evaluator-native objects: methods are `m_<name>`, attributes `a_<name>`."""


class Obj:
    """Attribute bag standing for a python object; `cls` lets methods resolve in /repo."""

    def __init__(self, name, cls=None, hooks=None, **attrs):
        self.name, self.cls, self.hooks, self.attrs = name, cls, dict(hooks or {}), dict(attrs)

    def __repr__(self):
        return f'<Obj {self.name}>'


class OptDict(Native):
    """OptionsDictionary stand-in."""

    def __init__(self, d):
        self.d = dict(d)

    def getitem(self, k, node):
        if k not in self.d:
            raise PyExc('KeyError', f"Option '{k}' has not been declared", node)
        return self.d[k]

    def setitem(self, k, v, node):
        self.d[k] = v


class Opaque(Native):
    """A value nothing is known about; may be stored and passed around only."""

    def __init__(self, what='opaque'):
        self.what = what

    def __repr__(self):
        return f'<Opaque {self.what}>'


class Ctx(Native):
    """Context manager stand-in: `with Ctx as v` binds self.value; never swallows exceptions."""

    def __init__(self, value=None):
        self.value = value


class ExcClass(Native):
    def __init__(self, tname):
        self.tname = tname


class ExcVal(Native):
    def __init__(self, tname, args=()):
        self.tname, self.args = tname, args


class NativeFn(Native):
    def __init__(self, fn, name='fn'):
        self.fn, self.name = fn, name


class Vec(Native):
    """OpenMDAO Vector stand-in (DefaultVector semantics of the in-place operations)."""

    def __init__(self, vals, names=None, sizes=None):
        self.data = Arr.of([num(v) for v in vals])
        self.names = names or ['v']
        self.sizes = sizes or [len(vals)]

    def vals(self):
        return self.data.vals()

    def _other(self, v, node):
        return v.data if isinstance(v, Vec) else v

    def m_asarray(self, it, node, copy=False):
        return self.data.copy() if truth(copy, node) else self.data

    def m_add_scal_vec(self, it, node, val, vec):
        if not isinstance(vec, Vec):
            raise PyExc('AttributeError', "object has no attribute 'asarray'", node)
        arr_assign(self.data, v_bin('+', self.data, v_bin('*', val, vec.data, node), node), node)

    def m_set_vec(self, it, node, vec):
        if not isinstance(vec, Vec):
            raise PyExc('AttributeError', "object has no attribute 'asarray'", node)
        arr_assign(self.data, vec.data.copy(), node)

    def m_set_val(self, it, node, val, idxs=Ellipsis):
        arr_set(self.data, idxs, self._other(val, node), node)

    def _ip(self, op, val, idxs, node):
        cur = arr_get(self.data, idxs, node)
        arr_set(self.data, idxs, v_bin(op, cur, self._other(val, node), node), node)

    def m_iadd(self, it, node, val, idxs=Ellipsis):
        self._ip('+', val, idxs, node)

    def m_isub(self, it, node, val, idxs=Ellipsis):
        self._ip('-', val, idxs, node)

    def m_imul(self, it, node, val, idxs=Ellipsis):
        self._ip('*', val, idxs, node)

    def inplace(self, op, val, node):
        if op not in ('+', '-', '*'):
            raise PyExc('TypeError', f'unsupported in-place operator {op}= on Vector', node)
        self._ip(op, val, Ellipsis, node)
        return self

    def m__abs_item_iter(self, it, node, flat=True):
        out, s = [], 0
        for n, k in zip(self.names, self.sizes):
            out.append((n, Arr(self.data.base, self.data.idx[s:s + k], (k,))))
            s += k
        return out

    def m__copy_vars(self, it, node):
        return Opaque('vars copy')

    def m_get_norm(self, it, node):
        return Opaque('norm')

    def m_copy(self, it, node):
        raise Unknown(node, 'Vector.copy')


# ------------------------------------------------------------------------------------ numpy model
def _s_isfinite(x):
    if x is None:
        raise PyExc('TypeError', "ufunc 'isfinite' not supported for NoneType")
    return not isinstance(x, float)


def _s_isnan(x):
    if x is None:
        raise PyExc('TypeError', "ufunc 'isnan' not supported for NoneType")
    return isinstance(x, float) and x != x


def _s_isinf(x):
    if x is None:
        raise PyExc('TypeError', "ufunc 'isinf' not supported for NoneType")
    return isinstance(x, float) and x in (INF, -INF)


def _s_min(a, b):
    if a is None or b is None:
        raise PyExc('TypeError', "'<' not supported with NoneType")
    if _s_isnan(a) or _s_isnan(b):
        return NAN
    return a if a <= b else b


def _s_max(a, b):
    if a is None or b is None:
        raise PyExc('TypeError', "'>' not supported with NoneType")
    if _s_isnan(a) or _s_isnan(b):
        return NAN
    return a if a >= b else b


def _s_abs(a):
    if a is None:
        raise PyExc('TypeError', "bad operand type for abs(): 'NoneType'")
    return -a if (a < 0) else (a if a == a else NAN)


def _s_sign(a):
    if a is None:
        raise PyExc('TypeError', 'sign of None')
    if a != a:
        return NAN
    return (a > 0) - (a < 0)


def _npres(x):
    """numpy functions return numpy scalars, not python scalars."""
    return x if isinstance(x, Arr) else Arr.scalar(x)


def _reduce(fn2, x, node, empty=None):
    a = as_arr(x, node)
    vs = a.vals()
    if not vs:
        if empty is None:
            raise PyExc('ValueError', 'zero-size array to reduction operation which has no identity', node)
        return Arr.scalar(empty)
    r = vs[0]
    for v in vs[1:]:
        r = fn2(r, v)
    return Arr.scalar(r)


def _no_axis(kw, node):
    for k in kw:
        if k in ('axis', 'out', 'where', 'keepdims') and kw[k] is not None:
            raise Unknown(node, f'numpy keyword {k}=')


def np_any(it, node, x, **kw):
    _no_axis(kw, node)
    return Arr.scalar(any(truth(v, node) for v in as_arr(x, node).vals()))


def np_all(it, node, x, **kw):
    _no_axis(kw, node)
    return Arr.scalar(all(truth(v, node) for v in as_arr(x, node).vals()))


def np_amax(it, node, x, **kw):
    _no_axis(kw, node)
    return _reduce(_s_max, x, node)


def np_amin(it, node, x, **kw):
    _no_axis(kw, node)
    return _reduce(_s_min, x, node)


def np_sum(it, node, x, **kw):
    _no_axis(kw, node)
    return _reduce(lambda a, b: s_bin('+', a, b, node), x, node, empty=0)


def _shape_arg(shape, node):
    shape = unwrap(shape)
    if isinstance(shape, (tuple, list)):
        return tuple(_as_index(s, node) for s in shape)
    return (_as_index(shape, node),)


def np_full(it, node, shape, fill_value, **kw):
    sh = _shape_arg(shape, node)
    fv = unwrap(fill_value)
    if fv is None:
        raise Unknown(node, 'np.full with None')
    return Arr.of([fv] * _prod(sh), sh)


def np_zeros(it, node, shape, **kw):
    return np_full(it, node, shape, 0)


def np_ones(it, node, shape, **kw):
    return np_full(it, node, shape, 1)


def np_like(v):
    def f(it, node, x, *a, **kw):
        a_ = as_arr(x, node)
        fv = unwrap(a[0]) if a else v
        return Arr.of([fv] * a_.size, a_.shape)
    return f


def np_array(it, node, x, *a, **kw):
    if isinstance(x, Vec):
        raise Unknown(node, 'np.array(Vector)')
    arr = as_arr(x, node)
    if kw.get('dtype') is not None or a:
        return m_astype(arr, it, node, kw.get('dtype', a[0] if a else None))
    return arr.copy()


def np_asarray(it, node, x, *a, **kw):
    if isinstance(x, Arr) and not a and kw.get('dtype') is None:
        return x
    return np_array(it, node, x, *a, **kw)


def np_atleast_1d(it, node, x):
    a = as_arr(x, node) if not isinstance(x, Arr) else x
    if a.shape == ():
        return Arr(a.base, a.idx, (1,)) if isinstance(x, Arr) else Arr.of(a.vals(), (1,))
    return a


def np_ravel(it, node, x, **kw):
    a = as_arr(x, node)
    return Arr(a.base, a.idx, (a.size,))


def np_where(it, node, c, *xy):
    if len(xy) != 2:
        raise Unknown(node, 'np.where with one argument')
    return _npres(ew(lambda cc, x, y: x if truth(cc, node) else y, [c, xy[0], xy[1]], node))


def np_clip(it, node, x, lo, hi, **kw):
    _no_axis(kw, node)
    r = x
    if lo is not None:
        r = ew(_s_max, [r, lo], node)
    if hi is not None:
        r = ew(_s_min, [r, hi], node)
    return _npres(r)


def _u1(fn):
    def f(it, node, x, **kw):
        _no_axis(kw, node)
        if isinstance(x, Vec):
            raise Unknown(node, 'ufunc on Vector')
        return _npres(ew(fn, [x], node))
    return f


def _u2(fn):
    def f(it, node, x, y, **kw):
        _no_axis(kw, node)
        if isinstance(x, Vec) or isinstance(y, Vec):
            raise Unknown(node, 'ufunc on Vector')
        return _npres(ew(fn, [x, y], node))
    return f


def np_isscalar(it, node, x):
    return isnum(x) or isinstance(x, str) or (isinstance(x, Arr) and x.shape == ())


def np_ndim(it, node, x):
    return len(as_arr(x, node).shape)


def np_size(it, node, x):
    return as_arr(x, node).size


def np_count_nonzero(it, node, x, **kw):
    _no_axis(kw, node)
    return sum(1 for v in as_arr(x, node).vals() if truth(v, node))


def np_errstate(it, node, **kw):
    return Ctx(None)


def np_float(it, node, x=0):
    x = unwrap(x)
    if x is None:
        raise PyExc('TypeError', 'float() argument must be a number, not NoneType', node)
    if isinstance(x, str):
        raise Unknown(node, 'float(str)')
    return _npres(x + 0 if not isinstance(x, bool) else int(x))


def np_copy(it, node, x):
    return as_arr(x, node).copy()


class NPNS(Native):
    """The `numpy` module."""


class MathNS(Native):
    """The `math` module (a few members)."""


def np_broadcast_to(it, node, x, shape, **kw):
    a = as_arr(x, node)
    sh = _shape_arg(shape, node)
    if bshape(a.shape, sh, node) != sh:
        raise PyExc('ValueError', f'operands could not be broadcast together with remapped shapes {a.shape} {sh}', node)
    m = bidx(a.shape, sh)
    vs = a.vals()
    return Arr.of([vs[i] for i in m], sh)


NP_FUNCS = {
    'isscalar': np_isscalar, 'ndim': np_ndim, 'size': np_size,
    'isfinite': _u1(_s_isfinite), 'isnan': _u1(_s_isnan), 'isinf': _u1(_s_isinf),
    'abs': _u1(_s_abs), 'absolute': _u1(_s_abs), 'fabs': _u1(_s_abs), 'sign': _u1(_s_sign),
    'negative': _u1(lambda a: s_bin('-', 0, a)),
    'logical_not': _u1(lambda a: not truth(a)),
    'minimum': _u2(_s_min), 'maximum': _u2(_s_max), 'fmin': _u2(_s_min), 'fmax': _u2(_s_max),
    'add': _u2(lambda a, b: s_bin('+', a, b)), 'subtract': _u2(lambda a, b: s_bin('-', a, b)),
    'multiply': _u2(lambda a, b: s_bin('*', a, b)), 'divide': _u2(lambda a, b: s_bin('/', a, b)),
    'true_divide': _u2(lambda a, b: s_bin('/', a, b)),
    'logical_and': _u2(lambda a, b: truth(a) and truth(b)),
    'logical_or': _u2(lambda a, b: truth(a) or truth(b)),
    'logical_xor': _u2(lambda a, b: truth(a) != truth(b)),
    'greater': _u2(lambda a, b: s_cmp('>', a, b)), 'less': _u2(lambda a, b: s_cmp('<', a, b)),
    'greater_equal': _u2(lambda a, b: s_cmp('>=', a, b)), 'less_equal': _u2(lambda a, b: s_cmp('<=', a, b)),
    'equal': _u2(lambda a, b: s_cmp('==', a, b)), 'not_equal': _u2(lambda a, b: s_cmp('!=', a, b)),
    'any': np_any, 'all': np_all, 'amax': np_amax, 'max': np_amax, 'amin': np_amin, 'min': np_amin,
    'nanmax': np_amax, 'nanmin': np_amin, 'sum': np_sum,
    'full': np_full, 'zeros': np_zeros, 'ones': np_ones, 'empty': np_zeros,
    'zeros_like': np_like(0), 'ones_like': np_like(1), 'full_like': np_like(0), 'empty_like': np_like(0),
    'array': np_array, 'asarray': np_asarray, 'asanyarray': np_asarray, 'atleast_1d': np_atleast_1d,
    'ascontiguousarray': np_asarray, 'ravel': np_ravel, 'copy': np_copy,
    'where': np_where, 'clip': np_clip, 'count_nonzero': np_count_nonzero, 'errstate': np_errstate,
    'float64': np_float, 'float32': np_float, 'double': np_float, 'broadcast_to': np_broadcast_to,
    'isneginf': _u1(lambda a: isinstance(a, float) and a == -INF), 'isposinf': _u1(lambda a: isinstance(a, float) and a == INF),
}
NP_CONSTS = {'inf': INF, 'Inf': INF, 'infty': INF, 'nan': NAN, 'NaN': NAN, 'newaxis': None}


# ------------------------------------------------------------------------------------ array methods
def m_astype(a, it, node, dtype, **kw):
    d = dtype
    vs = a.vals()
    if d is bool or (isinstance(d, str) and d == 'bool') or (isinstance(d, NativeFn) and d.name in ('bool', 'bool_')):
        return Arr.of([truth(v, node) for v in vs], a.shape)
    if d is float or (isinstance(d, NativeFn) and d.name in ('float', 'float64', 'double')) or d == 'float':
        return Arr.of([(int(v) if isinstance(v, bool) else v) for v in vs], a.shape)
    if d is int or (isinstance(d, NativeFn) and d.name == 'int') or d == 'int':
        out = []
        for v in vs:
            if isinstance(v, float):
                raise PyExc('ValueError', 'cannot convert float NaN/inf to integer', node)
            out.append(int(v))
        return Arr.of(out, a.shape)
    raise Unknown(node, 'astype with unrecognised dtype')


ARR_METHODS = {
    'ravel': lambda a, it, node, **kw: Arr(a.base, a.idx, (a.size,)),
    'flatten': lambda a, it, node, **kw: Arr.of(a.vals(), (a.size,)),
    'copy': lambda a, it, node, **kw: a.copy(),
    'astype': m_astype,
    'any': lambda a, it, node, **kw: np_any(it, node, a, **kw),
    'all': lambda a, it, node, **kw: np_all(it, node, a, **kw),
    'max': lambda a, it, node, **kw: np_amax(it, node, a, **kw),
    'min': lambda a, it, node, **kw: np_amin(it, node, a, **kw),
    'sum': lambda a, it, node, **kw: np_sum(it, node, a, **kw),
    'item': lambda a, it, node: a.item() if a.size == 1 else (_ for _ in ()).throw(
        PyExc('ValueError', 'can only convert an array of size 1 to a Python scalar', node)),
    'tolist': lambda a, it, node: a.vals() if len(a.shape) == 1 else (_ for _ in ()).throw(Unknown(node, 'tolist n-d')),
    'clip': lambda a, it, node, lo=None, hi=None, **kw: np_clip(it, node, a, lo, hi, **kw),
}


def m_fill(a, it, node, v):
    arr_assign(a, unwrap(v), node)


ARR_METHODS['fill'] = m_fill


def m_reshape(a, it, node, *shape, **kw):
    if len(shape) == 1 and isinstance(unwrap(shape[0]), (tuple, list)):
        shape = tuple(unwrap(shape[0]))
    sh = [_as_index(s, node) for s in shape]
    if sh.count(-1) == 1:
        rest = _prod([s for s in sh if s != -1])
        sh[sh.index(-1)] = a.size // rest if rest else 0
    if _prod(sh) != a.size:
        raise PyExc('ValueError', f'cannot reshape array of size {a.size} into shape {tuple(sh)}', node)
    return Arr(a.base, a.idx, tuple(sh))


ARR_METHODS['reshape'] = m_reshape


def arr_attr(a, name, node):
    if name == 'size':
        return a.size
    if name == 'shape':
        return a.shape
    if name == 'ndim':
        return len(a.shape)
    if name == 'real':
        return a
    if name == 'flat':
        return Arr(a.base, a.idx, (a.size,))
    if name == 'T' and len(a.shape) <= 1:
        return a
    if name in ARR_METHODS:
        return NativeFn(lambda it, node2, *args, **kw: ARR_METHODS[name](a, it, node2, *args, **kw), name)
    raise Unknown(node, f'ndarray attribute .{name}')


# ------------------------------------------------------------------------------------ interpreter
_BINOPS = {ast.Add: '+', ast.Sub: '-', ast.Mult: '*', ast.Div: '/', ast.FloorDiv: '//', ast.Mod: '%',
           ast.Pow: '**', ast.BitAnd: '&', ast.BitOr: '|', ast.BitXor: '^'}
_CMPOPS = {ast.Lt: '<', ast.LtE: '<=', ast.Gt: '>', ast.GtE: '>=', ast.Eq: '==', ast.NotEq: '!=',
           ast.Is: 'is', ast.IsNot: 'is not'}
_EXC_NAMES = ('ValueError', 'TypeError', 'KeyError', 'IndexError', 'AttributeError', 'RuntimeError',
              'Exception', 'BaseException', 'ZeroDivisionError', 'NotImplementedError', 'StopIteration',
              'ArithmeticError', 'LookupError', 'AssertionError', 'FloatingPointError', 'OverflowError',
              'AnalysisError', 'NameError')


class UserFunc(Native):
    def __init__(self, func, bound=None, start_cls=None):
        self.func, self.bound, self.start_cls = func, bound, start_cls


class UserLambda(Native):
    def __init__(self, node, frame):
        self.node, self.frame = node, frame


class SuperObj(Native):
    def __init__(self, obj, after):
        self.obj, self.after = obj, after   # after = (rel, qualname) of the class containing the call


class Frame:
    def __init__(self, env, func, cls):
        self.env, self.func, self.cls = env, func, cls   # cls = (rel, qualname) or None


def _b_len(it, node, x):
    x = x
    if isinstance(x, Arr):
        if x.shape == ():
            raise PyExc('TypeError', 'len() of unsized object', node)
        return x.shape[0]
    if isinstance(x, Vec):
        return x.data.size
    if isinstance(x, (list, tuple, dict, str, set, frozenset)):
        return len(x)
    if isnum(x) or x is None:
        raise PyExc('TypeError', f"object of type '{type(x).__name__}' has no len()", node)
    raise Unknown(node, f'len of {type(x).__name__}')


def _b_abs(it, node, x):
    return ew(_s_abs, [x], node)


def _b_minmax(fn):
    def f(it, node, *args, **kw):
        if kw:
            raise Unknown(node, 'min/max keyword')
        xs = it.iterate(args[0], node) if len(args) == 1 else list(args)
        if not xs:
            raise PyExc('ValueError', 'min()/max() of empty sequence', node)
        r = xs[0]
        for v in xs[1:]:
            if truth(v_cmp('<' if fn == 'min' else '>', v, r, node), node):
                r = v
        return r
    return f


def _b_any(it, node, x):
    return any(truth(v, node) for v in it.iterate(x, node))


def _b_all(it, node, x):
    return all(truth(v, node) for v in it.iterate(x, node))


def _b_float(it, node, x=0):
    x = unwrap(x)
    if isnum(x):
        return int(x) if isinstance(x, bool) else x
    if isinstance(x, Arr):
        if x.size == 1:
            return x.item()
        raise PyExc('TypeError', 'only length-1 arrays can be converted to Python scalars', node)
    if isinstance(x, str):
        try:
            return num(float(x))
        except ValueError:
            raise PyExc('ValueError', 'could not convert string to float', node)
    raise PyExc('TypeError', 'float() argument must be a string or a real number', node)


def _b_int(it, node, x=0):
    x = _b_float(it, node, x)
    if isinstance(x, float):
        raise PyExc('ValueError', 'cannot convert float NaN/inf to integer', node)
    return int(x)


def _b_bool(it, node, x=False):
    return truth(x, node)


def _b_range(it, node, *a):
    return list(range(*[_as_index(v, node) for v in a]))


def _b_enumerate(it, node, x, start=0):
    return [(i + start, v) for i, v in enumerate(it.iterate(x, node))]


def _b_zip(it, node, *xs):
    return [tuple(t) for t in zip(*[it.iterate(x, node) for x in xs])]


def _b_list(it, node, x=()):
    return list(it.iterate(x, node))


def _b_tuple(it, node, x=()):
    return tuple(it.iterate(x, node))


def _b_isinstance(it, node, x, t):
    ts = t if isinstance(t, tuple) else (t,)
    for c in ts:
        if c is float or (isinstance(c, NativeFn) and c.name == 'float'):
            if isinstance(x, (Fraction, float)):
                return True
        elif isinstance(c, NativeFn) and c.name == 'int':
            if isinstance(x, int) and not isinstance(x, bool):
                return True
        elif isinstance(c, NativeFn) and c.name == 'bool':
            if isinstance(x, bool):
                return True
        elif isinstance(c, NativeFn) and c.name in ('list', 'tuple'):
            if isinstance(x, list if c.name == 'list' else tuple):
                return True
        elif isinstance(c, NativeFn) and c.name == 'ndarray':
            if isinstance(x, Arr):
                return True
        else:
            raise Unknown(node, 'isinstance against an unmodelled class')
    return False


def _b_print(it, node, *a, **kw):
    return None


def _b_sum(it, node, x, start=0):
    r = start
    for v in it.iterate(x, node):
        r = v_bin('+', r, v, node)
    return r


BUILTINS = {'len': _b_len, 'abs': _b_abs, 'min': _b_minmax('min'), 'max': _b_minmax('max'), 'any': _b_any,
            'all': _b_all, 'float': _b_float, 'int': _b_int, 'bool': _b_bool, 'range': _b_range,
            'enumerate': _b_enumerate, 'zip': _b_zip, 'list': _b_list, 'tuple': _b_tuple,
            'isinstance': _b_isinstance, 'print': _b_print, 'sum': _b_sum,
            'str': lambda it, node, x='': '<str>', 'repr': lambda it, node, x: '<str>',
            'id': lambda it, node, x: id(x)}


class Interp:
    """AST evaluator.  `names` maps identifiers (module globals/imports) to stand-ins."""

    def __init__(self, repo, names=None, max_steps=200000):
        self.repo = repo
        self.names = dict(names or {})
        self.steps = 0
        self.max_steps = max_steps
        self.depth = 0
        self.called = []   # trace of interpreted functions (core.Func), in call order

    # ---------------------------------------------------------------- helpers
    def tick(self, node):
        self.steps += 1
        if self.steps > self.max_steps:
            raise Unknown(node, 'evaluation budget exhausted (non-terminating loop?)')

    def iterate(self, x, node):
        if isinstance(x, (list, tuple)):
            return list(x)
        if isinstance(x, Arr):
            if x.shape == ():
                raise PyExc('TypeError', 'iteration over a 0-d array', node)
            return [arr_get(x, i, node) for i in range(x.shape[0])]
        if isinstance(x, dict):
            return list(x.keys())
        if isinstance(x, (set, frozenset)):
            return sorted(x, key=repr)
        if isinstance(x, str):
            return list(x)
        if x is None or isnum(x):
            raise PyExc('TypeError', f"'{type(x).__name__}' object is not iterable", node)
        raise Unknown(node, f'iteration over {type(x).__name__}')

    def global_name(self, name, fr, node):
        if name in self.names:
            return self.names[name]
        rel = fr.func.rel if fr.func is not None else None
        if rel is not None:
            m = self.repo.module(rel)
            f = m.funcs.get(name)
            if f is not None:
                return UserFunc(f)
            imp = m.imports.get(name)
            if imp is not None:
                if imp[0] == 'numpy' and imp[1] is None:
                    return NPNS()
                if imp[0] == 'numpy' and imp[1] is not None:
                    return self.np_attr(imp[1], node)
                if imp[0] == 'math' and imp[1] is None:
                    return MathNS()
                if imp[0] == 'math' and imp[1] is not None:
                    return self.math_attr(imp[1], node)
                if imp[1] in _EXC_NAMES:
                    return ExcClass(imp[1])
                if imp[1]:
                    r2 = imp[0].replace('.', '/') + '.py'
                    if self.repo.exists(r2):
                        f2 = self.repo.module(r2).funcs.get(imp[1])
                        if f2 is not None:
                            return UserFunc(f2)
                raise Unknown(node, f'imported name {name} is not modelled')
            for st in m.tree.body:
                if isinstance(st, ast.Assign) and any(isinstance(t, ast.Name) and t.id == name for t in st.targets):
                    if isinstance(st.value, ast.Constant):
                        return num(st.value.value)
        if name in _EXC_NAMES:
            return ExcClass(name)
        if name in BUILTINS:
            return NativeFn(BUILTINS[name], name)
        if name == 'slice':
            return NativeFn(lambda it, n, *a: slice(*a), 'slice')
        raise Unknown(node, f'name {name} is not modelled')

    def math_attr(self, name, node):
        if name in ('inf', 'nan'):
            return NP_CONSTS[name]
        table = {'isfinite': _s_isfinite, 'isnan': _s_isnan, 'isinf': _s_isinf, 'fabs': _s_abs}
        if name in table:
            f = table[name]
            return NativeFn(lambda it, n, x: f(unwrap(x)), name)
        raise Unknown(node, f'math.{name} is not modelled')

    def np_attr(self, name, node):
        if name in NP_CONSTS:
            return NP_CONSTS[name]
        if name in NP_FUNCS:
            return NativeFn(NP_FUNCS[name], name)
        if name in ('bool_', 'ndarray'):
            return NativeFn(lambda it, n, x=False: truth(x, n), name)
        raise Unknown(node, f'numpy.{name} is not modelled')

    # ---------------------------------------------------------------- calls
    def call_func(self, func, args, kwargs, bound=None, node=None):
        """Interpret core.Func `func` (bound to `bound` if a method)."""
        fn = func.node
        self.called.append(func)
        if func.decorators() and any(d not in ('staticmethod',) for d in func.decorators()):
            raise Unknown(node or fn, f'decorated function {func.qualname}')
        a = fn.args
        params = [p.arg for p in a.posonlyargs + a.args]
        env = {}
        args = list(args)
        is_method = func.cls is not None and 'staticmethod' not in func.decorators()
        if is_method:
            if bound is None:
                raise Unknown(node or fn, f'unbound call of method {func.qualname}')
            args = [bound] + args
        if len(args) > len(params) and a.vararg is None:
            raise PyExc('TypeError', f'{fn.name}() takes {len(params)} positional arguments but {len(args)} were given', node)
        for p, v in zip(params, args):
            env[p] = v
        if a.vararg is not None:
            env[a.vararg.arg] = tuple(args[len(params):])
        extra = {}
        kwonly = [p.arg for p in a.kwonlyargs]
        for k, v in kwargs.items():
            if k in env:
                raise PyExc('TypeError', f'{fn.name}() got multiple values for argument {k!r}', node)
            if k in params or k in kwonly:
                env[k] = v
            elif a.kwarg is not None:
                extra[k] = v
            else:
                raise PyExc('TypeError', f'{fn.name}() got an unexpected keyword argument {k!r}', node)
        if a.kwarg is not None:
            env[a.kwarg.arg] = extra
        cls = (func.rel, func.qualname.rsplit('.', 1)[0]) if func.cls is not None else None
        fr = Frame(env, func, cls)
        ndef = len(a.defaults)
        for i, p in enumerate(params):
            if p not in env:
                j = i - (len(params) - ndef)
                if j < 0:
                    raise PyExc('TypeError', f'{fn.name}() missing required argument {p!r}', node)
                env[p] = self.ev(a.defaults[j], fr)
        for p, d in zip(kwonly, a.kw_defaults):
            if p not in env:
                if d is None:
                    raise PyExc('TypeError', f'{fn.name}() missing keyword argument {p!r}', node)
                env[p] = self.ev(d, fr)
        self.depth += 1
        if self.depth > 40:
            raise Unknown(node or fn, 'call depth exceeded')
        try:
            self.block(astx.strip_doc(fn.body), fr)
        except _Ret as r:
            return r.v
        finally:
            self.depth -= 1
        return None

    def lookup_method(self, cls, name, after=None):
        """First definer of `name` in the MRO of cls (after class `after` for super())."""
        mro = self.repo.mro(*cls)
        if after is not None:
            if after not in mro:
                return None
            mro = mro[mro.index(after) + 1:]
        for r, q in mro:
            f = self.repo.module(r).funcs.get(f'{q}.{name}')
            if f is not None:
                return f
        return None

    def call_value(self, f, args, kwargs, node):
        self.tick(node)
        if isinstance(f, NativeFn):
            try:
                return f.fn(self, node, *args, **kwargs)
            except PyExc as px:
                if px.node is None:
                    px.node = node
                raise
            except TypeError as e:
                if 'argument' in str(e) or 'positional' in str(e):
                    raise Unknown(node, f'call of {f.name}: {e}')
                raise
        if isinstance(f, UserFunc):
            return self.call_func(f.func, args, kwargs, bound=f.bound, node=node)
        if isinstance(f, UserLambda):
            la = f.node.args
            env = dict(f.frame.env)
            ps = [p.arg for p in la.args]
            if len(args) != len(ps) or kwargs:
                raise Unknown(node, 'lambda call shape')
            env.update(zip(ps, args))
            return self.ev(f.node.body, Frame(env, f.frame.func, f.frame.cls))
        if isinstance(f, ExcClass):
            return ExcVal(f.tname, tuple(args))
        if callable(f) and not isinstance(f, Native):
            return f(self, node, *args, **kwargs)
        raise Unknown(node, f'call of {type(f).__name__}')

    def method(self, recv, name, node, fr):
        """Resolve recv.name to a callable value or attribute value."""
        if isinstance(recv, SuperObj):
            obj = recv.obj
            key = ('super', name)
            if key in obj.hooks:
                h = obj.hooks[key]
                return NativeFn(lambda it, n, *a, **k: h(it, n, obj, *a, **k), name)
            f = self.lookup_method(obj.cls, name, after=recv.after) if obj.cls else None
            if f is None:
                raise Unknown(node, f'super().{name} not found')
            return UserFunc(f, bound=obj)
        if isinstance(recv, Obj):
            if name in recv.attrs:
                return recv.attrs[name]
            if name in recv.hooks:
                h = recv.hooks[name]
                return NativeFn(lambda it, n, *a, **k: h(it, n, recv, *a, **k), name)
            if recv.cls is not None:
                f = self.lookup_method(recv.cls, name)
                if f is not None:
                    if 'property' in f.decorators():
                        raise Unknown(node, f'property {name}')
                    return UserFunc(f, bound=recv)
            raise Unknown(node, f'attribute {recv.name}.{name} is not modelled')
        if isinstance(recv, NPNS):
            return self.np_attr(name, node)
        if isinstance(recv, MathNS):
            return self.math_attr(name, node)
        if isinstance(recv, Arr):
            return arr_attr(recv, name, node)
        if isinstance(recv, Vec):
            m = getattr(recv, 'm_' + name, None)
            if m is None:
                raise Unknown(node, f'Vector.{name} is not modelled')
            return NativeFn(lambda it, n, *a, **k: m(it, n, *a, **k), name)
        if isinstance(recv, dict):
            return self.dict_method(recv, name, node)
        if isinstance(recv, list):
            if name == 'append':
                return NativeFn(lambda it, n, v: recv.append(v), name)
            if name == 'extend':
                return NativeFn(lambda it, n, v: recv.extend(it.iterate(v, n)), name)
            if name == 'pop':
                return NativeFn(lambda it, n, *a: recv.pop(*a), name)
            raise Unknown(node, f'list.{name}')
        if isinstance(recv, str):
            if name in ('lower', 'upper', 'strip', 'lstrip', 'rstrip', 'title'):
                return NativeFn(lambda it, n: getattr(recv, name)(), name)
            if name == 'format':
                return NativeFn(lambda it, n, *a, **k: '<str>', name)
            if name in ('startswith', 'endswith'):
                return NativeFn(lambda it, n, s: getattr(recv, name)(s), name)
            raise Unknown(node, f'str.{name}')
        if isinstance(recv, OptDict):
            if name == 'get':
                return NativeFn(lambda it, n, k, d=None: recv.d.get(k, d), name)
            if name == '_dict':
                return {k: {'val': v} for k, v in recv.d.items()}
            raise Unknown(node, f'options.{name}')
        if isinstance(recv, ExcVal):
            if name == 'args':
                return recv.args
            raise Unknown(node, f'exception attribute {name}')
        if isinstance(recv, Ctx):
            if isinstance(recv.value, Obj):
                return self.method(recv.value, name, node, fr)
        if isnum(recv) or recv is None:
            if isinstance(recv, (Fraction, float)) and name in ('real',):
                return recv
            raise PyExc('AttributeError', f"'{'NoneType' if recv is None else 'float'}' object has no attribute '{name}'", node)
        if isinstance(recv, tuple):
            raise PyExc('AttributeError', f"'tuple' object has no attribute '{name}'", node)
        raise Unknown(node, f'attribute .{name} of {type(recv).__name__}')

    def dict_method(self, d, name, node):
        if name == 'items':
            return NativeFn(lambda it, n: [(k, v) for k, v in d.items()], name)
        if name == 'keys':
            return NativeFn(lambda it, n: list(d.keys()), name)
        if name == 'values':
            return NativeFn(lambda it, n: list(d.values()), name)
        if name == 'get':
            return NativeFn(lambda it, n, k, dflt=None: d.get(k, dflt), name)
        if name == 'setdefault':
            return NativeFn(lambda it, n, k, dflt=None: d.setdefault(k, dflt), name)
        if name == 'update':
            def upd(it, n, other=None, **kw):
                if other is not None:
                    d.update(other if isinstance(other, dict) else dict(it.iterate(other, n)))
                d.update(kw)
            return NativeFn(upd, name)
        if name == 'pop':
            def pop(it, n, k, *dflt):
                if k in d:
                    return d.pop(k)
                if dflt:
                    return dflt[0]
                raise PyExc('KeyError', repr(k), n)
            return NativeFn(pop, name)
        if name == 'copy':
            return NativeFn(lambda it, n: dict(d), name)
        raise Unknown(node, f'dict.{name}')

    # ---------------------------------------------------------------- expressions
    def ev(self, e, fr):
        self.tick(e)
        m = getattr(self, 'e_' + type(e).__name__, None)
        if m is None:
            raise Unknown(e, f'expression kind {type(e).__name__}')
        return m(e, fr)

    def e_Constant(self, e, fr):
        v = e.value
        if isinstance(v, (bytes, complex)):
            raise Unknown(e, 'bytes/complex constant')
        return num(v)

    def e_Name(self, e, fr):
        if e.id in fr.env:
            return fr.env[e.id]
        return self.global_name(e.id, fr, e)

    def e_Attribute(self, e, fr):
        recv = self.ev(e.value, fr)
        return self.method(recv, e.attr, e, fr)

    def e_Tuple(self, e, fr):
        return tuple(self.seq(e.elts, fr))

    def e_List(self, e, fr):
        return list(self.seq(e.elts, fr))

    def seq(self, elts, fr):
        out = []
        for x in elts:
            if isinstance(x, ast.Starred):
                out.extend(self.iterate(self.ev(x.value, fr), x))
            else:
                out.append(self.ev(x, fr))
        return out

    def e_Dict(self, e, fr):
        d = {}
        for k, v in zip(e.keys, e.values):
            if k is None:
                d.update(self.ev(v, fr))
            else:
                d[self.key(self.ev(k, fr), k)] = self.ev(v, fr)
        return d

    def e_Set(self, e, fr):
        return set(self.key(v, e) for v in self.seq(e.elts, fr))

    def key(self, k, node):
        k = unwrap(k)
        if isinstance(k, (str, tuple)) or isnum(k) or k is None:
            return k
        raise Unknown(node, f'unhashable/unsupported dict key {type(k).__name__}')

    def e_JoinedStr(self, e, fr):
        for v in e.values:
            if isinstance(v, ast.FormattedValue):
                self.ev(v.value, fr)
        return '<str>'

    def e_Slice(self, e, fr):
        return slice(None if e.lower is None else self.ev(e.lower, fr),
                     None if e.upper is None else self.ev(e.upper, fr),
                     None if e.step is None else self.ev(e.step, fr))

    def e_Lambda(self, e, fr):
        return UserLambda(e, fr)

    def e_IfExp(self, e, fr):
        return self.ev(e.body if truth(self.ev(e.test, fr), e.test) else e.orelse, fr)

    def e_BoolOp(self, e, fr):
        is_and = isinstance(e.op, ast.And)
        v = None
        for x in e.values:
            v = self.ev(x, fr)
            t = truth(v, x)
            if is_and and not t:
                return v
            if not is_and and t:
                return v
        return v

    def e_UnaryOp(self, e, fr):
        v = self.ev(e.operand, fr)
        if isinstance(e.op, ast.Not):
            return not truth(v, e.operand)
        if isinstance(v, Vec):
            raise Unknown(e, 'unary operator on Vector')
        if isinstance(e.op, ast.USub):
            return ew(lambda a: s_bin('-', 0, a, e) if not (isinstance(a, float)) else -a, [v], e)
        if isinstance(e.op, ast.UAdd):
            return v
        if isinstance(e.op, ast.Invert):
            def inv(a):
                if isinstance(a, bool):
                    return not a
                if isinstance(a, int):
                    return ~a
                raise PyExc('TypeError', 'bad operand type for unary ~', e)
            if isinstance(v, bool):
                return ~int(v)
            return ew(inv, [v], e)
        raise Unknown(e, 'unary operator')

    def e_BinOp(self, e, fr):
        op = _BINOPS.get(type(e.op))
        if op is None:
            raise Unknown(e, f'operator {type(e.op).__name__}')
        a, b = self.ev(e.left, fr), self.ev(e.right, fr)
        return self.binop(op, a, b, e)

    def binop(self, op, a, b, node):
        if isinstance(a, Vec) or isinstance(b, Vec):
            raise PyExc('TypeError', f'unsupported operand type(s) for {op}: Vector', node)
        if isinstance(a, (Obj, Opaque)) or isinstance(b, (Obj, Opaque)):
            raise Unknown(node, f'arithmetic on {type(a).__name__}/{type(b).__name__}')
        return v_bin(op, a, b, node)

    def e_Compare(self, e, fr):
        left = self.ev(e.left, fr)
        res = True
        for op, c in zip(e.ops, e.comparators):
            right = self.ev(c, fr)
            if isinstance(op, (ast.In, ast.NotIn)):
                r = self.contains(right, left, e)
                if isinstance(op, ast.NotIn):
                    r = not r
            else:
                o = _CMPOPS.get(type(op))
                if isinstance(left, (Vec, Obj, Opaque)) or isinstance(right, (Vec, Obj, Opaque)):
                    if o in ('is', 'is not'):
                        r = (left is right) == (o == 'is')
                    elif o in ('==', '!='):
                        r = (left is right) == (o == '==')
                    else:
                        raise Unknown(e, 'ordering comparison on objects')
                else:
                    r = v_cmp(o, left, right, e)
            if len(e.ops) == 1:
                return r
            if not truth(r, e):
                return r
            res = r
            left = right
        return res

    def contains(self, cont, x, node):
        x = unwrap(x)
        if isinstance(cont, dict):
            return self.key(x, node) in cont
        if isinstance(cont, (list, tuple, set, frozenset)):
            return any(truth(v_cmp('==', v, x, node), node) for v in cont)
        if isinstance(cont, str) and isinstance(x, str):
            return x in cont
        if isinstance(cont, Arr):
            return any(truth(s_cmp('==', v, x, node), node) for v in cont.vals())
        raise Unknown(node, f'membership test on {type(cont).__name__}')

    def e_Subscript(self, e, fr):
        cont = self.ev(e.value, fr)
        key = self.ev(e.slice, fr)
        return self.getitem(cont, key, e)

    def getitem(self, cont, key, node):
        if isinstance(cont, Arr):
            return arr_get(cont, key, node)
        if isinstance(cont, dict):
            k = self.key(key, node)
            if k not in cont:
                raise PyExc('KeyError', repr(k), node)
            return cont[k]
        if isinstance(cont, OptDict):
            return cont.getitem(unwrap(key), node)
        if isinstance(cont, (list, tuple, str)):
            if isinstance(key, slice):
                return cont[slice(*[None if v is None else _as_index(v, node) for v in (key.start, key.stop, key.step)])]
            i = _as_index(key, node)
            if not -len(cont) <= i < len(cont):
                raise PyExc('IndexError', 'index out of range', node)
            return cont[i]
        if cont is None or isnum(cont):
            raise PyExc('TypeError', f"'{'NoneType' if cont is None else 'float'}' object is not subscriptable", node)
        raise Unknown(node, f'subscript of {type(cont).__name__}')

    def setitem(self, cont, key, val, node):
        if isinstance(cont, Arr):
            return arr_set(cont, key, val, node)
        if isinstance(cont, dict):
            cont[self.key(key, node)] = val
            return
        if isinstance(cont, OptDict):
            return cont.setitem(unwrap(key), val, node)
        if isinstance(cont, list):
            i = _as_index(key, node)
            if not -len(cont) <= i < len(cont):
                raise PyExc('IndexError', 'list assignment index out of range', node)
            cont[i] = val
            return
        if cont is None or isnum(cont) or isinstance(cont, tuple):
            raise PyExc('TypeError', 'object does not support item assignment', node)
        raise Unknown(node, f'item assignment on {type(cont).__name__}')

    def e_Call(self, e, fr):
        if isinstance(e.func, ast.Name) and e.func.id == 'super' and not e.args:
            slf = fr.env.get('self')
            if not isinstance(slf, Obj) or fr.cls is None:
                raise Unknown(e, 'super() outside a modelled method')
            return SuperObj(slf, fr.cls)
        f = self.ev(e.func, fr)
        args = self.seq(e.args, fr)
        kwargs = {}
        for k in e.keywords:
            if k.arg is None:
                d = self.ev(k.value, fr)
                if not isinstance(d, dict):
                    raise Unknown(e, '** of non-dict')
                kwargs.update(d)
            else:
                kwargs[k.arg] = self.ev(k.value, fr)
        return self.call_value(f, args, kwargs, e)

    def comp(self, gens, fr, emit):
        def rec(i, env):
            if i == len(gens):
                emit(Frame(env, fr.func, fr.cls))
                return
            g = gens[i]
            f2 = Frame(env, fr.func, fr.cls)
            for v in self.iterate(self.ev(g.iter, f2), g.iter):
                env2 = dict(env)
                f3 = Frame(env2, fr.func, fr.cls)
                self.assign(g.target, v, f3)
                if all(truth(self.ev(c, f3), c) for c in g.ifs):
                    rec(i + 1, env2)
        rec(0, dict(fr.env))

    def e_ListComp(self, e, fr):
        out = []
        self.comp(e.generators, fr, lambda f: out.append(self.ev(e.elt, f)))
        return out

    e_GeneratorExp = e_ListComp

    def e_SetComp(self, e, fr):
        return set(self.key(v, e) for v in self.e_ListComp(e, fr))

    def e_DictComp(self, e, fr):
        out = {}
        self.comp(e.generators, fr, lambda f: out.__setitem__(self.key(self.ev(e.key, f), e), self.ev(e.value, f)))
        return out

    def e_NamedExpr(self, e, fr):
        v = self.ev(e.value, fr)
        fr.env[e.target.id] = v
        return v

    # ---------------------------------------------------------------- statements
    def block(self, stmts, fr):
        for st in stmts:
            self.stmt(st, fr)

    def stmt(self, st, fr):
        self.tick(st)
        m = getattr(self, 's_' + type(st).__name__, None)
        if m is None:
            raise Unknown(st, f'statement kind {type(st).__name__}')
        m(st, fr)

    def s_Pass(self, st, fr):
        pass

    def s_Expr(self, st, fr):
        self.ev(st.value, fr)

    def s_Return(self, st, fr):
        raise _Ret(None if st.value is None else self.ev(st.value, fr))

    def s_Break(self, st, fr):
        raise _Brk()

    def s_Continue(self, st, fr):
        raise _Cont()

    def s_Assert(self, st, fr):
        if not truth(self.ev(st.test, fr), st.test):
            raise PyExc('AssertionError', '', st)

    def s_Global(self, st, fr):
        raise Unknown(st, 'global statement')

    def s_Assign(self, st, fr):
        v = self.ev(st.value, fr)
        for t in st.targets:
            self.assign(t, v, fr)

    def s_AnnAssign(self, st, fr):
        if st.value is not None:
            self.assign(st.target, self.ev(st.value, fr), fr)

    def assign(self, t, v, fr):
        if isinstance(t, ast.Name):
            fr.env[t.id] = v
        elif isinstance(t, (ast.Tuple, ast.List)):
            vs = self.iterate(v, t)
            if any(isinstance(x, ast.Starred) for x in t.elts):
                raise Unknown(t, 'starred unpacking')
            if len(vs) != len(t.elts):
                raise PyExc('ValueError', f'cannot unpack {len(vs)} values into {len(t.elts)} targets', t)
            for x, y in zip(t.elts, vs):
                self.assign(x, y, fr)
        elif isinstance(t, ast.Attribute):
            recv = self.ev(t.value, fr)
            if isinstance(recv, Ctx) and isinstance(recv.value, Obj):
                recv = recv.value
            if not isinstance(recv, Obj):
                raise Unknown(t, f'attribute store on {type(recv).__name__}')
            recv.attrs[t.attr] = v
        elif isinstance(t, ast.Subscript):
            cont = self.ev(t.value, fr)
            key = self.ev(t.slice, fr)
            self.setitem(cont, key, v, t)
        else:
            raise Unknown(t, f'assignment target {type(t).__name__}')

    def s_AugAssign(self, st, fr):
        op = _BINOPS.get(type(st.op))
        if op is None:
            raise Unknown(st, 'augmented operator')
        t = st.target
        if isinstance(t, ast.Subscript):
            cont = self.ev(t.value, fr)
            key = self.ev(t.slice, fr)
            cur = self.getitem(cont, key, t)
            rhs = self.ev(st.value, fr)
            self.setitem(cont, key, self.binop(op, cur, rhs, st), t)
            return
        cur = self.ev(t, fr)
        rhs = self.ev(st.value, fr)
        if isinstance(cur, Vec):
            cur.inplace(op, rhs, st)
            return
        if isinstance(cur, Arr) and cur.shape != ():
            if isinstance(rhs, Vec):
                raise Unknown(st, 'ndarray op= Vector')
            res = v_bin(op, cur, rhs, st)
            if res.shape != cur.shape:
                raise PyExc('ValueError', f'non-broadcastable output operand with shape {cur.shape}', st)
            cur.setvals(res.vals())
            return
        if isinstance(cur, list) and op == '+':
            cur.extend(self.iterate(rhs, st))
            return
        self.assign(t, self.binop(op, cur, rhs, st), fr)

    def s_Delete(self, st, fr):
        for t in st.targets:
            if isinstance(t, ast.Name):
                fr.env.pop(t.id, None)
            elif isinstance(t, ast.Subscript):
                cont = self.ev(t.value, fr)
                if isinstance(cont, dict):
                    cont.pop(self.key(self.ev(t.slice, fr), t), None)
                else:
                    raise Unknown(st, 'del on non-dict')
            else:
                raise Unknown(st, 'del target')

    def s_If(self, st, fr):
        self.block(st.body if truth(self.ev(st.test, fr), st.test) else st.orelse, fr)

    def s_While(self, st, fr):
        while truth(self.ev(st.test, fr), st.test):
            self.tick(st)
            try:
                self.block(st.body, fr)
            except _Brk:
                return
            except _Cont:
                continue
        self.block(st.orelse, fr)

    def s_For(self, st, fr):
        for v in self.iterate(self.ev(st.iter, fr), st.iter):
            self.tick(st)
            self.assign(st.target, v, fr)
            try:
                self.block(st.body, fr)
            except _Brk:
                return
            except _Cont:
                continue
        self.block(st.orelse, fr)

    def s_With(self, st, fr):
        for it in st.items:
            c = self.ev(it.context_expr, fr)
            if not isinstance(c, Ctx):
                raise Unknown(st, 'with-statement over an unmodelled context manager')
            if it.optional_vars is not None:
                self.assign(it.optional_vars, c.value if c.value is not None else c, fr)
        self.block(st.body, fr)

    def s_Raise(self, st, fr):
        if st.exc is None:
            cur = fr.env.get('__exc__')
            if cur is None:
                raise Unknown(st, 'bare raise outside handler')
            raise cur
        v = self.ev(st.exc, fr)
        if isinstance(v, ExcClass):
            v = ExcVal(v.tname)
        if not isinstance(v, ExcVal):
            raise Unknown(st, 'raise of a non-exception value')
        px = getattr(v, 'origin', None) or PyExc(v.tname, 'raised explicitly', st)
        raise px

    def s_Try(self, st, fr):
        try:
            try:
                self.block(st.body, fr)
            except PyExc as px:
                for h in st.handlers:
                    if self.handles(h, px, fr):
                        if h.name:
                            xv = ExcVal(px.tname, (px.msg,))
                            xv.origin = px
                            fr.env[h.name] = xv
                        saved = fr.env.get('__exc__')
                        fr.env['__exc__'] = px
                        try:
                            self.block(h.body, fr)
                        finally:
                            fr.env['__exc__'] = saved
                        break
                else:
                    raise
            else:
                self.block(st.orelse, fr)
        finally:
            if st.finalbody:
                self.block(st.finalbody, fr)

    def handles(self, h, px, fr):
        if h.type is None:
            return True
        t = self.ev(h.type, fr)
        ts = t if isinstance(t, tuple) else (t,)
        for c in ts:
            if not isinstance(c, ExcClass):
                raise Unknown(h, 'except clause over an unmodelled class')
            if exc_isa(px.tname, c.tname):
                return True
        return False


def where(node):
    """(lineno, text) of an AST node for messages."""
    if node is None:
        return ''
    st = node if isinstance(node, ast.stmt) else (astx.stmt_of(node) or node)
    return f'L{getattr(node, "lineno", 0)}: {astx.src(st)[:90]}'
