"""Helpers for rules/C04.py: symbolic terms of expressions through reaching definitions.

A *term* is a hashable nested tuple describing how a value is computed from function parameters,
loop variables, attribute paths and calls.  Local aliases (`offset = offsets_out[idx_out]`) are
looked through, so the rules compare what is computed, not how the locals are called.
"""
import ast

from . import astx, cfg as cfgm
from .core import AnalysisError

_COMM = (ast.Add, ast.Mult, ast.BitOr, ast.BitAnd)


class Sym:
    """Terms of expressions inside one function."""

    def __init__(self, fn):
        self.fn = fn
        self.g = cfgm.build(fn)
        self.rd = cfgm.ReachingDefs(self.g)
        self._memo = {}

    # ------------------------------------------------------------------ nodes
    def at(self, expr):
        """First CFG node of the statement that evaluates *expr*."""
        st = astx.stmt_of(expr)
        ns = self.g.nodes_of(st)
        if not ns:
            raise AnalysisError(f'{self.fn.ident}: no CFG node for `{astx.src(st)}`')
        return ns[0]

    # ------------------------------------------------------------------ terms
    def term(self, expr, at=None, depth=0):
        if at is None:
            at = self.at(expr)
        k = (id(expr), at.id)
        if k in self._memo:
            return self._memo[k]
        self._memo[k] = ('cycle',)
        t = self._term(expr, at, depth)
        self._memo[k] = t
        return t

    def _term(self, e, at, depth):
        if depth > 40:
            return ('deep',)
        T = lambda x: self.term(x, at, depth + 1)   # noqa: E731
        if isinstance(e, ast.Name):
            return self._name(e.id, at, depth)
        if isinstance(e, ast.Constant):
            return ('const', e.value)
        if isinstance(e, ast.Attribute):
            return ('attr', T(e.value), e.attr)
        if isinstance(e, ast.Subscript):
            return ('sub', T(e.value), T(e.slice))
        if isinstance(e, ast.Slice):
            return ('slice',) + tuple(T(x) if x is not None else ('const', None)
                                      for x in (e.lower, e.upper, e.step))
        if isinstance(e, (ast.Tuple, ast.List)):
            return ('tuple',) + tuple(T(x) for x in e.elts)
        if isinstance(e, ast.BinOp):
            l, r = T(e.left), T(e.right)
            if isinstance(e.op, _COMM) and repr(r) < repr(l):
                l, r = r, l
            return ('bin', type(e.op).__name__, l, r)
        if isinstance(e, ast.UnaryOp):
            if isinstance(e.op, ast.USub) and isinstance(e.operand, ast.Constant) and \
                    isinstance(e.operand.value, (int, float)) and not isinstance(e.operand.value, bool):
                return ('const', -e.operand.value)
            return ('un', type(e.op).__name__, T(e.operand))
        if isinstance(e, ast.Call):
            kws = tuple(sorted((k.arg or '**', T(k.value)) for k in e.keywords))
            return ('call', T(e.func), tuple(T(a) for a in e.args), kws)
        if isinstance(e, ast.Compare) and len(e.ops) == 1:
            return ('cmp', type(e.ops[0]).__name__, T(e.left), T(e.comparators[0]))
        if isinstance(e, ast.BoolOp):
            return ('bool', type(e.op).__name__) + tuple(T(v) for v in e.values)
        if isinstance(e, ast.IfExp):
            return ('ifexp', T(e.test), T(e.body), T(e.orelse))
        if isinstance(e, ast.Starred):
            return ('star', T(e.value))
        return ('ast', astx.dump(e))

    def _name(self, name, at, depth):
        ds = self.rd.defs(at, name)
        if not ds:
            return ('name', name)
        alts = set()
        for d in ds:
            alts.add(self._def_term(d, name, depth))
        if len(alts) == 1:
            return next(iter(alts))
        return ('alt', frozenset(alts))

    def _def_term(self, d, name, depth):
        if d is self.g.entry:
            return ('param', name)
        a = d.ast
        if d.kind == 'stmt' and isinstance(a, ast.Assign):
            for tgt in a.targets:
                if isinstance(tgt, ast.Name) and tgt.id == name:
                    return self.term(a.value, d, depth + 1)
                if isinstance(tgt, (ast.Tuple, ast.List)):
                    for i, el in enumerate(tgt.elts):
                        if isinstance(el, ast.Name) and el.id == name:
                            if isinstance(a.value, (ast.Tuple, ast.List)) and \
                                    len(a.value.elts) == len(tgt.elts):
                                return self.term(a.value.elts[i], d, depth + 1)
                            return ('unpack', i, len(tgt.elts), self.term(a.value, d, depth + 1))
        if d.kind == 'stmt' and isinstance(a, ast.AugAssign):
            return ('aug', name)
        if d.kind == 'iter':
            tgt = a.target
            if isinstance(tgt, ast.Name) and tgt.id == name:
                return ('loopvar', 0, 1, self.term(a.iter, d, depth + 1))
            if isinstance(tgt, (ast.Tuple, ast.List)):
                for i, el in enumerate(tgt.elts):
                    if isinstance(el, ast.Name) and el.id == name:
                        return ('loopvar', i, len(tgt.elts), self.term(a.iter, d, depth + 1))
                    if isinstance(el, (ast.Tuple, ast.List)):
                        for j, el2 in enumerate(el.elts):
                            if isinstance(el2, ast.Name) and el2.id == name:
                                return ('loopvar', (i, j), len(tgt.elts), self.term(a.iter, d, depth + 1))
        return ('opaque', name, d.kind)


# ---------------------------------------------------------------------- term utilities
def alts(t):
    """Alternatives of a term: members of an `alt`, both arms of a conditional expression (recursively)."""
    if isinstance(t, tuple) and t and t[0] == 'alt':
        res = set()
        for a in t[1]:
            res |= alts(a)
        return res
    if isinstance(t, tuple) and t and t[0] == 'ifexp':
        return alts(t[2]) | alts(t[3])
    return {t}


def subst(t, f):
    """Bottom-up rewrite of a term with f(term) -> term."""
    if isinstance(t, tuple):
        if t and t[0] == 'alt':
            new = frozenset(subst(x, f) for x in t[1])
            t = next(iter(new)) if len(new) == 1 else ('alt', new)
        else:
            t = tuple(subst(x, f) for x in t)
        return f(t)
    if isinstance(t, frozenset):
        return frozenset(subst(x, f) for x in t)
    return t


def contains(t, pred):
    if pred(t):
        return True
    if isinstance(t, (tuple, frozenset)):
        return any(contains(x, pred) for x in t)
    return False


def attr_path(t):
    """Dotted path of a term made of param/name/attr/call-without-args, else None."""
    if not isinstance(t, tuple) or not t:
        return None
    if t[0] in ('param', 'name'):
        return t[1]
    if t[0] == 'attr':
        p = attr_path(t[1])
        return None if p is None else f'{p}.{t[2]}'
    if t[0] == 'call' and not t[2] and not t[3]:
        p = attr_path(t[1])
        return None if p is None else f'{p}()'
    if t[0] == 'sub' and t[2][0] == 'const':
        p = attr_path(t[1])
        return None if p is None else f'{p}[{t[2][1]!r}]'
    return None


def show(t, limit=90):
    """Compact rendering of a term for messages."""
    def r(t):
        if not isinstance(t, tuple) or not t:
            return repr(t)
        k = t[0]
        if k in ('param', 'name'):
            return t[1]
        if k == 'const':
            return repr(t[1])
        if k == 'attr':
            return f'{r(t[1])}.{t[2]}'
        if k == 'sub':
            return f'{r(t[1])}[{r(t[2])}]'
        if k == 'bin':
            op = {'Add': '+', 'Sub': '-', 'Mult': '*', 'Div': '/'}.get(t[1], t[1])
            return f'({r(t[2])} {op} {r(t[3])})'
        if k == 'call':
            return f'{r(t[1])}({", ".join(r(a) for a in t[2])})'
        if k == 'alt':
            return '{' + ' | '.join(sorted(r(a) for a in t[1])) + '}'
        if k == 'loopvar':
            return f'<loop#{t[1]} of {r(t[3])}>'
        if k == 'unpack':
            return f'<item {t[1]} of {r(t[3])}>'
        if k == 'tuple':
            return '(' + ', '.join(r(a) for a in t[1:]) + ')'
        if k == 'slice':
            return ':'.join('' if a == ('const', None) else r(a) for a in t[1:])
        return k
    s = r(t)
    return s if len(s) <= limit else s[:limit - 3] + '...'
