"""Path linearisation of small function bodies: branch selection, early returns, local aliases.

`paths(stmts, decide)` enumerates the execution paths of a statement list made of straight-line code, `if`
and `return`.  A test for which `decide(test)` answers True/False is followed on that branch only (used to
specialise a body to one derivative mode or one constant parameter value); any other test forks the path and
is recorded in `Path.conds`.  Single-assignment read-only locals are substituted into the statements that use
them, so that

    if mode != 'fwd':            |   if mode == 'fwd':
        w = a[self.i]            |       x.set(b[self.j])
        y.iadd(f(self.j, w))     |   else:
        return                   |       y.iadd(f(self.j, a[self.i]))
    x.set(b[self.j])             |

linearise to the same two statement lists.  Loops, `with` and `try` are opaque statements: they are kept as
they are (names they bind are no longer substituted) and a `return` inside one marks the path `opaque_return`.
Nothing is executed; this is a syntactic normal form.
"""
import ast

from . import astx
from .core import AnalysisError


def _cp(node):
    """Structural copy that keeps expression contexts and positions, drops parent links."""
    if isinstance(node, ast.AST):
        if isinstance(node, ast.expr_context):
            return node
        new = node.__class__()
        for f in node._fields:
            try:
                v = getattr(node, f)
            except AttributeError:
                continue
            setattr(new, f, _cp(v))
        for a in ('lineno', 'col_offset', 'end_lineno', 'end_col_offset'):
            if hasattr(node, a):
                setattr(new, a, getattr(node, a))
        return new
    if isinstance(node, list):
        return [_cp(x) for x in node]
    return node


class _Sub(ast.NodeTransformer):
    def __init__(self, env):
        self.env = env

    def visit_Name(self, n):
        if isinstance(n.ctx, ast.Load) and n.id in self.env:
            return _cp(self.env[n.id])
        return n

    def visit_Lambda(self, n):
        return n

    def visit_ListComp(self, n):
        return self._comp(n)

    visit_SetComp = visit_DictComp = visit_GeneratorExp = visit_ListComp

    def _comp(self, n):
        bound = {x.id for g in n.generators for x in ast.walk(g.target) if isinstance(x, ast.Name)}
        if bound & set(self.env):
            saved = self.env
            self.env = {k: v for k, v in saved.items() if k not in bound}
            try:
                return self.generic_visit(n)
            finally:
                self.env = saved
        return self.generic_visit(n)


def substitutable_locals(stmts, params=()):
    """Local names that are only ever bound by assignment and read (never mutated in place, looped over,
    or used as the receiver of a statement-level method call)."""
    stores = {}
    mutated = set()
    for st in stmts:
        for n in ast.walk(st):
            if isinstance(n, ast.Name) and isinstance(n.ctx, (ast.Store, ast.Del)):
                stores[n.id] = stores.get(n.id, 0) + 1
            elif isinstance(n, (ast.Subscript, ast.Attribute)) and isinstance(n.ctx, (ast.Store, ast.Del)):
                b = n.value
                while isinstance(b, (ast.Subscript, ast.Attribute)):
                    b = b.value
                if isinstance(b, ast.Name):
                    mutated.add(b.id)
            elif isinstance(n, ast.AugAssign):
                b = n.target
                while isinstance(b, (ast.Subscript, ast.Attribute)):
                    b = b.value
                if isinstance(b, ast.Name):
                    mutated.add(b.id)
            elif isinstance(n, ast.Expr) and isinstance(n.value, ast.Call) and \
                    isinstance(n.value.func, ast.Attribute) and isinstance(n.value.func.value, ast.Name):
                mutated.add(n.value.func.value.id)          # `x.method()` statement: may mutate x
            elif isinstance(n, (ast.For, ast.AsyncFor, ast.With, ast.AsyncWith, ast.comprehension)):
                tgt = n.target if hasattr(n, 'target') else None
                for t in ([tgt] if tgt is not None else [i.optional_vars for i in getattr(n, 'items', [])
                                                          if i.optional_vars is not None]):
                    for x in ast.walk(t):
                        if isinstance(x, ast.Name):
                            mutated.add(x.id)
            elif isinstance(n, (ast.Global, ast.Nonlocal)):
                mutated.update(n.names)
            elif isinstance(n, ast.NamedExpr):
                mutated.add(n.target.id)
    return {k for k in stores if k not in mutated and k not in params}


def atom(test):
    """(positive atom expr, polarity) of a test: `not X`, `X is not Y`, `X != Y` flip the polarity."""
    pol = True
    e = test
    while True:
        if isinstance(e, ast.UnaryOp) and isinstance(e.op, ast.Not):
            e, pol = e.operand, not pol
        elif isinstance(e, ast.Compare) and len(e.ops) == 1 and isinstance(e.ops[0], (ast.IsNot, ast.NotEq)):
            op = ast.Is() if isinstance(e.ops[0], ast.IsNot) else ast.Eq()
            e, pol = ast.Compare(left=e.left, ops=[op], comparators=e.comparators), not pol
        else:
            return e, pol


class Path:
    __slots__ = ('conds', 'stmts', 'ret', 'returned', 'opaque_return', 'origs')

    def __init__(self):
        self.conds = ()
        self.stmts = []         # substituted copies of the simple statements executed, in order
        self.origs = []         # the original statement of each entry of stmts (for reports)
        self.ret = None         # substituted return value expression (None for bare return / fall off)
        self.returned = False
        self.opaque_return = False

    def cond_atoms(self):
        """{(access path or dump of the positive atom, truth value on this path)}"""
        out = set()
        for t, v in self.conds:
            e, pol = atom(t)
            out.add((astx.path(e) or astx.dump(e), v == pol))
        return out

    def last_value(self, name):
        """Value expression last assigned to local *name* on this path (None if not assigned)."""
        for st in reversed(self.stmts):
            if isinstance(st, ast.Assign) and any(isinstance(t, ast.Name) and t.id == name for t in st.targets):
                return st.value
        return None

    def calls(self, attr=None):
        out = []
        for st in self.stmts:
            for c in astx.calls(st):
                if attr is None or astx.callee_attr(c) == attr:
                    out.append(c)
        if self.ret is not None:
            for c in astx.calls(self.ret):
                if attr is None or astx.callee_attr(c) == attr:
                    out.append(c)
        return out


_OPAQUE = (ast.For, ast.AsyncFor, ast.While, ast.With, ast.AsyncWith, ast.Try, ast.Match) + \
    ((ast.TryStar,) if hasattr(ast, 'TryStar') else ())


def paths(stmts, decide=None, params=(), max_paths=64, subst=True):
    """Enumerate the paths of *stmts* (see module docstring). Returns [Path]."""
    stmts = astx.strip_doc(list(stmts))
    locs = substitutable_locals(stmts, params) if subst else set()
    done = []

    def bound_names(st):
        return {n.id for n in ast.walk(st) if isinstance(n, ast.Name) and isinstance(n.ctx, (ast.Store, ast.Del))}

    def stored_paths(st):
        out = set()
        for n in ast.walk(st):
            if isinstance(n, (ast.Attribute, ast.Subscript)) and isinstance(n.ctx, (ast.Store, ast.Del)):
                out.add(astx.dump(n))
                if isinstance(n, ast.Subscript):
                    out.add(astx.dump(n.value))
            elif isinstance(n, ast.AugAssign):
                out.add(astx.dump(n.target))
        return out

    def invalidate(st, p, env):
        """Materialise (`x = value`) every alias whose value reads something *st* rebinds or stores to."""
        names, targets = bound_names(st), stored_paths(st)
        if not names and not targets:
            return
        for k in list(env):
            v = env[k]
            hit = k in names
            dep = False
            for n in ast.walk(v):
                if isinstance(n, ast.Name) and n.id in names:
                    dep = True
                elif targets and isinstance(n, (ast.Attribute, ast.Subscript)) and astx.dump(n) in targets:
                    dep = True
            if dep and not hit:
                p.stmts.append(ast.Assign(targets=[ast.Name(id=k, ctx=ast.Store())], value=v,
                                          lineno=getattr(st, 'lineno', 0), col_offset=0))
                p.origs.append(st)
            if dep or hit:
                del env[k]

    def run(todo, p, env):
        while todo:
            st, todo = todo[0], todo[1:]
            if isinstance(st, (ast.Pass, ast.Global, ast.Nonlocal)):
                continue
            if isinstance(st, ast.Expr) and isinstance(st.value, ast.Constant):
                continue
            if isinstance(st, ast.Return):
                p.returned = True
                p.ret = _Sub(env).visit(_cp(st.value)) if st.value is not None else None
                p.origs.append(st)
                p.stmts.append(ast.Return(value=p.ret, lineno=st.lineno, col_offset=st.col_offset))
                done.append(p)
                return
            if isinstance(st, ast.Raise):
                p.returned = True
                p.origs.append(st)
                p.stmts.append(_Sub(env).visit(_cp(st)))
                done.append(p)
                return
            if isinstance(st, ast.If):
                d = decide(st.test) if decide is not None else None
                if d is True:
                    todo = list(st.body) + todo
                    continue
                if d is False:
                    todo = list(st.orelse) + todo
                    continue
                if len(done) > max_paths:
                    raise AnalysisError('too many paths to linearise')
                key = astx.dump(st.test)
                prior = dict((astx.dump(t), v) for t, v in p.conds)
                for branch, val in ((st.body, True), (st.orelse, False)):
                    if prior.get(key, val) != val:
                        continue        # the same test was already decided the other way on this path
                    q = Path()
                    q.conds = p.conds + ((st.test, val),)
                    q.stmts, q.origs = list(p.stmts), list(p.origs)
                    run(list(branch) + todo, q, dict(env))
                return
            if isinstance(st, _OPAQUE) or isinstance(st, (ast.FunctionDef, ast.AsyncFunctionDef, ast.ClassDef)):
                invalidate(st, p, env)
                if any(isinstance(n, ast.Return) for n in astx.walk_stmts([st])):
                    p.opaque_return = True
                p.origs.append(st)
                p.stmts.append(_Sub(env).visit(_cp(st)))
                continue
            if isinstance(st, ast.Assign) and len(st.targets) > 1 and subst and \
                    any(isinstance(t, ast.Name) and t.id in locs for t in st.targets) and \
                    all(isinstance(t, (ast.Name, ast.Attribute)) for t in st.targets):
                # chained `a = self.b = value`: the local becomes an alias, the other targets are still stored
                v = _Sub(env).visit(_cp(st.value))
                invalidate(st, p, env)
                rest = [t for t in st.targets if not (isinstance(t, ast.Name) and t.id in locs)]
                for t in st.targets:
                    if isinstance(t, ast.Name) and t.id in locs:
                        env[t.id] = v
                if rest:
                    p.origs.append(st)
                    p.stmts.append(ast.Assign(targets=[_cp(t) for t in rest], value=_cp(v),
                                              lineno=st.lineno, col_offset=st.col_offset))
                continue
            if isinstance(st, ast.Assign) and len(st.targets) == 1 and subst:
                t = st.targets[0]
                if isinstance(t, ast.Name) and t.id in locs:
                    v = _Sub(env).visit(_cp(st.value))
                    invalidate(st, p, env)
                    env[t.id] = v
                    continue
                if isinstance(t, ast.Tuple) and all(isinstance(e, ast.Name) and e.id in locs for e in t.elts) \
                        and not any(isinstance(n, ast.Call) for n in ast.walk(st.value)):
                    v = _Sub(env).visit(_cp(st.value))
                    invalidate(st, p, env)
                    for i, e in enumerate(t.elts):
                        if isinstance(v, ast.Tuple) and len(v.elts) == len(t.elts):
                            env[e.id] = v.elts[i]
                        else:
                            env[e.id] = ast.Subscript(value=_cp(v), slice=ast.Constant(value=i), ctx=ast.Load())
                    continue
            new = _Sub(env).visit(_cp(st))
            invalidate(st, p, env)
            p.origs.append(st)
            p.stmts.append(new)
        done.append(p)

    run(stmts, Path(), {})
    return done


def mode_paths(fn, is_mode_fwd, fwd, **kw):
    """Paths of fn specialised to derivative mode fwd (True) / rev (False)."""
    def decide(test):
        r = is_mode_fwd(test)
        if r is None:
            return None
        return r == fwd
    params = [a.arg for a in fn.node.args.args + fn.node.args.kwonlyargs]
    return paths(fn.node.body, decide, params=params, **kw)
