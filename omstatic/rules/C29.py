"""C29 -- a value written into a template by InputFileGenerator is read back by FileParser from the
same location as the same value, without disturbing other fields (utils/file_wrap.py).

The helpers involved (`_getformat`, `_SubHelper`, the `TokenConverter` subclasses, the token grammar
built in `FileParser._reset_tokens`, the `transfer_*` / `mark_anchor` methods of both classes) are tiny
first-order functions over str/int/float/list.  Their clauses are therefore decided by *evaluating
their AST* (lib_c29.Interp: a bounded interpreter over the parsed source, with small models of
pyparsing, numpy and file objects -- OpenMDAO, pyparsing and numpy are never imported) over frozen
finite tables: the spellings the formatting language produces, field/row coordinate grids, anchor
scenarios.  A construct outside the interpreted fragment is *undecided*, never a violation; every
violation carries a concrete witness (input, produced text / tokens).
"""
import ast
import math
import re

from .. import astx
from ..engine import rule, describe, selftest, Mutant, Twin
from ..lib_c29 import Interp, NdArr, PyRaise, Unsupported, El, parse_string

FW = 'openmdao/utils/file_wrap.py'

describe('C29',
         'Decides, by bounded concrete interpretation of the AST of utils/file_wrap.py (no import of '
         'OpenMDAO/pyparsing/numpy; models of the pyparsing PEG operators, of np.zeros/array/append and of '
         'file objects), on frozen tables: (total) inf/-inf/nan pass the float formatting path without an '
         'exception and keep their IEEE spelling; (digits) every finite sample is written with >= 16 '
         'significant digits as one field; (fields) _SubHelper replaces exactly the addressed 1-based '
         'field(s), in order, everything else verbatim; (tokens) every spelling the writer emits is read '
         'by the grammar of FileParser._reset_tokens as exactly one token whose converter returns the '
         'written value, neighbours undisturbed; (write) InputFileGenerator.transfer_var/array/2Darray + '
         'generate change exactly the addressed cells of the generated file, all other cells, rows and '
         'line ends byte-identical; (read) FileParser.transfer_var/array/2Darray/keyvar return the cells at the '
         'same (anchor, row, field) coordinates the writer uses; (anchor) both mark_anchor/reset_anchor '
         'resolve every anchor scenario to the same row.  Does not decide arbitrary templates/delimiters '
         '(tables are finite), columns mode, comment characters, or strings that look like numbers.',
         ['host str %-formatting, float(), int(), str(), re have the semantics of the Python the package runs on',
          'pyparsing model: Word/Literal/CaselessLiteral/oneOf/Combine/Optional/OneOrMore/+/| with '
          'per-element whitespace skipping, MatchFirst without backtracking, parseString expands tabs',
          'writer and reader are configured with the same delimiter set'])


# =========================================================================== tables
SPECIALS = [('inf', math.inf), ('-inf', -math.inf), ('nan', math.nan)]

# finite floats: every magnitude/sign/shape class of '%g'-style and fixed output, 16 significant digits
FINITE = [0.1, 1.0 / 3.0, 2.0 / 3.0, 0.1234567890123456, 123456.7890123456, 1234567890123.456, -2.5, 1.5,
          2.5e-07, -2.5e-07, 1.234567890123456e-10, -9.87654321e-05, 1e-10, 1e-05, -1e-10, -3e-09, 5e-324,
          2.2250738585072014e-308, 3.0, -3.0, 0.0, 1e16, 1e22, -1e22, 123456789012345680.0,
          1.7976931348623157e308, 0.30000000000000004, 6.02214076e23, -1.602176634e-19, 299792458.0]
INTS = [0, 7, -7, 42, 123456789012345678901234567890, -98765432109876543210]
STRS = ['abc', 'Hello_1', 'x', 'Zq', 'a.b', 'k=v']


def agree16(got, v):
    """got (number) equals float v to 16 significant digits (nan ~ nan, inf exact, zero ~ zero)."""
    if isinstance(got, bool) or not isinstance(got, (int, float)):
        return False
    if v != v:
        return got != got
    if math.isinf(v):
        return got == v
    if got != got or math.isinf(got):
        return False
    if v == 0:
        return got == 0
    return '%.15e' % float(got) == '%.15e' % v


def same_value(got, v):
    if isinstance(v, float):
        return agree16(got, v)
    if isinstance(v, int):
        return isinstance(got, (int, float)) and not isinstance(got, bool) and got == v
    return isinstance(got, str) and got == v


def ideal(text):
    """Reference reading of one cell text (Python's own literal syntax): int, float or the string."""
    t = text.strip()
    try:
        return int(t)
    except ValueError:
        pass
    try:
        return float(t)
    except ValueError:
        return t


def shape(text, v):
    """Spelling class of a written value (used as stable key)."""
    if isinstance(v, str):
        return 'str'
    t = text.strip().lower()
    neg = 'neg-' if t.startswith('-') else ''
    if isinstance(v, int):
        return neg + 'int'
    if 'inf' in t:
        return neg + 'inf'
    if 'nan' in t:
        return 'nan'
    body = ('exp' if 'e' in t else 'fixed') + ('-dot' if '.' in t else '-nodot')
    return neg + body


def field_matches(line, delim=' '):
    return list(re.finditer('[^' + re.escape(delim) + '\n]+', line))


def cells(line, delim=' '):
    return [m.group() for m in field_matches(line, delim)]


# =========================================================================== plumbing
class Undecided(Exception):
    def __init__(self, u):
        self.u = u


def guard(thunk):
    """('ok', value) | ('raise', PyRaise); Unsupported is turned into Undecided."""
    try:
        return 'ok', thunk()
    except PyRaise as e:
        return 'raise', e
    except Unsupported as u:
        raise Undecided(u)
    except RecursionError:
        raise Undecided(Unsupported(None, 'recursion limit'))


def func_of(repo, node, default):
    """core.Func whose body contains *node*."""
    if node is None:
        return default
    fn = node if isinstance(node, (ast.FunctionDef, ast.AsyncFunctionDef)) else \
        astx.enclosing(node, (ast.FunctionDef, ast.AsyncFunctionDef))
    if fn is None:
        return default
    for f in repo.module(FW).funcs.values():
        if f.node is fn:
            return f
    return default


def report_undecided(repo, out, und, default):
    u = und.u
    out.unsure(func_of(repo, u.node, default), u.node if isinstance(u.node, ast.AST) else None,
               f'outside the interpreted fragment: {u.why}')


def raised_where(repo, e, default):
    f = e.where if e.where is not None else func_of(repo, e.node, default)
    return f, e.node


def helpers_called(fn):
    names = sorted({astx.call_name(c) for c in astx.calls(fn.node) if isinstance(c.func, ast.Name)
                    and c.func.id in fn.module.funcs})
    return (' (helpers called: ' + ', '.join(names) + ')') if names else ''


# ------------------------------------------------------------------ writer leaf paths
def scalar_path(repo, v, loc=2, line='aa bb cc'):
    """Texts returned by _SubHelper.replace for each field of *line* after set(v, loc)."""
    it = Interp(repo, FW)
    sub = it.new('_SubHelper')
    it.method(sub, 'set', v, loc)
    return [it.method(sub, 'replace', m) for m in field_matches(line)]


def array_path(repo, values, start, end, line='aa bb cc dd ee ff'):
    """[texts returned by _SubHelper.replace_array for each field of *line*] after set_array(values, start, end)."""
    it = Interp(repo, FW)
    sub = it.new('_SubHelper')
    it.method(sub, 'set_array', values, start, end)
    return [[it.method(sub, 'replace_array', m) for m in field_matches(line)]]


def as_array(vals):
    if all(isinstance(v, float) for v in vals):
        return NdArr((len(vals),), vals, 'f')
    return list(vals)


def float_text(repo, path, v):
    """Text written for float v on a leaf path ('scalar' | 'array')."""
    if path == 'scalar':
        return scalar_path(repo, v)[1]
    return array_path(repo, as_array([v, 0.5]), 2, 3, 'aa bb cc')[0][1]


PATHS = [('scalar', '_SubHelper.replace'), ('array', '_SubHelper.replace_array')]


# =========================================================================== C29.total
@rule('C29.total', floor=6)
def total(repo, out):
    """inf, -inf and nan pass both float formatting paths (_SubHelper.replace / replace_array ->
    _getformat) without an exception and are spelled so that float() reads the same special value."""
    for path, qn in PATHS:
        fn = repo.func(FW, qn)
        for name, v in SPECIALS:
            try:
                st, r = guard(lambda: float_text(repo, path, v))
            except Undecided as u:
                report_undecided(repo, out, u, fn)
                continue
            if st == 'raise':
                w, node = raised_where(repo, r, fn)
                out.bad(w, node, f'writing float {name} through {qn} raises {r.brief()}: a partial conversion '
                        f'is applied to a non-finite float without a finiteness guard', key=f'nonfinite-{name}-{path}')
                continue
            ok = isinstance(r, str) and len(r.split()) == 1
            if ok:
                try:
                    ok = agree16(float(r), v)
                except ValueError:
                    ok = False
            if ok:
                out.ok(fn, fn.node, f'{name} -> {r!r}')
            else:
                out.bad(fn, fn.node, f'float {name} is written as {r!r}, which is not the spelling of {name}'
                        + helpers_called(fn), key=f'nonfinite-{name}-{path}')
    out.count('special_values', len(SPECIALS) * len(PATHS))


# =========================================================================== C29.digits
@rule('C29.digits', floor=2)
def digits(repo, out):
    """Every finite float sample is written by both formatting paths as one field whose text carries
    the value to >= 16 significant digits (read with float(), i.e. independent of the repo's parser)."""
    for path, qn in PATHS:
        fn = repo.func(FW, qn)
        fails, und = [], None
        for v in FINITE:
            try:
                st, r = guard(lambda: float_text(repo, path, v))
            except Undecided as u:
                und = u
                break
            if st == 'raise':
                w, node = raised_where(repo, r, fn)
                fails.append((w, node, f'{v!r} raises {r.brief()}'))
                continue
            good = isinstance(r, str) and len(r.split()) == 1      # padding blanks are the delimiter's business
            if good:
                try:
                    good = agree16(float(r), v)
                except ValueError:
                    good = False
            if not good:
                fails.append((fn, fn.node, f'{v!r} is written as {r!r}'))
        out.count('finite_samples', len(FINITE))
        if und is not None:
            report_undecided(repo, out, und, fn)
        elif fails:
            w, node, _ = fails[0]
            out.bad(w, node, f'{qn} loses digits / fails for {len(fails)} of {len(FINITE)} finite samples: '
                    + '; '.join(f[2] for f in fails[:4]) + helpers_called(fn), key=f'digits-{path}')
        else:
            out.ok(fn, fn.node, f'{len(FINITE)} finite samples keep 16 significant digits')


# =========================================================================== C29.fields
def _cell_ok(text, v):
    return isinstance(text, str) and same_value(ideal(text), v) and (not isinstance(v, str) or text == v)


@rule('C29.fields', floor=2)
def fields(repo, out):
    """_SubHelper.replace substitutes exactly the 1-based field `location`; replace_array exactly the
    fields start..end (inclusive) with the values in order; every other field is returned verbatim.
    (Continuation of an array over several rows is decided end-to-end by C29.write.)"""
    # ---- scalar
    fn = repo.func(FW, '_SubHelper.replace')
    line = 'aa bb cc dd'
    orig = cells(line)
    try:
        bad = None
        n = 0
        for v in (2.5, 7, 'xyz', -1.25e-07):
            for loc in range(0, len(orig) + 2):
                n += 1
                st, r = guard(lambda: scalar_path(repo, v, loc, line))
                if st == 'raise' and not 1 <= loc <= len(orig):
                    continue      # rejecting a field number outside the line is not a round-trip matter
                if st == 'raise':
                    w, node = raised_where(repo, r, fn)
                    bad = bad or (w, node, f'set({v!r}, {loc}) then replace raises {r.brief()}')
                    continue
                for i, t in enumerate(r):
                    want_new = (i + 1 == loc)
                    if want_new and not _cell_ok(t, v):
                        bad = bad or (fn, fn.node, f'set({v!r}, {loc}): field {i + 1} becomes {t!r} instead of the value')
                    if not want_new and t != orig[i]:
                        bad = bad or (fn, fn.node, f'set({v!r}, {loc}): field {i + 1} ({orig[i]!r}) is disturbed -> {t!r}')
        out.count('scalar_cases', n)
        if bad:
            out.bad(bad[0], bad[1], bad[2] + ' (fields are 1-based; only field `location` may change)',
                    key='scalar-addressing')
        else:
            out.ok(fn, fn.node, f'{n} (value, location) cases: only field `location` changes')
    except Undecided as u:
        report_undecided(repo, out, u, fn)

    # ---- array, one row
    fn = repo.func(FW, '_SubHelper.replace_array')
    line = 'aa bb cc dd ee ff'
    orig = cells(line)
    vals3 = [1.5, 2, 'zz']
    try:
        bad = None
        n = 0
        for values in (vals3, [0.25, -4.5e-06, 8.0, 16.5], [3, 4]):
            for start in range(0, len(orig) + 1):
                for end in list(range(max(start, 1), len(orig) + 1)) + [99999]:
                    n += 1
                    st, r = guard(lambda: array_path(repo, as_array(values), start, end, line))
                    room = len([p for p in range(1, len(orig) + 1) if start <= p <= end])
                    if st == 'raise' and room > len(values):
                        continue  # more addressed fields than values: rejecting is as good as leaving them
                    if st == 'raise':
                        w, node = raised_where(repo, r, fn)
                        bad = bad or (w, node, f'set_array({values!r}, {start}, {end}) then replace_array raises {r.brief()}')
                        continue
                    k = 0
                    for i, t in enumerate(r[0]):
                        p = i + 1
                        if start <= p <= end and k < len(values):
                            if not _cell_ok(t, values[k]):
                                bad = bad or (fn, fn.node, f'set_array({values!r}, {start}, {end}): field {p} becomes '
                                              f'{t!r}, expected element {k} ({values[k]!r})')
                            k += 1
                        elif t != orig[i]:
                            bad = bad or (fn, fn.node, f'set_array({values!r}, {start}, {end}): field {p} '
                                          f'({orig[i]!r}) is disturbed -> {t!r}')
        out.count('array_cases', n)
        if bad:
            out.bad(bad[0], bad[1], bad[2] + ' (fields start..end inclusive, 1-based, values in order)',
                    key='array-addressing')
        else:
            out.ok(fn, fn.node, f'{n} (values, start, end) cases: fields start..end get the values in order')
    except Undecided as u:
        report_undecided(repo, out, u, fn)


# =========================================================================== reader grammar
def make_parser(repo, delim=None, vfs=None):
    it = Interp(repo, FW, vfs)
    p = it.new('FileParser')
    if delim is not None:
        it.method(p, 'set_delimiters', delim)
    return it, p


def grammar_tokens(it, p, line):
    """Tokens of one line according to the grammar the parser object holds."""
    g = it.method(p, '_parse_line')
    if not isinstance(g, El):
        raise Unsupported(None, '_parse_line() does not return a modelled pyparsing element')
    it.conv_log.clear()
    return parse_string(g, line, it)


def overflow_text(repo, v):
    """Spelling used by InputFileGenerator.transfer_array for elements beyond the template row."""
    vfs = {'t': 'K 1\n'}
    it = Interp(repo, FW, vfs)
    g = it.new('InputFileGenerator')
    it.method(g, 'set_template_file', 't')
    it.method(g, 'transfer_array', as_array([v, v]) if isinstance(v, float) else [v, v], 0, 2, 2, sep=' ')
    data = g.attrs.get('_data')
    if not isinstance(data, list) or not data or not isinstance(data[0], str):
        raise Unsupported(None, 'generator line store `_data` not found')
    c = cells(data[0])
    if len(c) != 3:
        raise Unsupported(None, f'overflow row has unexpected form {data[0]!r}')
    return c[2]


def writer_spellings(repo, v):
    """Set of texts the writer can emit for value v (scalar path, array path, overflow path)."""
    outs = {}
    srcs = [('scalar', lambda: scalar_path(repo, v)[1]),
            ('array', lambda: array_path(repo, as_array([v, v]) if isinstance(v, float) else [v, v], 2, 3,
                                         'aa bb cc')[0][1]),
            ('overflow', lambda: overflow_text(repo, v))]
    for name, th in srcs:
        try:
            st, r = guard(th)
        except Undecided:
            continue
        if st == 'ok' and isinstance(r, str) and r.strip() and len(r.split()) == 1:
            outs.setdefault(r, []).append(name)
    if not outs:   # writer side is broken/undecided (reported by total/digits): use the documented format
        outs[('%.16g' % v) if isinstance(v, float) else str(v)] = ['documented format']
    return outs


DELIMS = [None, ', ']


@rule('C29.tokens', floor=12)
def tokens(repo, out):
    """Every spelling the writer emits (per sign / special / fixed / exponent / with or without
    decimal point / int / plain string class) is tokenised by the grammar of FileParser._reset_tokens
    as exactly ONE token between its neighbours and the converter returns the written value."""
    rt = repo.func(FW, 'FileParser._reset_tokens')
    classes = {}     # shape -> list of (value, text, sources)
    for v in [s[1] for s in SPECIALS] + FINITE + INTS + STRS:
        for text, srcs in writer_spellings(repo, v).items():
            classes.setdefault(shape(text, v), []).append((v, text, srcs))
    try:
        st, parsers = guard(lambda: [(d, make_parser(repo, d)) for d in DELIMS])
    except Undecided as u:
        report_undecided(repo, out, u, rt)
        return
    if st == 'raise':
        w, node = raised_where(repo, parsers, rt)
        out.bad(w, node, f'building the token grammar (FileParser() / set_delimiters) raises {parsers.brief()}',
                key='grammar-construction')
        return
    n = 0
    for shp in sorted(classes):
        fail = None
        und = None
        for v, text, srcs in classes[shp]:
            for d, (it, p) in parsers:
                sep = ' ' if d is None else ', '
                line = 'k' + sep + text + sep + '7.5\n'
                n += 1
                try:
                    st, toks = guard(lambda: grammar_tokens(it, p, line))
                except Undecided as u:
                    und = und or u
                    continue
                if st == 'raise':
                    w, node = raised_where(repo, toks, rt)
                    fail = fail or (w, node, f'{text!r} ({v!r}): tokenising {line!r} raises {toks.brief()}')
                    continue
                # conv_log: one entry per converter call; 'k' is plain text, '7.5' is the last entry
                conv = it.conv_log[0] if len(toks) == 3 and len(it.conv_log) == 2 else None
                if len(toks) != 3 or toks[0] != 'k' or toks[2] != 7.5:
                    node, hint = rt.node, ''
                    if text[:1] in '+-' and fail is None:   # which alternative takes the unsigned spelling?
                        try:
                            st2, t2 = guard(lambda: grammar_tokens(it, p, 'k' + sep + text[1:] + sep + '7.5\n'))
                        except Undecided:
                            st2, t2 = None, None
                        if st2 == 'ok' and len(t2) == 3 and len(it.conv_log) == 2 and same_value(t2[1], abs(v)):
                            el = it.conv_log[0][2]
                            stmt = astx.stmt_of(el.node) if el.node is not None else None
                            if stmt is not None:
                                node = stmt
                                hint = (f'; the unsigned spelling {text[1:]!r} is accepted by `{astx.src(stmt, 120)}`, '
                                        f'which has no optional sign')
                    fail = fail or (rt, node, f'{text!r} (written for {v!r} by {"/".join(srcs)}) is tokenised as '
                                    f'{toks[1:-1] if len(toks) > 2 else toks!r} in {line!r} -> {toks!r}: not one token, '
                                    f'the following fields shift' + hint)
                elif not same_value(toks[1], v):
                    w, how = rt, ' (no numeric alternative of the grammar accepts it: it falls through to plain text)'
                    if conv is not None:
                        how = f' by converter {conv[0]} from token(s) {conv[1]!r}'
                        if len(conv[1]) == 1 and conv[1][0] == text:   # tokenised correctly, converted wrongly
                            w = repo.try_func(FW, f'{conv[0]}.postParse') or rt
                    fail = fail or (w, w.node, f'{text!r} (written for {v!r} by {"/".join(srcs)}) is read back as '
                                    f'{toks[1]!r}' + how)
        if und is not None and fail is None:
            report_undecided(repo, out, und, rt)
        elif fail:
            out.bad(fail[0], fail[1], f'spelling class {shp}: ' + fail[2], key=f'spelling-{shp}')
        else:
            ex = classes[shp][0]
            out.ok(rt, rt.node, f'spelling class {shp} ({len(classes[shp])} spellings, e.g. {ex[1]!r}) -> one token, same value')
    out.count('lines_tokenised', n)


# =========================================================================== C29.write
TEMPLATE = ('title line\n'
            'A1 1 2 3\n'
            'mid x y z\n'
            'A2 10 20 30 40\n'
            'tail 5 6\n'
            'A1 7 8 9\n'
            'end\n')
TEMPLATE_Z = ('head\n'
              'Z 0 0 0\n'
              '0 0 0 0\n'
              '0 0 0 0\n'
              '0 0 0 0\n'
              'foot\n')
TEMPLATE_C = ('title, line\n'
              'A1, 1, 2, 3\n'
              'A2, 10, 20, 30\n'
              'end\n')


def arr2(rows):
    return NdArr((len(rows), len(rows[0])), [x for r in rows for x in r], 'f')


# name, template, delimiter, anchor ops, transfers [(method, args, kwargs)], expected {(row, field): value}
# rows are 0-based file rows, fields 1-based; `+` in the key marks appended cells.
WRITE_CASES = [
    ('var-no-anchor', TEMPLATE, None, [], [('transfer_var', (2.5, 4, 2), {}), ('transfer_var', (-0.125, 0, 2), {})],
     {(4, 2): 2.5, (0, 2): -0.125}),
    ('var-at-anchor', TEMPLATE, None, [('A2', 1)], [('transfer_var', (2.5, 0, 3), {})], {(3, 3): 2.5}),
    ('var-rows-around-anchor', TEMPLATE, None, [('A2', 1)],
     [('transfer_var', (-7, 1, 2), {}), ('transfer_var', ('abc', -1, 4), {}), ('transfer_var', (1.5e-07, 0, 1), {})],
     {(4, 2): -7, (2, 4): 'abc', (3, 1): 1.5e-07}),
    ('var-second-occurrence', TEMPLATE, None, [('A1', 2)], [('transfer_var', (0.1, 0, 4), {})], {(5, 4): 0.1}),
    ('var-last-occurrence', TEMPLATE, None, [('A1', -1)], [('transfer_var', (12, 1, 1), {})], {(6, 1): 12}),
    ('var-specials', TEMPLATE, None, [('A2', 1)],
     [('transfer_var', (math.inf, 0, 2), {}), ('transfer_var', (-math.inf, 0, 3), {}), ('transfer_var', (math.nan, 0, 5), {})],
     {(3, 2): math.inf, (3, 3): -math.inf, (3, 5): math.nan}),
    ('var-comma-delimiter', TEMPLATE_C, ', ', [('A2', 1)], [('transfer_var', (2.5, 0, 3), {}), ('transfer_var', (-3, -1, 2), {})],
     {(2, 3): 2.5, (1, 2): -3}),
    ('array-exact-fit', TEMPLATE, None, [('A2', 1)], [('transfer_array', ([1.5, 2.25, 1.0 / 3.0], 0, 2, 4), {})],
     {(3, 2): 1.5, (3, 3): 2.25, (3, 4): 1.0 / 3.0}),
    ('array-wraps-rows', TEMPLATE, None, [('mid', 1)],
     [('transfer_array', ([1.5, 2.5, 3.5, 4.5, 5.5, 6.5, 7.5, 8.5], 0, 3, 1), {'row_end': 2})],
     {(2, 3): 1.5, (2, 4): 2.5, (3, 1): 3.5, (3, 2): 4.5, (3, 3): 5.5, (3, 4): 6.5, (3, 5): 7.5, (4, 1): 8.5}),
    ('array-specials', TEMPLATE, None, [('A2', 1)], [('transfer_array', ([math.inf, -math.inf, math.nan, 0.5], 0, 2, 5), {})],
     {(3, 2): math.inf, (3, 3): -math.inf, (3, 4): math.nan, (3, 5): 0.5}),
    ('array-overflow-last-row', TEMPLATE[:-1], None, [('end', 1)],
     [('transfer_array', ([1.5, 2.5, 1.0 / 3.0], 0, 1, 1), {'sep': ' '})], {(6, 1): 1.5, (6, 2, '+'): 2.5, (6, 3, '+'): 1.0 / 3.0}),
    ('array-overflow-inner-row', TEMPLATE, None, [('tail', 1)],
     [('transfer_array', ([1.5, 2.5, 0.1, -4.0], 0, 2, 3), {'sep': ' '})],
     {(4, 2): 1.5, (4, 3): 2.5, (4, 4, '+'): 0.1, (4, 5, '+'): -4.0}),
    ('array2d', TEMPLATE, None, [('A1', 1)], [('transfer_2Darray', ([[1.5, 2.5, 3.5], [4.5, 5.5, 6.5]], 0, 1, 2, 4), {})],
     {(1, 2): 1.5, (1, 3): 2.5, (1, 4): 3.5, (2, 2): 4.5, (2, 3): 5.5, (2, 4): 6.5}),
    ('array-wraps-identical-rows', TEMPLATE_Z, None, [('Z', 1)],
     [('transfer_array', ([1.5, 2.5, 3.5, 4.5, 5.5, 6.5, 7.5, 8.5, 9.5, 10.5], 1, 2, 3), {'row_end': 3})],
     {(2, 2): 1.5, (2, 3): 2.5, (2, 4): 3.5, (3, 1): 4.5, (3, 2): 5.5, (3, 3): 6.5, (3, 4): 7.5, (4, 1): 8.5, (4, 2): 9.5, (4, 3): 10.5}),
    ('array2d-identical-rows', TEMPLATE_Z, None, [('Z', 1)],
     [('transfer_2Darray', ([[1.5, 2.5], [3.5, 4.5], [5.5, 6.5]], 1, 3, 2, 3), {})],
     {(2, 2): 1.5, (2, 3): 2.5, (3, 2): 3.5, (3, 3): 4.5, (4, 2): 5.5, (4, 3): 6.5}),
    ('array2d-offset', TEMPLATE, None, [('mid', 1)], [('transfer_2Darray', ([[1.5, 2.5], [3.5, 4.5], [5.5, 6.5]], 1, 3, 2, 3), {})],
     {(3, 2): 1.5, (3, 3): 2.5, (4, 2): 3.5, (4, 3): 4.5, (5, 2): 5.5, (5, 3): 6.5}),
]

_METHOD_OF_CASE = {'transfer_var': 'InputFileGenerator.transfer_var', 'transfer_array': 'InputFileGenerator.transfer_array',
                   'transfer_2Darray': 'InputFileGenerator.transfer_2Darray'}


def run_writer(repo, template, delim, anchors, transfers):
    vfs = {'template.in': template}
    it = Interp(repo, FW, vfs)
    g = it.new('InputFileGenerator')
    it.method(g, 'set_template_file', 'template.in')
    it.method(g, 'set_generated_file', 'generated.in')
    if delim is not None:
        it.method(g, 'set_delimiters', delim)
    for a, occ in anchors:
        it.method(g, 'mark_anchor', a, occ)
    for meth, args, kw in transfers:
        args = list(args)
        if meth == 'transfer_array':
            args[0] = as_array(args[0])
        elif meth == 'transfer_2Darray':
            args[0] = arr2(args[0])
        it.method(g, meth, *args, **kw)
    it.method(g, 'generate')
    if 'generated.in' not in vfs:
        raise Unsupported(None, 'generate() did not write the generated file')
    return vfs['generated.in']


def compare_grid(template, produced, delim, expected):
    """None if *produced* equals the template except for the expected cells, else a message."""
    d = ' ' if delim is None else delim
    # a final line end gained or lost at the very end of the file does not move any cell
    tl = (template[:-1] if template.endswith('\n') else template).split('\n')
    pl = (produced[:-1] if produced.endswith('\n') else produced).split('\n')
    if len(tl) != len(pl):
        r = next((i for i, (t, p) in enumerate(zip(tl, pl)) if cells(t, d)[:1] != cells(p, d)[:1] or
                  (i + 1 < len(tl) and tl[i + 1] and p.endswith(tl[i + 1]) and not t.endswith(tl[i + 1]))), None)
        at = f'; row {r} of the generated file is {pl[r]!r} (template rows {tl[r]!r} and {tl[r + 1]!r})' \
            if r is not None and r + 1 < len(tl) else ''
        return (f'the generated file has {len(pl)} rows, the template {len(tl)}: the line end of an '
                f'addressed row is lost and the next row is appended to it' + at if len(pl) < len(tl) else
                f'the generated file has {len(pl)} rows, the template {len(tl)}: rows were split '
                f'(generated text {produced!r})')
    touched_rows = {k[0] for k in expected}
    for r, (t, p) in enumerate(zip(tl, pl)):
        if r not in touched_rows:
            if t != p:
                return f'row {r} ({t!r}) is not addressed but becomes {p!r}'
            continue
        tc, pc = cells(t, d), cells(p, d)
        extra = sorted(k[1] for k in expected if k[0] == r and len(k) == 3)
        if len(pc) != len(tc) + len(extra):
            return f'row {r}: {len(pc)} fields in {p!r}, expected {len(tc) + len(extra)}'
        for i, c in enumerate(pc):
            key = (r, i + 1) if i < len(tc) else (r, i + 1, '+')
            if key in expected:
                if not same_value(ideal(c), expected[key]):
                    return f'row {r} field {i + 1} holds {c!r}, expected the written value {expected[key]!r} (row {p!r})'
            elif i >= len(tc) or c != tc[i]:
                return f'row {r} field {i + 1} ({tc[i] if i < len(tc) else None!r}) is not addressed but becomes {c!r} (row {p!r})'
    return None


@rule('C29.write', floor=16)
def write(repo, out):
    """InputFileGenerator: mark_anchor + transfer_var / transfer_array / transfer_2Darray + generate put
    each value into the cell (anchor row + row, field) of the generated file and leave every other
    cell, row and line end exactly as in the template (incl. arrays longer than the template row)."""
    for name, template, delim, anchors, transfers, expected in WRITE_CASES:
        fn = repo.func(FW, _METHOD_OF_CASE[transfers[0][0]])
        try:
            st, r = guard(lambda: run_writer(repo, template, delim, anchors, transfers))
        except Undecided as u:
            report_undecided(repo, out, u, fn)
            continue
        if st == 'raise':
            w, node = raised_where(repo, r, fn)
            out.bad(w, node, f'scenario {name}: {r.brief()} raised while writing '
                    f'{[(m, a[1:]) for m, a, _ in transfers]!r}', key=f'write-{name}')
            continue
        msg = compare_grid(template, r, delim, expected)
        if msg:
            out.bad(fn, fn.node, f'scenario {name} ({", ".join(m + repr(tuple(a[1:])) for m, a, _ in transfers)} at '
                    f'anchor {anchors!r}): {msg}', key=f'write-{name}')
        else:
            out.ok(fn, fn.node, f'scenario {name}: {len(expected)} addressed cell(s) hold the values, rest identical')


# =========================================================================== C29.read
DATAFILE = ('title line\n'
            'A1 1 2.5 -3\n'
            'mid x 4.25e-07 z\n'
            'A2 10 20.5 30 40\n'
            'tail 5 6 7 8\n'
            'A1 7 8 9\n'
            'B 1.5 2 3 4\n'
            '5 6.25 7 8 9\n'
            '10 11 12.5 13 14\n'
            'end\n'
            'R 1.5 2.5 3.5\n'        # block of rows with identical text: a row must be told apart by its
            '7 8.5 9 10\n'           # position, never by its content
            '7 8.5 9 10\n'
            '7 8.5 9 10\n'
            'stop\n')
DATAFILE_C = ('title, line\n'
              'A1, 1, 2.5, -3\n'
              'A2, 10, 20.5, abc\n'
              '5, 6.25, 7\n'
              'end\n')


def grid_of(text, delim):
    d = ' ' if delim is None else delim
    return [[ideal(c) for c in cells(ln, d)] for ln in text.split('\n')]


def box(g, r0, r1, f0, f1):
    return [g[r][f0 - 1:f1] for r in range(r0, r1 + 1)]


def wrap(g, r0, f0, r1, f1):
    o = []
    for r in range(r0, r1 + 1):
        row = g[r]
        lo = f0 - 1 if r == r0 else 0
        hi = f1 if r == r1 else len(row)
        o += row[lo:hi]
    return o


_G = grid_of(DATAFILE, None)
_GC = grid_of(DATAFILE_C, ', ')

# name, file, delimiter, anchors, method, args, kwargs, expected
READ_CASES = [
    ('var-no-anchor', DATAFILE, None, [], 'transfer_var', (4, 3), {}, _G[4][2]),
    ('var-no-anchor-first-row', DATAFILE, None, [], 'transfer_var', (0, 2), {}, 'line'),
    ('var-at-anchor', DATAFILE, None, [('A2', 1)], 'transfer_var', (0, 3), {}, _G[3][2]),
    ('var-first-field', DATAFILE, None, [('A2', 1)], 'transfer_var', (0, 1), {}, 'A2'),
    ('var-row-below', DATAFILE, None, [('A2', 1)], 'transfer_var', (1, 5), {}, _G[4][4]),
    ('var-row-above', DATAFILE, None, [('A2', 1)], 'transfer_var', (-1, 3), {}, _G[2][2]),
    ('var-string', DATAFILE, None, [('A2', 1)], 'transfer_var', (-1, 2), {}, 'x'),
    ('var-second-occurrence', DATAFILE, None, [('A1', 2)], 'transfer_var', (0, 4), {}, _G[5][3]),
    ('var-last-occurrence', DATAFILE, None, [('A1', -1)], 'transfer_var', (1, 2), {}, _G[6][1]),
    ('var-comma-delimiter', DATAFILE_C, ', ', [('A2', 1)], 'transfer_var', (0, 3), {}, _GC[2][2]),
    ('var-comma-string', DATAFILE_C, ', ', [('A2', 1)], 'transfer_var', (0, 4), {}, 'abc'),
    ('var-comma-row-below', DATAFILE_C, ', ', [('A2', 1)], 'transfer_var', (1, 2), {}, _GC[3][1]),
    ('array-one-row', DATAFILE, None, [('A2', 1)], 'transfer_array', (0, 2, 0, 4), {}, wrap(_G, 3, 2, 3, 4)),
    ('array-one-row-default-rowend', DATAFILE, None, [('A2', 1)], 'transfer_array', (0, 3), {'fieldend': 5}, wrap(_G, 3, 3, 3, 5)),
    ('array-wraps-rows', DATAFILE, None, [('B', 1)], 'transfer_array', (0, 3, 2, 2), {}, wrap(_G, 6, 3, 8, 2)),
    ('array-wraps-two-rows', DATAFILE, None, [('B', 1)], 'transfer_array', (1, 2, 2, 4), {}, wrap(_G, 7, 2, 8, 4)),
    ('array-comma', DATAFILE_C, ', ', [('A1', 1)], 'transfer_array', (0, 2, 0, 4), {}, wrap(_GC, 1, 2, 1, 4)),
    ('array2d-box', DATAFILE, None, [('B', 1)], 'transfer_2Darray', (1, 2, 2, 4), {}, box(_G, 7, 8, 2, 4)),
    ('array2d-to-line-end', DATAFILE, None, [('B', 1)], 'transfer_2Darray', (1, 3, 2), {}, box(_G, 7, 8, 3, 5)),
    ('array2d-three-rows', DATAFILE, None, [('B', 1)], 'transfer_2Darray', (0, 2, 2, 5), {}, box(_G, 6, 8, 2, 5)),
    ('array-wraps-identical-rows', DATAFILE, None, [('R', 1)], 'transfer_array', (1, 2, 3, 3), {}, wrap(_G, 11, 2, 13, 3)),
    ('array-wraps-from-anchor-identical-rows', DATAFILE, None, [('R', 1)], 'transfer_array', (0, 3, 2, 2), {}, wrap(_G, 10, 3, 12, 2)),
    ('array2d-identical-rows', DATAFILE, None, [('R', 1)], 'transfer_2Darray', (1, 2, 3, 3), {}, box(_G, 11, 13, 2, 3)),
    ('array2d-identical-rows-to-line-end', DATAFILE, None, [('R', 1)], 'transfer_2Darray', (1, 2, 3), {}, box(_G, 11, 13, 2, 4)),
    # transfer_keyvar(key, field, occurrence, rowoffset) is documented as mark_anchor(key, occurrence) +
    # transfer_var(rowoffset, field + 1) (field 0 is the key itself)
    ('keyvar-first', DATAFILE, None, [], 'transfer_keyvar', ('A2', 2), {}, _G[3][2]),
    ('keyvar-second-occurrence', DATAFILE, None, [], 'transfer_keyvar', ('A1', 3), {'occurrence': 2}, _G[5][3]),
    ('keyvar-last-occurrence', DATAFILE, None, [], 'transfer_keyvar', ('A1', 3), {'occurrence': -1}, _G[5][3]),
    ('keyvar-rowoffset', DATAFILE, None, [], 'transfer_keyvar', ('A2', 2), {'rowoffset': 1}, _G[4][2]),
    ('keyvar-after-anchor', DATAFILE, None, [('mid', 1)], 'transfer_keyvar', ('A1', 3), {}, _G[5][3]),
    ('keyvar-last-occurrence-after-anchor', DATAFILE, None, [('mid', 1)], 'transfer_keyvar', ('A1', 3), {'occurrence': -1}, _G[5][3]),
]


def run_reader(repo, text, delim, anchors, meth, args, kw):
    vfs = {'data.out': text}
    it = Interp(repo, FW, vfs)
    p = it.new('FileParser')
    it.method(p, 'set_file', 'data.out')
    if delim is not None:
        it.method(p, 'set_delimiters', delim)
    for a, occ in anchors:
        it.method(p, 'mark_anchor', a, occ)
    r = it.method(p, meth, *args, **kw)
    return r.tolist() if isinstance(r, NdArr) else r


def same_struct(got, want):
    if isinstance(want, list):
        return isinstance(got, list) and len(got) == len(want) and all(same_struct(g, w) for g, w in zip(got, want))
    if isinstance(want, float) or isinstance(want, int):
        return isinstance(got, (int, float)) and not isinstance(got, bool) and \
            (agree16(got, float(want)) if isinstance(want, float) else got == want)
    return got == want


@rule('C29.read', floor=30)
def read(repo, out):
    """FileParser: set_file + mark_anchor + transfer_var / transfer_array / transfer_2Darray /
    transfer_keyvar return the cells at (anchor row + row, field), 1-based inclusive field ranges,
    row-wrapping arrays, 2-D boxes -- the same coordinates InputFileGenerator writes to."""
    for name, text, delim, anchors, meth, args, kw, want in READ_CASES:
        fn = repo.func(FW, f'FileParser.{meth}')
        try:
            st, r = guard(lambda: run_reader(repo, text, delim, anchors, meth, args, kw))
        except Undecided as u:
            report_undecided(repo, out, u, fn)
            continue
        call = f'{meth}{args!r}' + (f' {kw!r}' if kw else '') + (f' after mark_anchor{anchors[0]!r}' if anchors else ' (no anchor)')
        if st == 'raise':
            w, node = raised_where(repo, r, fn)
            out.bad(w, node, f'scenario {name}: {call} raises {r.brief()}', key=f'read-{name}')
        elif not same_struct(r, want):
            out.bad(fn, fn.node, f'scenario {name}: {call} returns {r!r}, but the cells at those coordinates hold {want!r}',
                    key=f'read-{name}')
        else:
            out.ok(fn, fn.node, f'scenario {name}: {call} -> {r!r}')


# =========================================================================== C29.anchor
ANCHOR_FILE = ('start\n'
               'K one K two\n'
               'x\n'
               'K three\n'
               'y K\n'
               'K\n'
               'end K tail K\n')
# op = (anchor, occurrence) | 'reset'; expected trace of anchor rows ('not found' = the search raises).  The table is
# today's behaviour of BOTH classes (confirmed by hand and against the running code); it is only used to
# say which side moved when the two sides disagree.
ANCHOR_CASES = [
    ([('K', 1)], [1]),
    ([('K', 2)], [3]),
    ([('K', 3)], [4]),
    ([('K', -1)], [6]),
    ([('K', -2)], [5]),
    ([('K', -3)], [4]),
    ([('K', 1), ('K', 1)], [1, 3]),
    ([('K', 1), ('K', 2)], [1, 4]),
    ([('K', 2), ('K', -1)], [3, 5]),
    ([('K', -1), ('K', -1)], [6, 5]),
    ([('K', 1), ('K', -2)], [1, 4]),
    ([('K', 2), 'reset', ('K', 1)], [3, 0, 1]),
    ([('K', 2), 'reset', ('start', 1)], [3, 0, 0]),
    ([('K', -1), 'reset', ('K', -1)], [6, 0, 6]),
    ([('x', 1), ('K', 1)], [2, 3]),
    ([('end', 1), ('K', 1)], [6, 'not found']),
    ([('tail', 1), ('x', 1)], [6, 'not found']),
    ([('zzz', 1)], ['not found']),
    ([('K', 9)], ['not found']),
    ([('K', -9)], ['not found']),
    ([('start', 1), ('end', 1), ('start', -1)], [0, 6, 0]),
    ([('y', 1), ('K', 1), ('K', 1)], [4, 5, 6]),
]


def run_anchor(repo, cls, loader, ops):
    vfs = {'f': ANCHOR_FILE}
    it = Interp(repo, FW, vfs)
    o = it.new(cls)
    it.method(o, loader, 'f')
    trace = []
    for op in ops:
        try:
            if op == 'reset':
                it.method(o, 'reset_anchor')
            else:
                it.method(o, 'mark_anchor', op[0], op[1])
        except PyRaise:
            trace.append('not found')
            break
        if not isinstance(o.attrs.get('_current_row'), int):
            raise Unsupported(None, f'{cls} keeps its anchor row in an attribute other than _current_row')
        trace.append(o.attrs['_current_row'])
    return trace


@rule('C29.anchor', floor=22)
def anchor(repo, out):
    """InputFileGenerator.mark_anchor/reset_anchor and FileParser.mark_anchor/reset_anchor resolve every
    anchor scenario (forward/backward occurrence, continuation from an anchored row, mid-line
    anchors, reset, errors) to the same row: the writer's and the reader's `location` coincide."""
    wf = repo.func(FW, 'InputFileGenerator.mark_anchor')
    rf = repo.func(FW, 'FileParser.mark_anchor')
    for ops, want in ANCHOR_CASES:
        try:
            tw = run_anchor(repo, 'InputFileGenerator', 'set_template_file', ops)
            tr = run_anchor(repo, 'FileParser', 'set_file', ops)
        except Unsupported as u:
            report_undecided(repo, out, Undecided(u), rf)
            continue
        if tw == tr:
            out.ok(rf, rf.node, f'{ops!r} -> {tr!r} on both sides')
            continue
        # blame the side that left today's (hand-confirmed) behaviour
        first = next((i for i, (a, b) in enumerate(zip(tw, tr)) if a != b), min(len(tw), len(tr)))
        meth = 'reset_anchor' if first < len(ops) and ops[first] == 'reset' else 'mark_anchor'
        blame = [c for c, t in (('InputFileGenerator', tw), ('FileParser', tr)) if t != want] or ['FileParser']
        for c in blame:
            f = repo.func(FW, f'{c}.{meth}')
            out.bad(f, f.node, f'anchor scenario {ops!r}: InputFileGenerator resolves to {tw!r}, FileParser to {tr!r} '
                    f'(anchor row after each step): a value written relative to this anchor is read from a different row',
                    key='anchor-' + '-'.join('reset' if o == 'reset' else f'{o[0]}{o[1]}' for o in ops))


# =========================================================================== self-test
_GF = '    if np.isfinite(val) and int(val) == val:\n        return "%.1f"\n    else:\n        return "%.16g"\n'
_REPL_FLOAT = '                return _getformat(self._newtext) % self._newtext\n'
_ARR_FLOAT = '                newval = _getformat(val) % val\n'
_ARR_GUARD = ('        if self._current_location >= self._start_location and \\\n'
              '           self._current_location <= self._end_location and \\\n'
              '           self._counter < end:\n')
_NAN = ('        nan = (_ToInf(oneOf("Inf -Inf inf -inf")) |\n'
        '               _ToNan(oneOf("NaN nan NaN%  NaNQ NaNS qNaN sNaN 1.#SNAN 1.#QNAN -1.#IND")))\n')
_LINE_TOKEN = '(OneOrMore((nan | num_float | mixed_exp | num_int | string_text)))'
_WVAR = ('        j = self._current_row + row\n        line = self._data[j]\n\n        sub = _SubHelper()\n'
         '        sub.set(value, field)\n        newline = re.sub(self._reg, sub.replace, line)\n\n        self._data[j] = newline\n')
_RVAR_TAIL = '            data = self._parse_line().parseString(line)\n            return data[field - 1]\n'
_R_ARR = ('                if i == j2 - j1 - 1:\n'
          '                    data = np.append(data, np.array(parsed[(fieldstart - 1):fieldend]))\n'
          '                else:\n'
          '                    data = np.append(data, np.array(parsed[(fieldstart - 1):]))\n\n'
          '                fieldstart = 1\n')
_FWD = ('                if count == 0 and self._anchored:\n                    line = line.split(anchor)[-1]\n')

selftest(
    'C29',
    # ---- total (F10, writer side)
    Mutant('total-prefix-unguarded-int', FW, 'if np.isfinite(val) and int(val) == val:', 'if int(val) == val:', 'C29.total'),
    Mutant('total-guard-after-int', FW, 'if np.isfinite(val) and int(val) == val:', 'if int(val) == val and np.isfinite(val):', 'C29.total'),
    Mutant('total-guard-isnan-only', FW, 'if np.isfinite(val) and int(val) == val:', 'if not np.isnan(val) and int(val) == val:', 'C29.total'),
    Mutant('total-guard-or', FW, 'if np.isfinite(val) and int(val) == val:', 'if np.isfinite(val) or int(val) == val:', 'C29.total'),
    Mutant('total-array-path-inlined-unguarded', FW, _ARR_FLOAT,
           '                newval = ("%.1f" if int(val) == val else "%.16g") % val\n', 'C29.total'),
    Mutant('total-nonfinite-spelled-by-repr-of-int-branch', FW, _GF,
           '    if val != val or int(abs(val) > 1e308):\n        return "%.1e"\n'
           '    if int(val) == val:\n        return "%.1f"\n    else:\n        return "%.16g"\n', None),
    # ---- digits
    Mutant('digits-15', FW, 'return "%.16g"', 'return "%.15g"', 'C29.digits'),
    Mutant('digits-plain-g', FW, 'return "%.16g"', 'return "%g"', 'C29.digits'),
    Mutant('digits-branches-swapped', FW, _GF,
           '    if np.isfinite(val) and int(val) == val:\n        return "%.16g"\n    else:\n        return "%.1f"\n', 'C29.digits'),
    Mutant('digits-fixed-16f', FW, 'return "%.16g"', 'return "%.16f"', 'C29.digits'),
    Mutant('digits-near-integer-tolerance', FW, 'if np.isfinite(val) and int(val) == val:',
           'if np.isfinite(val) and abs(int(val) - val) < 1e-9:', 'C29.digits'),
    Mutant('digits-scalar-path-own-format', FW, _REPL_FLOAT, "                return '%.12g' % self._newtext\n", 'C29.digits'),
    # ---- fields
    Mutant('fields-scalar-ge', FW, 'if self._current_location == self._replace_location:',
           'if self._current_location >= self._replace_location:', 'C29.fields'),
    Mutant('fields-scalar-no-advance', FW,
           '        self._current_location += 1\n\n        if self._current_location == self._replace_location:',
           '        if self._current_location == self._replace_location:', 'C29.fields'),
    Mutant('fields-scalar-zero-based', FW,
           '        self._current_location += 1\n\n        if self._current_location == self._replace_location:\n'
           '            if isinstance(self._newtext, float):\n' + _REPL_FLOAT +
           '            else:\n                return str(self._newtext)\n        else:\n            return text.group()\n',
           '        here = self._current_location\n        self._current_location += 1\n\n        if here == self._replace_location:\n'
           '            if isinstance(self._newtext, float):\n' + _REPL_FLOAT +
           '            else:\n                return str(self._newtext)\n        else:\n            return text.group()\n', 'C29.fields'),
    Mutant('fields-array-start-exclusive', FW, 'if self._current_location >= self._start_location and',
           'if self._current_location > self._start_location and', 'C29.fields'),
    Mutant('fields-array-end-exclusive', FW, 'self._current_location <= self._end_location and',
           'self._current_location < self._end_location and', 'C29.fields'),
    Mutant('fields-array-counter-stuck', FW, '            self._counter += 1\n            return newval\n', '            return newval\n', 'C29.fields'),
    Mutant('write-array-position-not-restarted', FW,
           '        self._end_location = end_location\n        self._current_location = 0\n',
           '        self._end_location = end_location\n', 'C29.write'),
    Mutant('fields-array-untouched-stripped', FW,
           '            self._counter += 1\n            return newval\n        else:\n            return text.group()\n',
           '            self._counter += 1\n            return newval\n        else:\n            return text.group()[:-1]\n', 'C29.fields'),
    Mutant('fields-strings-written-with-repr', FW, '                return str(self._newtext)\n', '                return repr(self._newtext)\n', 'C29.fields'),
    # ---- tokens (F10, reader side, and grammar edits)
    Mutant('tokens-string-charset-narrowed', FW, 'string_text = Word(textchars)', 'string_text = Word(alphanums)', 'C29.tokens'),
    Mutant('tokens-dotless-exponent-alternative-dropped', FW, _LINE_TOKEN, '(OneOrMore((nan | num_float | num_int | string_text)))', 'C29.tokens'),
    Mutant('tokens-plus-sign-unknown', FW, 'sign = oneOf("+ -")', 'sign = oneOf("-")', 'C29.tokens'),
    Mutant('tokens-prefix-no-lowercase-inf', FW, 'oneOf("Inf -Inf inf -inf")', 'oneOf("Inf -Inf")', 'C29.tokens'),
    Mutant('tokens-prefix-inf-sign-dropped', FW, '        return float(tokenlist[0])\n', "        return float('inf')\n", 'C29.tokens'),
    Mutant('tokens-int-before-float', FW, _LINE_TOKEN, '(OneOrMore((nan | num_int | num_float | mixed_exp | string_text)))', 'C29.tokens'),
    Mutant('tokens-float-unsigned', FW, '        num_float = _ToFloat(Combine(\n            Optional(sign) +\n',
           '        num_float = _ToFloat(Combine(\n', 'C29.tokens'),
    Mutant('tokens-exponent-case-sensitive', FW, "ee = CaselessLiteral('E') | CaselessLiteral('D')", "ee = Literal('E') | Literal('D')",
           'C29.tokens', also=[(FW, 'TokenConverter, Word, nums,', 'TokenConverter, Word, Literal, nums,')]),
    Mutant('tokens-fortran-replace-reversed', FW, "tokenlist[0].replace('D', 'E')", "tokenlist[0].replace('E', 'D')", 'C29.tokens'),
    Mutant('tokens-nan-lowercase-missing', FW, 'oneOf("NaN nan NaN%  NaNQ', 'oneOf("NaN NaN%  NaNQ', 'C29.tokens'),
    Mutant('tokens-exponent-sign-dropped', FW, '            Optional(ee + Optional(sign) + digits)\n', '            Optional(ee + digits)\n', 'C29.tokens'),
    Mutant('tokens-nan-converter-on-inf', FW, _NAN,
           '        nan = (_ToNan(oneOf("Inf -Inf inf -inf")) |\n'
           '               _ToNan(oneOf("NaN nan NaN%  NaNQ NaNS qNaN sNaN 1.#SNAN 1.#QNAN -1.#IND")))\n', 'C29.tokens'),
    Mutant('tokens-symbol-table-loses-equals', FW, "'[', ']', '=',", "'[', ']',", 'C29.tokens'),
    Mutant('tokens-int-sign-dropped', FW, 'num_int = _ToInteger(Combine(Optional(sign) + digits))', 'num_int = _ToInteger(Combine(digits))', 'C29.tokens'),
    Mutant('tokens-int-converter-abs', FW, '        return int(tokenlist[0])\n', '        return abs(int(tokenlist[0]))\n', 'C29.tokens'),
    # ---- write
    Mutant('write-var-args-swapped', FW, '        sub.set(value, field)\n', '        sub.set(field, value)\n', 'C29.write'),
    Mutant('write-var-row-sign', FW, _WVAR, _WVAR.replace('j = self._current_row + row', 'j = self._current_row - row'), 'C29.write'),
    Mutant('write-var-stored-at-relative-row', FW, _WVAR, _WVAR.replace('self._data[j] = newline', 'self._data[row] = newline'), 'C29.write'),
    Mutant('write-array-last-row-excluded', FW, '        for row in range(row_start, row_end + 1):\n            j = self._current_row + row\n            line = self._data[j]\n\n            if row == row_end:',
           '        for row in range(row_start, row_end):\n            j = self._current_row + row\n            line = self._data[j]\n\n            if row == row_end:', 'C29.write'),
    Mutant('write-array-start-not-reset', FW, '            sub.set_array(value, field_start, f_end)\n            field_start = 0\n',
           '            sub.set_array(value, field_start, f_end)\n', 'C29.write'),
    Mutant('write-array-end-branch-inverted', FW, '            if row == row_end:\n                f_end = field_end', '            if row != row_end:\n                f_end = field_end', 'C29.write'),
    Mutant('write-array-end-every-row', FW, '            sub.set_array(value, field_start, f_end)\n', '            sub.set_array(value, field_start, field_end)\n', 'C29.write'),
    Mutant('write-array-overflow-short-format', FW, 'newline = newline.rstrip() + sep + str(val)', "newline = newline.rstrip() + sep + '%g' % val", 'C29.write'),
    Mutant('write-array-overflow-skips-one', FW, 'for val in value[sub._counter:]:', 'for val in value[sub._counter + 1:]:', 'C29.write'),
    Mutant('write-2d-counter-not-reset', FW, '            sub._current_location = 0\n            sub._counter = 0\n', '            sub._current_location = 0\n', 'C29.write'),
    Mutant('write-2d-row-index-stuck', FW, '            sub._counter = 0\n            i += 1\n', '            sub._counter = 0\n', 'C29.write'),
    Mutant('write-2d-row-written-elsewhere', FW, '            sub.set_array(value[i, :], field_start, field_end)\n\n            newline = re.sub(self._reg, sub.replace_array, line)\n            self._data[j] = newline\n',
           '            sub.set_array(value[i, :], field_start, field_end)\n\n            newline = re.sub(self._reg, sub.replace_array, line)\n            self._data[row] = newline\n', 'C29.write'),
    Mutant('write-2d-column-for-row', FW, 'sub.set_array(value[i, :], field_start, field_end)', 'sub.set_array(value[:, i], field_start, field_end)', 'C29.write'),
    Mutant('write-var-only-first-field-visited', FW, '        newline = re.sub(self._reg, sub.replace, line)\n\n        self._data[j] = newline',
           '        newline = re.sub(self._reg, sub.replace, line, 1)\n\n        self._data[j] = newline', 'C29.write'),
    Mutant('write-generate-joins-with-newline', FW, '                f.writelines(self._data)\n', "                f.write('\\n'.join(self._data))\n", 'C29.write'),
    Mutant('write-delimiter-class-not-negated', FW, "self._reg = re.compile('[^' + delimiter + '\\n]+')", "self._reg = re.compile('[' + delimiter + '\\n]+')", 'C29.write'),
    # ---- read
    Mutant('read-var-zero-based', FW, _RVAR_TAIL, _RVAR_TAIL.replace('data[field - 1]', 'data[field]'), 'C29.read'),
    Mutant('read-var-row-ignored', FW, '        j = self._current_row + row\n\n        line = self._data[j]\n\n        if self._delimiter == "columns":',
           '        j = self._current_row\n\n        line = self._data[j]\n\n        if self._delimiter == "columns":', 'C29.read'),
    Mutant('read-array-start-off-by-one', FW, _R_ARR, _R_ARR.replace('np.array(parsed[(fieldstart - 1):fieldend])', 'np.array(parsed[fieldstart:fieldend])'), 'C29.read'),
    Mutant('read-array-end-exclusive', FW, _R_ARR, _R_ARR.replace('np.array(parsed[(fieldstart - 1):fieldend])', 'np.array(parsed[(fieldstart - 1):fieldend - 1])'), 'C29.read'),
    Mutant('read-array-start-not-reset', FW, _R_ARR, _R_ARR.replace('\n                fieldstart = 1\n', '\n'), 'C29.read'),
    Mutant('read-array-last-row-test', FW, _R_ARR, _R_ARR.replace('if i == j2 - j1 - 1:', 'if i == j2 - j1:'), 'C29.read'),
    Mutant('read-array-rowend-exclusive', FW, '        if rowend is None:\n            j2 = j1 + 1\n        else:\n            j2 = self._current_row + rowend + 1\n',
           '        if rowend is None:\n            j2 = j1 + 1\n        else:\n            j2 = self._current_row + rowend\n', 'C29.read'),
    Mutant('read-2d-row-slot', FW, '                    data[i + 1, :] = np.array(parsed[(fieldstart - 1):])\n', '                    data[i, :] = np.array(parsed[(fieldstart - 1):])\n', 'C29.read'),
    Mutant('read-2d-swallowed-shift', FW, '                        data[i + 1, :] = np.array(parsed[(fieldstart - 1):fieldend])\n',
           '                        data[i + 1, :] = np.array(parsed[fieldstart:fieldend])\n', 'C29.read'),
    Mutant('read-2d-rowend-exclusive', FW, '        j1 = self._current_row + rowstart\n        j2 = self._current_row + rowend + 1\n        lines = list(self._data[j1:j2])',
           '        j1 = self._current_row + rowstart\n        j2 = self._current_row + rowend\n        lines = list(self._data[j1:j2])', 'C29.read'),
    Mutant('read-2d-first-row-end', FW, '            if fieldend:\n                row = np.array(parsed[(fieldstart - 1):fieldend])\n',
           '            if fieldend:\n                row = np.array(parsed[(fieldstart - 1):fieldend - 1])\n', 'C29.read'),
    Mutant('read-keyvar-field-base', FW, '        return fields[field]\n', '        return fields[field - 1]\n', 'C29.read'),
    Mutant('read-keyvar-forward-row-origin', FW, '        if occurrence > 0:\n            row = 0\n            for line in self._data[self._current_row:]:',
           '        if occurrence > 0:\n            row = 1\n            for line in self._data[self._current_row:]:', 'C29.read'),
    Mutant('read-keyvar-rowoffset-dropped', FW, '        j = self._current_row + row + rowoffset\n', '        j = self._current_row + row\n', 'C29.read'),
    Mutant('read-set-file-drops-first-line', FW, '            self._data = inputfile.readlines()\n        else:', '            self._data = inputfile.readlines()[1:]\n        else:', 'C29.read'),
    Mutant('read-delimiters-not-applied', FW, '        if delimiter != "columns":\n            ParserElement.setDefaultWhitespaceChars(str(delimiter))\n', '', 'C29.read'),
    Mutant('read-grammar-not-rebuilt', FW, '            ParserElement.setDefaultWhitespaceChars(str(delimiter))\n\n        self._reset_tokens()\n',
           '            ParserElement.setDefaultWhitespaceChars(str(delimiter))\n', ['C29.read', 'C29.tokens']),
    Mutant('tokens-textchars-branch-inverted', FW, '        if self._delimiter.isspace():\n            textchars = printables',
           '        if not self._delimiter.isspace():\n            textchars = printables', 'C29.tokens'),
    # ---- anchor (writer = 1st occurrence of the shared text, reader = 2nd)
    Mutant('anchor-writer-rescans-anchor-line', FW, _FWD, '', 'C29.anchor', nth=0),
    Mutant('anchor-reader-absolute-row', FW, '                        self._current_row += count\n', '                        self._current_row = count\n', 'C29.anchor', nth=1),
    Mutant('anchor-reader-startswith', FW, '                if anchor in line:\n\n                    instance += 1', '                if line.startswith(anchor):\n\n                    instance += 1', 'C29.anchor'),
    Mutant('anchor-writer-reverse-off-by-one', FW, '                        self._current_row = count\n', '                        self._current_row = count - 1\n', 'C29.anchor', nth=0),
    Mutant('anchor-writer-reset-keeps-flag', FW, '        self._current_row = 0\n        self._anchored = False\n\n    def transfer_var(self, value, row, field):',
           '        self._current_row = 0\n\n    def transfer_var(self, value, row, field):', 'C29.anchor'),
    Mutant('anchor-reader-reverse-skips-row0', FW, '            for index in range(max_lines, -1, -1):', '            for index in range(max_lines, 0, -1):', 'C29.anchor', nth=1),
    Mutant('anchor-reader-flag-never-set', FW, '                        self._current_row += count\n                        self._anchored = True\n',
           '                        self._current_row += count\n', 'C29.anchor', nth=1),
    Mutant('anchor-writer-always-splits', FW, '                if count == 0 and self._anchored:', '                if self._anchored:', 'C29.anchor', nth=0),
    # ---- round-2 seeds: rows/lines must be told apart by position, counters belong to the caller's protocol
    Mutant('seed2-set-array-resets-element-counter', FW,
           '        self._end_location = end_location\n        self._current_location = 0\n',
           '        self._end_location = end_location\n        self._current_location = 0\n        self._counter = 0\n', 'C29.write',
           also=[(FW, '            self._data[j] = newline\n\n            sub._current_location = 0\n            sub._counter = 0\n            i += 1',
                  '            self._data[j] = newline\n            i += 1')]),
    Mutant('seed2-2d-field-start-reset-after-first-row', FW, '            sub.set_array(value[i, :], field_start, field_end)\n',
           '            sub.set_array(value[i, :], field_start, field_end)\n            field_start = 0\n', 'C29.write'),
    Mutant('seed2-reader-last-line-by-text', FW, '        for i, line in enumerate(lines):\n            if self._delimiter == "columns":\n                line = line[(fieldstart - 1):fieldend]',
           '        for line in lines:\n            if self._delimiter == "columns":\n                line = line[(fieldstart - 1):fieldend]', 'C29.read',
           also=[(FW, '                if i == j2 - j1 - 1:', '                if line == lines[-1]:')]),
    Mutant('reader-2d-row-slot-by-text', FW, '                    data[i + 1, :] = np.array(parsed[(fieldstart - 1):])\n',
           '                    data[lines.index(line), :] = np.array(parsed[(fieldstart - 1):])\n', 'C29.read'),
    Mutant('writer-array-last-row-by-text', FW, '            if row == row_end:\n                f_end = field_end',
           '            if line == self._data[self._current_row + row_end]:\n                f_end = field_end', 'C29.write'),
    # ---- behaviour-preserving rewrites (must stay silent)
    Twin('twin-getformat-early-return', FW, _GF,
         '    if not np.isfinite(val):\n        return "%.16g"\n    if val == int(val):\n        return "%.1f"\n    return "%.16g"\n'),
    Twin('twin-getformat-try-except', FW, _GF,
         '    try:\n        integral = int(val) == val\n    except (OverflowError, ValueError):\n        integral = False\n'
         '    return "%.1f" if integral else "%.16g"\n'),
    Twin('twin-getformat-math-isfinite', FW, _GF,
         '    import_free = val == val and abs(val) != float("inf")\n    if import_free and int(val) == val:\n        return "%.1f"\n    else:\n        return "%.16g"\n'),
    Twin('twin-17-digits', FW, 'return "%.16g"', 'return "%.17g"'),
    Twin('twin-scalar-compare-flipped', FW, 'if self._current_location == self._replace_location:',
         'if self._replace_location == self._current_location:'),
    Twin('twin-array-chained-compare', FW, _ARR_GUARD,
         '        if self._start_location <= self._current_location <= self._end_location and end > self._counter:\n'),
    Twin('twin-inf-converter-by-sign', FW, '        return float(tokenlist[0])\n',
         "        tok = tokenlist[0]\n        return -float('inf') if tok.startswith('-') else float('inf')\n"),
    Twin('twin-grammar-local-renamed', FW, 'digits', 'dgts', nth='all'),
    Twin('twin-reader-index-temporary', FW, _RVAR_TAIL,
         '            data = self._parse_line().parseString(line)\n            idx = field - 1\n            return data[idx]\n'),
    Twin('twin-writer-branch-flipped', FW, '            if row == row_end:\n                f_end = field_end\n            else:\n                f_end = 99999\n',
         '            if row != row_end:\n                f_end = 99999\n            else:\n                f_end = field_end\n'),
    Twin('twin-writer-anchor-in', FW, 'if line.find(anchor) > -1:', 'if anchor in line:', nth='all'),
    Twin('twin-reader-reverse-uses-index', FW, '                    instance += -1\n                    if instance == occurrence:\n                        self._current_row = count\n',
         '                    instance += -1\n                    if instance <= occurrence:\n                        self._current_row = index\n', nth=1),
    Twin('twin-writer-split-side', FW, _FWD, _FWD.replace('[-1]', '[0]'), nth=0),
    Twin('twin-generate-single-write', FW, '                f.writelines(self._data)\n', "                f.write(''.join(self._data))\n"),
    Twin('twin-reader-last-line-by-length', FW, '                if i == j2 - j1 - 1:', '                if i == len(lines) - 1:'),
    Twin('twin-writer-2d-row-index-from-loop', FW, 'sub.set_array(value[i, :], field_start, field_end)',
         'sub.set_array(value[row - row_start, :], field_start, field_end)'),
    Twin('twin-writer-2d-fresh-helper-per-row', FW, '            sub.set_array(value[i, :], field_start, field_end)\n',
         '            sub = _SubHelper()\n            sub.set_array(value[i, :], field_start, field_end)\n'),
    Twin('twin-reader-array-loop-temporaries', FW, _R_ARR,
         '                last = (i + 1 == j2 - j1)\n                lo = fieldstart - 1\n'
         '                picked = parsed[lo:fieldend] if last else parsed[lo:]\n'
         '                data = np.append(data, np.array(picked))\n\n                fieldstart = 1\n'),
    # the two repairs of today's findings: must not raise anything new (and silence the finding, checked by hand)
    Mutant('seed1-3-mixed-exp-exponent-sign-dropped', FW, 'mixed_exp = _ToFloat(Combine(Optional(sign) + digits + ee + Optional(sign) + digits))',
           'mixed_exp = _ToFloat(Combine(Optional(sign) + digits + ee + digits))', 'C29.tokens'),
    Mutant('mixed-exp-sign-dropped-F', FW, 'mixed_exp = _ToFloat(Combine(Optional(sign) + digits + ee + Optional(sign) + digits))',
           'mixed_exp = _ToFloat(Combine(digits + ee + Optional(sign) + digits))', 'C29.tokens'),
    Twin('twin-mixed-exp-sign-literal', FW, 'mixed_exp = _ToFloat(Combine(Optional(sign) + digits + ee + Optional(sign) + digits))',
         'mixed_exp = _ToFloat(Combine(Optional(oneOf("+ -")) + digits + ee + Optional(sign) + digits))'),
    Twin('repair-keyvar-reverse-row', FW, '        elif occurrence < 0:\n            row = -1\n            for line in reversed(self._data[self._current_row:]):\n                if line.find(key) > -1:\n                    instance += -1\n                    if instance == occurrence:\n                        break\n                row -= 1\n            # row counts back from the end of the file; make it relative to the anchor\n            row += len(self._data) - self._current_row\n',
         '        elif occurrence < 0:\n            row = len(self._data) - self._current_row - 1\n            for line in reversed(self._data[self._current_row:]):\n                if line.find(key) > -1:\n                    instance += -1\n                    if instance == occurrence:\n                        break\n                row -= 1\n'),
    Mutant('keyvar-reverse-row-double-offset', FW, '        elif occurrence < 0:\n            row = -1\n            for line in reversed(self._data[self._current_row:]):',
           '        elif occurrence < 0:\n            row = len(self._data) - self._current_row - 1\n            for line in reversed(self._data[self._current_row:]):', 'C29.read'),
    Mutant('overflow-drops-line-end-F', FW, '            self._data[j] = newline + eol\n', '            self._data[j] = newline\n', 'C29.write'),
    Twin('twin-overflow-line-end-inline', FW, '            self._data[j] = newline + eol\n',
         '            newline = newline + eol\n            self._data[j] = newline\n'),
    Mutant('overflow-line-end-after-strip', FW, '            self._data[j] = newline + eol\n',
           '            self._data[j] = newline + newline[len(newline.rstrip()):]\n', 'C29.write'),
)
