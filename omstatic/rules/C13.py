"""C13 -- derivative checks report exactly what they compare.

Structural clauses of check_partials / check_totals decided from the source:

* sparsity audit (`*Subjac.set_col/_set_coo_col`): what is compared (|column| with the covered rows
  zeroed, against the threshold), that every offending column is recorded as (row, col), that the
  threshold reaches every audit site, and that every key the report reads is written;
* error computation (`_compute_deriv_errors`, `get_tol_violation`, `_iter_derivs`): slot discipline
  of the five returned quantities, which operand is the analytic and which the approximated value,
  tolerance threading, accumulation of the above-tolerance flag, which pairs may be skipped;
* bookkeeping (`Component.check_partials`, `Problem.check_totals`, `_CheckingJacobian`): one
  approximation and one step recorded per (pair, step), recorded arrays are not overwritten by a
  later step, audit results of one run do not leak into the next;
* report (`_deriv_display`, `_deriv_display_compact`): every printed value is labelled with the
  operand it really is.
"""
import ast
from collections import deque

from .. import astx, cfg as cfgm, boolx
from ..core import AnalysisError
from ..engine import rule, describe, selftest, Mutant, Twin

SUBJAC = 'openmdao/jacobians/subjac.py'
DJAC = 'openmdao/jacobians/dictionary_jacobian.py'
JAC = 'openmdao/jacobians/jacobian.py'
SYSTEM = 'openmdao/core/system.py'
COMP = 'openmdao/core/component.py'
PROB = 'openmdao/core/problem.py'
DISP = 'openmdao/utils/deriv_display.py'
ARR = 'openmdao/utils/array_utils.py'

describe('C13',
         'Decides structural necessary conditions of "derivative checks report exactly what they compare": '
         '(accum) every *Subjac audit site records the uncovered rows of EVERY offending column as (row, col); '
         '(audit) the audit compares |column| with exactly the stored (covered) rows zeroed against the threshold, '
         'and the stored rows are the rows of this column of the declared pattern; (thread) the threshold given to '
         '_CheckingJacobian reaches every audit site of every concrete Subjac class; (schema) every key the '
         'report reads under "uncovered_nz" is written by every audit site; (fresh/snapshot) audit results and '
         'recorded J_fd arrays of one step/run are not shared with the next; (slots) the five results of each '
         'get_tol_violation call in _compute_deriv_errors land in one slot of the matching containers, the first '
         'operand is the analytic value of that slot and the second the approximation, every result is OR-ed '
         'into the returned flag; (tolviol) get_tol_violation returns |x-ref| quantities taken at one index; '
         '(tols) abs/rel tolerances are never swapped on the way down; (iter) a pair is skipped only when '
         'allowed; (select) Problem.check_partials skips a component only for a documented reason; (record) one J_fd and one step per (pair, step), J_fd taken from that step; (labels) the '
         'printed fwd/rev/fd labels name the operand actually printed.  Does not decide numerical accuracy of '
         'the approximations nor the contents of the analytic Jacobians.',
         ['audit sites are the functions of the Subjac hierarchy that mention the key "uncovered_nz"',
          'Subjac.info is the metadata dict handed to the constructor (checked in C13.fresh)',
          'tolerance roles are recognised by the repository vocabulary atol/abs_err_tol/abs_error_tol and '
          'rtol/rel_err_tol/rel_error_tol'])


# =========================================================================== generic helpers
def K(n):
    """Structural key of an AST (no deepcopy, no locations, `a > b` == `b < a`)."""
    if isinstance(n, ast.AST):
        if isinstance(n, ast.Compare) and len(n.ops) == 1 and isinstance(n.ops[0], (ast.Gt, ast.GtE)):
            return ('Compare', K(n.comparators[0]), 'Lt' if isinstance(n.ops[0], ast.Gt) else 'LtE', K(n.left))
        if isinstance(n, ast.Compare) and len(n.ops) == 1:
            return ('Compare', K(n.left), type(n.ops[0]).__name__, K(n.comparators[0]))
        if isinstance(n, (ast.Load, ast.Store, ast.Del)):
            return ''
        return (type(n).__name__,) + tuple(K(getattr(n, f, None)) for f in n._fields if f != 'ctx')
    if isinstance(n, list):
        return tuple(K(x) for x in n)
    return n


def clone(n, f=None):
    """Copy of an expression without parent links; f(node) may return a replacement subtree."""
    if f is not None and isinstance(n, ast.AST):
        r = f(n)
        if r is not None:
            return r
    if isinstance(n, ast.AST):
        kw = {}
        for fld in n._fields:
            v = getattr(n, fld, None)
            if isinstance(v, list):
                kw[fld] = [clone(x, f) for x in v]
            elif isinstance(v, ast.AST):
                kw[fld] = clone(v, f)
            else:
                kw[fld] = v
        new = type(n)(**kw)
        if hasattr(n, 'lineno'):
            ast.copy_location(new, n)
        return new
    return n


def names(e):
    return {n.id for n in ast.walk(e) if isinstance(n, ast.Name)}


def fparams(fn, drop_self=True):
    a = fn.node.args
    ps = [x.arg for x in a.posonlyargs + a.args]
    if drop_self and ps and ps[0] in ('self', 'cls'):
        ps = ps[1:]
    return ps


def bind(call, fn):
    """param name -> argument expression of `call` when the callee is `fn` (None if not bindable)."""
    ps = fparams(fn)
    out = {}
    for i, a in enumerate(call.args):
        if isinstance(a, ast.Starred):
            return None
        if i < len(ps):
            out[ps[i]] = a
    for k in call.keywords:
        if k.arg is None:
            return None
        out[k.arg] = k.value
    return out


def find_path(g, starts, targets, avoid=(), edge_ok=None):
    """Shortest path starts -> targets over normal edges accepted by edge_ok(n, m, label)."""
    avoid = set(avoid)
    targets = set(targets)
    par = {}
    dq = deque()
    for s in starts:
        if s not in avoid and s not in par:
            par[s] = None
            dq.append(s)
    while dq:
        n = dq.popleft()
        if n in targets:
            p = []
            while n is not None:
                p.append(n)
                n = par[n]
            return p[::-1]
        for m, lab in g.succ[n]:
            if lab == 'exc' or m in avoid or m in par:
                continue
            if edge_ok is not None and not edge_ok(n, m, lab):
                continue
            par[m] = n
            dq.append(m)
    return None


def enforce_floor(out, where, floor):
    """The engine waives the instance floor when a rule reports a violation; rules that have a finding on the
    tree re-check it themselves so that a lost instance can never hide behind that finding."""
    n = sum(1 for i in out.items if i['status'] in ('ok', 'violation'))
    if n < floor and not any(i['status'] == 'undecided' for i in out.items):
        out.unsure(where, None, f'only {n} instance(s) recognised, expected at least {floor}')


class Ctx:
    """A function with its CFG and reaching definitions (built once per parsed function)."""

    def __init__(self, fn):
        self.fn = fn
        g = getattr(fn, '_c13_cfg', None)
        if g is None:
            g = fn._c13_cfg = cfgm.build(fn)
        self.g = g

    @property
    def rd(self):
        r = getattr(self.fn, '_c13_rd', None)
        if r is None:
            r = self.fn._c13_rd = cfgm.ReachingDefs(self.g)
        return r

    def at(self, node):
        st = node if isinstance(node, ast.stmt) else astx.stmt_of(node)
        ns = self.g.nodes_of(st) if st is not None else []
        if not ns:
            raise AnalysisError(f'{self.fn.ident}: no CFG node for `{astx.src(node)}` (unreachable code?)')
        return ns[0]

    def unique_def(self, name, at):
        """(value, def node) if exactly one plain `name = value` reaches `at`."""
        ds = self.rd.defs(at, name)
        if len(ds) != 1:
            return None
        d = next(iter(ds))
        if d.kind == 'stmt' and isinstance(d.ast, ast.Assign) and len(d.ast.targets) == 1 and \
                isinstance(d.ast.targets[0], ast.Name) and d.ast.targets[0].id == name:
            return d.ast.value, d
        # `a, b = x, y` defines a as x and b as y (when no target occurs on the right-hand side)
        if d.kind == 'stmt' and isinstance(d.ast, ast.Assign) and len(d.ast.targets) == 1 and \
                isinstance(d.ast.targets[0], (ast.Tuple, ast.List)) and isinstance(d.ast.value, (ast.Tuple, ast.List)) \
                and len(d.ast.targets[0].elts) == len(d.ast.value.elts) and \
                all(isinstance(t, ast.Name) for t in d.ast.targets[0].elts):
            tn = [t.id for t in d.ast.targets[0].elts]
            if tn.count(name) == 1 and not (set(tn) & names(d.ast.value)):
                return d.ast.value.elts[tn.index(name)], d
        return None

    def inline(self, e, at, depth=0, keep=()):
        """Copy of e with every uniquely defined local (except `keep`) replaced by its defining expression."""
        def sub(n):
            if isinstance(n, ast.Name) and isinstance(n.ctx, ast.Load) and depth < 8 and n.id not in keep:
                u = self.unique_def(n.id, at)
                if u is not None:
                    return self.inline(u[0], u[1], depth + 1, keep)
            return None
        return clone(e, sub)

    def stmts(self):
        return list(astx.walk_stmts(self.fn.node.body))


_ABS = ('abs', 'absolute', 'fabs')


def abs_arg(e):
    """x if e is abs(x)/np.abs(x)/np.absolute(x)/np.fabs(x) else None."""
    if isinstance(e, ast.Call) and astx.callee_attr(e) in _ABS and len(e.args) == 1 and not e.keywords:
        return e.args[0]
    return None


def is_zero(e):
    return isinstance(e, ast.Constant) and not isinstance(e.value, bool) and \
        isinstance(e.value, (int, float)) and e.value == 0


def is_int(e, v):
    return isinstance(e, ast.Constant) and not isinstance(e.value, bool) and e.value == v


# =========================================================================== the Subjac hierarchy
def hierarchy(repo):
    m = repo.module(SUBJAC)
    out = []
    for qn in m.classes:
        if '.' in qn:
            continue
        try:
            if (SUBJAC, 'Subjac') in repo.mro(SUBJAC, qn):
                out.append(qn)
        except (KeyError, RecursionError):
            continue
    if 'Subjac' not in out:
        raise AnalysisError('class Subjac vanished from subjac.py')
    return out


def mentions_key(fn, key='uncovered_nz'):
    return any(isinstance(n, ast.Constant) and n.value == key for n in astx.walk(fn.node))


def _is_forwarder(f):
    """A method that only hands its arguments on (no branching, no stores into containers)."""
    for st in astx.walk_stmts(astx.strip_doc(f.node.body)):
        if isinstance(st, (ast.If, ast.For, ast.While, ast.Try, ast.With)):
            return False
        if isinstance(st, (ast.Assign, ast.AugAssign)) and \
                any(not isinstance(t, ast.Name) for t in astx.assigned_targets(st)):
            return False
    return True


def _stored_names(fnode):
    out = set()
    for st in astx.walk_stmts(fnode.body):
        for t in astx.assigned_targets(st) if isinstance(st, (ast.Assign, ast.AugAssign, ast.AnnAssign, ast.For,
                                                               ast.With)) else []:
            if isinstance(t, ast.Name):
                out.add(t.id)
    return out


def _inline_call(call, callee, caller_names):
    """Statements equivalent to the statement `self.<callee>(...)`, or None if the helper cannot be inlined."""
    cn = callee.node
    if any(isinstance(x, (ast.Return, ast.Yield, ast.YieldFrom, ast.Global, ast.Nonlocal, ast.FunctionDef,
                          ast.Lambda)) for x in ast.walk(cn) if x is not cn):
        return None
    if cn.args.vararg or cn.args.kwarg or cn.args.kwonlyargs:
        return None
    b = bind(call, callee)
    if b is None:
        return None
    ps = fparams(callee)
    defaults = dict(zip(ps[len(ps) - len(cn.args.defaults):], cn.args.defaults)) if cn.args.defaults else {}
    stored = _stored_names(cn)
    ren, pre = {}, []
    for q in ps:
        a = b.get(q, defaults.get(q))
        if a is None or q not in b and q not in defaults:
            return None
        if isinstance(a, ast.Name) and q not in stored:
            ren[q] = a.id                      # parameter is just another name for the caller's variable
        else:
            nm = q if q not in caller_names else q + '_h'
            ren[q] = nm
            pre.append(ast.copy_location(ast.Assign(targets=[ast.Name(id=nm, ctx=ast.Store())], value=clone(a),
                                                    lineno=call.lineno), call))
    for loc in stored - set(ps):
        if loc in caller_names:
            ren[loc] = loc + '_h'

    def sub(n):
        if isinstance(n, ast.Name) and n.id in ren:
            return ast.copy_location(ast.Name(id=ren[n.id], ctx=n.ctx), n)
        return None
    return pre + [clone(st, sub) for st in astx.strip_doc(cn.body)]


def _set_parents(node, parent):
    node._parent = parent
    for ch in ast.iter_child_nodes(node):
        _set_parents(ch, node)


def expanded_funcs(repo, classes):
    """qualname -> Func for the methods of the Subjac hierarchy, with private audit helpers inlined.

    A statement `self._helper(...)` whose callee (resolved through the MRO) writes info['uncovered_nz'] is
    replaced by the helper's body inside every method that is not a mere forwarder, so that a method and the
    bookkeeping it delegates are analysed as one function.  Returns (funcs, fully_inlined_helper_qualnames).
    """
    m = repo.module(SUBJAC)
    cached = getattr(m, '_c13_expanded', None)
    if cached is not None:
        return cached
    from ..core import Func
    funcs = {qn: f for qn, f in m.funcs.items() if qn.count('.') == 1 and qn.split('.')[0] in classes}

    def lookup(cls, name):
        for r, q in repo.mro(SUBJAC, cls):
            if r == SUBJAC and f'{q}.{name}' in funcs:
                return funcs[f'{q}.{name}']
        return None
    used, inlined = {}, {}
    out = dict(funcs)
    for qn, f in funcs.items():
        cls = qn.split('.')[0]
        forwarder = _is_forwarder(f)
        caller_names = names(f.node) | set(fparams(f, drop_self=False))
        changed = [False]

        def expand(body):
            res = []
            for st in body:
                callee = None
                if isinstance(st, ast.Expr) and isinstance(st.value, ast.Call):
                    if astx.path(astx.receiver(st.value)) == 'self':
                        callee = lookup(cls, astx.callee_attr(st.value))            # private helper method
                    elif isinstance(st.value.func, ast.Name):
                        callee = m.funcs.get(st.value.func.id)                      # module-level helper function
                    if callee is not None and (callee is f or not mentions_key(callee)):
                        callee = None
                if callee is not None:
                    used[callee.qualname] = used.get(callee.qualname, 0) + 1
                    rep = None if forwarder else _inline_call(st.value, callee, caller_names)
                    if rep is not None:
                        inlined[callee.qualname] = inlined.get(callee.qualname, 0) + 1
                        changed[0] = True
                        res.extend(rep)
                        continue
                new = clone(st, lambda n: None)
                for fld in ('body', 'orelse', 'finalbody'):
                    sub = getattr(st, fld, None)
                    if isinstance(sub, list) and sub and isinstance(sub[0], ast.stmt):
                        setattr(new, fld, expand(sub))
                if isinstance(st, ast.Try):
                    for h_old, h_new in zip(st.handlers, new.handlers):
                        h_new.body = expand(h_old.body)
                res.append(new)
            return res
        if isinstance(f.node, ast.FunctionDef):
            body = expand(f.node.body)
            if changed[0]:
                node = ast.FunctionDef(name=f.node.name, args=f.node.args, body=body, decorator_list=[],
                                       returns=None, type_comment=None)
                if 'type_params' in ast.FunctionDef._fields:
                    node.type_params = []
                ast.copy_location(node, f.node)
                _set_parents(node, getattr(f.node, '_parent', None))
                out[qn] = Func(m, qn, node, f.cls)
    full = {q for q, n in used.items() if inlined.get(q, 0) == n}
    m._c13_expanded = (out, full)
    return m._c13_expanded


class Plumbing:
    """Which parameter of which Subjac method carries the audit threshold, and who delegates to whom."""

    def __init__(self, repo):
        self.repo = repo
        self.classes = hierarchy(repo)
        self.F, self.inlined_helpers = expanded_funcs(repo, self.classes)
        F = self.F
        self.thr = {}          # qualname -> threshold parameter name
        self.deleg = []        # (delegator Func, call, callee Func, binding)
        self.problems = []     # (Func, node, why, key, is_bad)
        self.broken = []       # (Func, why): audit sites whose parameters could not be identified
        self.set_cols = [F[f'{c}.set_col'] for c in self.classes if f'{c}.set_col' in F]
        for f in self.set_cols:
            ps = fparams(f)
            if len(ps) < 3:
                self.problems.append((f, f.node, 'set_col does not accept the audit threshold as third '
                                      'argument although _CheckingJacobian.set_col passes one', 'set-col-signature',
                                      True))
                continue
            self.thr[f.qualname] = ps[2]
        for f in self.set_cols:
            if f.qualname not in self.thr or mentions_key(f):
                continue
            cls = f.qualname.rsplit('.', 1)[0]
            for c in astx.calls(f.node):
                if astx.path(astx.receiver(c)) != 'self':
                    continue
                callee = self.lookup(cls, astx.callee_attr(c))
                if callee is None or not mentions_key(callee):
                    continue
                b = bind(c, callee)
                if b is None:
                    self.problems.append((f, c, 'star-arguments in the delegation to the audit', 'deleg', False))
                    continue
                self.deleg.append((f, c, callee, b))
                for p, a in b.items():
                    if isinstance(a, ast.Name) and a.id == self.thr[f.qualname]:
                        prev = self.thr.get(callee.qualname)
                        if prev is not None and prev != p and callee.qualname.endswith('.set_col') is False:
                            self.problems.append((f, c, f'threshold bound to `{p}` here but to `{prev}` by another '
                                                  'delegator', 'deleg-param', True))
                        self.thr.setdefault(callee.qualname, p)

    def lookup(self, cls, name):
        """First definer of a method in the MRO of a Subjac class (helper-expanded version)."""
        for r, q in self.repo.mro(SUBJAC, cls):
            if r == SUBJAC and f'{q}.{name}' in self.F:
                return self.F[f'{q}.{name}']
        return None

    def sites(self):
        out = []
        for qn, f in self.F.items():
            if qn in self.inlined_helpers:
                continue      # analysed inside each of its callers
            if mentions_key(f):
                out.append(f)
        return out


class Site(Ctx):
    """One audit site: a method that writes info['uncovered_nz']."""

    def __init__(self, fn, thr, roles=None):
        super().__init__(fn)
        ps = fparams(fn)
        if roles is None and fn.name == 'set_col' and len(ps) >= 2:
            roles = {'icol': ps[0], 'column': ps[1]}     # signature fixed by _CheckingJacobian.set_col
        roles = roles or {}
        if not roles.get('icol') or not roles.get('column'):
            raise AnalysisError(f'{fn.ident}: cannot tell which parameters are the column index and the column')
        self.icol, self.column = roles['icol'], roles['column']
        self.thr = thr
        self.aliases = {'self.info'}
        for st in self.stmts():
            if isinstance(st, ast.Assign) and len(st.targets) == 1 and isinstance(st.targets[0], ast.Name) \
                    and astx.path(st.value) == 'self.info':
                self.aliases.add(st.targets[0].id)

    def key_of(self, e):
        if isinstance(e, ast.Subscript) and astx.path(e.value) in self.aliases:
            return astx.const_str(e.slice)
        return None

    def stores(self, key):
        return self.g.where(lambda n: n.kind == 'stmt' and isinstance(n.ast, ast.Assign) and
                            any(self.key_of(t) == key for t in n.ast.targets))

    def nz_defs(self):
        """[(node, name, condition)] for `name = np.where(cond)[0]` style definitions."""
        out = []
        for n in self.g.where(lambda n: n.kind == 'stmt' and isinstance(n.ast, ast.Assign)):
            st = n.ast
            if len(st.targets) != 1 or not isinstance(st.targets[0], ast.Name):
                continue
            v = st.value
            if isinstance(v, ast.Subscript) and is_int(v.slice, 0):
                v = v.value
            if isinstance(v, ast.Call) and astx.callee_attr(v) in ('where', 'nonzero', 'flatnonzero') and \
                    len(v.args) == 1 and not v.keywords:
                out.append((n, st.targets[0].id, v.args[0]))
        return out

    def extends(self):
        """[(node, payload)] for statements that add entries to info['uncovered_nz']."""
        out = []
        for n in self.g.where(lambda n: n.kind == 'stmt'):
            st = n.ast
            if isinstance(st, ast.Expr) and isinstance(st.value, ast.Call) and \
                    astx.callee_attr(st.value) == 'extend' and len(st.value.args) == 1:
                r = astx.receiver(st.value)
                if self.key_of(r) == 'uncovered_nz':
                    out.append((n, st.value.args[0]))
                elif isinstance(r, ast.Call) and astx.callee_attr(r) == 'setdefault' and r.args and \
                        astx.const_str(r.args[0]) == 'uncovered_nz' and astx.path(astx.receiver(r)) in self.aliases:
                    out.append((n, st.value.args[0]))
            elif isinstance(st, ast.AugAssign) and isinstance(st.op, ast.Add) and \
                    self.key_of(st.target) == 'uncovered_nz':
                out.append((n, st.value))
            elif isinstance(st, ast.Assign) and any(self.key_of(t) == 'uncovered_nz' for t in st.targets) and \
                    not (isinstance(st.value, (ast.List, ast.Tuple)) and not st.value.elts) and \
                    not (isinstance(st.value, ast.Call) and not st.value.args and not st.value.keywords):
                out.append((n, st.value))    # created directly with the entries of this column
        return out


def get_sites(repo):
    pl = Plumbing(repo)
    out = []
    for f in pl.sites():
        thr = pl.thr.get(f.qualname)
        roles = None
        if f.name != 'set_col':
            # a helper reached by delegation: its (icol, column) are what the delegating set_col passes for its own
            cands = {'icol': set(), 'column': set()}
            for d, call, callee, b in pl.deleg:
                if callee is not f:
                    continue
                dps = fparams(d)
                for p, a in b.items():
                    if isinstance(a, ast.Name) and len(dps) >= 2 and a.id == dps[0]:
                        cands['icol'].add(p)
                    elif isinstance(a, ast.Name) and len(dps) >= 2 and a.id == dps[1]:
                        cands['column'].add(p)
            roles = {k: next(iter(v)) for k, v in cands.items() if len(v) == 1}
        try:
            out.append(Site(f, thr, roles))
        except AnalysisError as e:
            pl.broken.append((f, str(e)))
    return pl, out


def report_broken(pl, out):
    for f, why in pl.broken:
        out.unsure(f, f.node, why)


def size_of(e, var):
    """True if e is `var.size`, `len(var)` or `var.shape[0]`."""
    if isinstance(e, ast.Attribute) and e.attr == 'size' and isinstance(e.value, ast.Name) and e.value.id == var:
        return True
    if isinstance(e, ast.Call) and isinstance(e.func, ast.Name) and e.func.id == 'len' and len(e.args) == 1 and \
            isinstance(e.args[0], ast.Name) and e.args[0].id == var:
        return True
    if isinstance(e, ast.Subscript) and is_int(e.slice, 0) and isinstance(e.value, ast.Attribute) and \
            e.value.attr == 'shape' and isinstance(e.value.value, ast.Name) and e.value.value.id == var:
        return True
    return False


_SWAP = {ast.Lt: ast.Gt, ast.LtE: ast.GtE, ast.Gt: ast.Lt, ast.GtE: ast.LtE, ast.Eq: ast.Eq, ast.NotEq: ast.NotEq}


def classify_nz_test(test, var):
    """'nonempty' / 'empty' (meaning of the TRUE outcome), ('wrong', why) or None (not about var)."""
    if var not in names(test):
        return 'unrelated'
    if size_of(test, var):
        return 'nonempty'
    if isinstance(test, ast.UnaryOp) and isinstance(test.op, ast.Not) and size_of(test.operand, var):
        return 'empty'
    if isinstance(test, ast.Compare) and len(test.ops) == 1:
        l, op, r = test.left, type(test.ops[0]), test.comparators[0]
        if size_of(r, var) and op in _SWAP:
            l, op, r = r, _SWAP[op], l
        if size_of(l, var) and isinstance(r, ast.Constant) and isinstance(r.value, int) and \
                not isinstance(r.value, bool):
            c = r.value
            f = {ast.Gt: lambda n: n > c, ast.GtE: lambda n: n >= c, ast.Lt: lambda n: n < c,
                 ast.LtE: lambda n: n <= c, ast.Eq: lambda n: n == c, ast.NotEq: lambda n: n != c}.get(op)
            if f is not None and 0 <= c <= 64:
                truth = [bool(f(n)) for n in range(0, c + 3)]          # sizes 0 .. c+2
                pos = truth[1:]
                if not truth[0] and all(pos):
                    return 'nonempty'
                if truth[0] and not any(pos):
                    return 'empty'
                if all(truth):
                    return 'nonempty'                                   # always true: the false edge is dead
                lost = [n for n in range(1, c + 3) if truth[n] == truth[0]]
                if lost:
                    return ('wrong', f'a column with {lost[0]} uncovered nonzero(s) is treated like a column with '
                            'none and is not recorded')
    return None


def payload_order(site, payload, nzvar):
    """'ok' / 'swapped' / None for the argument of uncovered_nz.extend(...)."""
    p = payload
    if isinstance(p, ast.Call) and isinstance(p.func, ast.Name) and p.func.id in ('list', 'tuple') and len(p.args) == 1:
        p = p.args[0]
    if isinstance(p, ast.Call) and isinstance(p.func, ast.Name) and p.func.id == 'zip' and len(p.args) == 2:
        rn, cn = names(p.args[0]), names(p.args[1])
        if nzvar in rn and site.icol not in rn and site.icol in cn:
            return 'ok'
        if site.icol in rn and nzvar in cn and site.icol not in cn:
            return 'swapped'
        return None
    if isinstance(p, (ast.ListComp, ast.GeneratorExp)) and len(p.generators) == 1 and \
            isinstance(p.elt, ast.Tuple) and len(p.elt.elts) == 2 and isinstance(p.generators[0].target, ast.Name) \
            and nzvar in names(p.generators[0].iter) and not p.generators[0].ifs:
        t = p.generators[0].target.id
        a, b = p.elt.elts
        if isinstance(a, ast.Name) and a.id == t and site.icol in names(b):
            return 'ok'
        if isinstance(b, ast.Name) and b.id == t and site.icol in names(a):
            return 'swapped'
    return None


# =========================================================================== C13.accum
@rule('C13.accum', floor=4)
def accum(repo, out):
    """Every audit site records the uncovered rows of every offending column, as (row, col) pairs."""
    pl, sites = get_sites(repo)
    report_broken(pl, out)
    for s in sites:
        fn, g = s.fn, s.g
        nz = s.nz_defs()
        if len(nz) != 1:
            out.unsure(fn, fn.node, f'expected one `nzs = np.where(...)[0]` definition, found {len(nz)}')
            continue
        nznode, nzvar, _ = nz[0]
        exts = s.extends()
        inits = s.stores('uncovered_nz')
        if not exts:
            appends = [c for c in astx.calls(fn.node) if astx.callee_attr(c) in ('append', 'insert', 'update')
                       and s.key_of(astx.receiver(c)) == 'uncovered_nz']
            if appends:
                out.unsure(fn, appends[0], 'uncovered entries recorded by an unrecognised idiom')
            else:
                out.bad(fn, inits[0].ast if inits else nznode.ast,
                        "info['uncovered_nz'] is created but the offending (row, col) pairs are never added to it: "
                        'no uncovered nonzero of this subjac format is ever reported', key='uncovered-extend')
            continue
        verdict = None
        for t in g.where(lambda n: n.kind == 'test' and isinstance(n.ast, ast.If)):
            c = classify_nz_test(t.ast.test, nzvar)
            if isinstance(c, tuple):
                out.bad(fn, t.ast, f'guard of the uncovered-nonzero bookkeeping is off: {c[1]}', key='uncovered-guard')
                verdict = 'bad'
            elif c is None:
                out.unsure(fn, t.ast, f'unrecognised test on {nzvar}')
                verdict = 'unsure'
        if verdict:
            continue

        def edge_ok(n, m, lab):
            if n.kind == 'test' and isinstance(n.ast, ast.If):
                c = classify_nz_test(n.ast.test, nzvar)
                if c == 'nonempty' and lab == 'false':
                    return False
                if c == 'empty' and lab == 'true':
                    return False
            return True
        w = find_path(g, g.normal_succ(nznode), [g.exit], avoid=[n for n, _ in exts], edge_ok=edge_ok)
        if w is not None:
            out.bad(fn, exts[0][0].ast,
                    'a column with uncovered nonzeros can be processed without adding them to '
                    "info['uncovered_nz'] (e.g. when the list already exists from an earlier column): "
                    + g.fmt_path(w), key='uncovered-extend')
            continue
        worst = 'ok'
        for n, payload in exts:
            o = payload_order(s, payload, nzvar)
            if o is None:
                o = payload_order(s, s.inline(payload, n, keep=(nzvar,)), nzvar)
            if o == 'swapped':
                out.bad(fn, n.ast, f'entries are recorded as (col, row): the report and the jacobian formatter read '
                        f'them as (row, col) -- `{nzvar}` holds the rows, `{s.icol}` is the column',
                        key='uncovered-rowcol')
                worst = 'bad'
            elif o is None:
                out.unsure(fn, n.ast, f'payload of extend not recognised as (rows from {nzvar}, column {s.icol})')
                worst = 'unsure' if worst == 'ok' else worst
        if worst == 'ok':
            out.ok(fn, exts[0][0].ast, f'every path from `{nzvar} = ...` with a non-empty result passes an extend '
                   f'of info["uncovered_nz"] with (rows, {s.icol}) pairs')


# =========================================================================== C13.audit
_COPIES = ('copy', 'array', 'astype')


def _is_copy_of(v, col):
    if isinstance(v, ast.Call) and astx.callee_attr(v) in _COPIES:
        r = astx.receiver(v)
        if isinstance(r, ast.Name) and r.id == col:
            return True
        if v.args and isinstance(v.args[0], ast.Name) and v.args[0].id == col:
            return True
    return False


def _indptr(e, owner_key, icol, plus):
    """e is `<owner>.indptr[icol]` (plus=0) or `<owner>.indptr[icol + 1]` (plus=1)."""
    if not (isinstance(e, ast.Subscript) and isinstance(e.value, ast.Attribute) and e.value.attr == 'indptr'
            and K(e.value.value) == owner_key):
        return False
    i = e.slice
    if plus == 0:
        return isinstance(i, ast.Name) and i.id == icol
    if isinstance(i, ast.BinOp) and isinstance(i.op, ast.Add):
        a, b = i.left, i.right
        if isinstance(b, ast.Name):
            a, b = b, a
        return isinstance(a, ast.Name) and a.id == icol and is_int(b, 1)
    return False


@rule('C13.audit', floor=4)
def audit(repo, out):
    """The audit flags |column| > threshold on exactly the rows that were not stored into the pattern."""
    pl, sites = get_sites(repo)
    report_broken(pl, out)
    row_col = coo_roles(pl)
    for s in sites:
        fn, g = s.fn, s.g
        nz = s.nz_defs()
        if len(nz) != 1:
            out.unsure(fn, fn.node, f'expected one `nzs = np.where(...)[0]` definition, found {len(nz)}')
            continue
        nznode, nzvar, cond = nz[0]
        if s.thr is None:
            out.unsure(fn, fn.node, 'threshold parameter of this audit site not identified')
            continue
        if not (isinstance(cond, ast.Compare) and len(cond.ops) == 1 and
                isinstance(cond.ops[0], (ast.Lt, ast.LtE, ast.Gt, ast.GtE))):
            out.unsure(fn, nznode.ast, 'nonzero test is not a single magnitude comparison')
            continue
        big, small = cond.left, cond.comparators[0]
        if isinstance(cond.ops[0], (ast.Lt, ast.LtE)):
            big, small = small, big
        if s.thr in names(big) and s.thr not in names(small):
            out.bad(fn, nznode.ast, f'comparison is inverted: entries BELOW `{s.thr}` are reported as uncovered '
                    'nonzeros and real ones are not', key='audit-compare')
            continue
        if not (isinstance(small, ast.Name) and small.id == s.thr):
            if isinstance(small, ast.Constant):
                out.bad(fn, nznode.ast, f'magnitudes are compared with the constant {small.value!r}, not with the '
                        f'threshold `{s.thr}` that is stored and printed in the report', key='audit-compare')
            else:
                out.unsure(fn, nznode.ast, f'magnitudes are not compared with the plain threshold `{s.thr}`')
            continue
        inner = abs_arg(big)
        if inner is None:
            b2 = s.inline(big, nznode)
            inner2 = abs_arg(b2)
            if inner2 is None:
                out.bad(fn, nznode.ast, f'`{astx.src(big)}` is compared without taking its magnitude: negative '
                        'out-of-pattern entries are never flagged', key='audit-abs')
                continue
            # abs taken in an earlier statement: audited array is the argument of that abs
            u = s.unique_def(big.id, nznode) if isinstance(big, ast.Name) else None
            inner = abs_arg(u[0]) if u else None
            if inner is None:
                out.unsure(fn, nznode.ast, 'magnitude taken through an unrecognised chain')
                continue
        if not isinstance(inner, ast.Name):
            out.unsure(fn, nznode.ast, f'audited array `{astx.src(inner)}` is not a local array')
            continue
        arr = inner.id
        start = [g.entry]
        if arr != s.column:
            u = s.unique_def(arr, nznode)
            if u is None:
                out.unsure(fn, nznode.ast, f'`{arr}` has no unique definition')
                continue
            if _is_copy_of(u[0], s.column):
                start = g.normal_succ(u[1])
            elif isinstance(u[0], ast.Name) and u[0].id == s.column:
                start = g.normal_succ(u[1])
            elif s.column not in names(s.inline(u[0], u[1])):
                out.bad(fn, u[1].ast, f'the audited array `{arr}` is not derived from the column being set '
                        f'(`{s.column}`)', key='audit-operand')
                continue
            else:
                out.unsure(fn, u[1].ast, f'`{arr}` is derived from `{s.column}` by an unrecognised expression')
                continue
        targets = {arr, s.column} if arr == s.column or not _is_copy_of(s.unique_def(arr, nznode)[0], s.column) \
            else {arr}

        def zero_store(n):
            if n.kind != 'stmt' or not isinstance(n.ast, ast.Assign) or len(n.ast.targets) != 1:
                return False
            t = n.ast.targets[0]
            return isinstance(t, ast.Subscript) and isinstance(t.value, ast.Name) and t.value.id in targets and \
                is_zero(n.ast.value)
        zs = g.where(zero_store)
        w = find_path(g, start, [nznode], avoid=zs)
        if w is not None or not zs:
            out.bad(fn, nznode.ast, f'the rows covered by the declared pattern are not zeroed in `{arr}` before the '
                    'magnitude test: declared entries are reported as uncovered nonzeros', key='audit-covered-rows')
            continue
        # value stores: <something>[..] = column[ROWS]
        gathers = []
        for n in g.where(lambda n: n.kind == 'stmt' and isinstance(n.ast, ast.Assign) and len(n.ast.targets) == 1):
            v, t = n.ast.value, n.ast.targets[0]
            if isinstance(t, ast.Subscript) and isinstance(v, ast.Subscript) and isinstance(v.value, ast.Name) and \
                    v.value.id == s.column and not (isinstance(t.value, ast.Name) and t.value.id in targets):
                gathers.append(n)
        if len(gathers) != 1:
            out.unsure(fn, fn.node, f'expected one store `pattern_data[...] = {s.column}[rows]`, found {len(gathers)}')
            continue
        gn = gathers[0]
        rows_stored = s.inline(gn.ast.value.slice, gn)
        bad = False
        for z in zs:
            rz = s.inline(z.ast.targets[0].slice, z)
            if K(rz) != K(rows_stored):
                out.bad(fn, z.ast, f'rows zeroed before the audit (`{astx.src(z.ast.targets[0].slice)}`) are not the '
                        f'rows stored into the pattern (`{astx.src(gn.ast.value.slice)}`): covered and audited '
                        'entries disagree', key='audit-covered-rows')
                bad = True
        if bad:
            continue
        if arr == s.column or targets != {arr}:
            # in-place variant: the value must be stored before the column is zeroed (or after a restore)
            restores = g.where(lambda n: n.kind == 'stmt' and isinstance(n.ast, ast.Assign) and
                               len(n.ast.targets) == 1 and isinstance(n.ast.targets[0], ast.Subscript) and
                               isinstance(n.ast.targets[0].value, ast.Name) and
                               n.ast.targets[0].value.id in targets and not is_zero(n.ast.value))
            w = find_path(g, [m for z in zs for m in g.normal_succ(z)], [gn], avoid=restores)
            if w is not None:
                out.bad(fn, gn.ast, f'`{s.column}` is zeroed in place before its value is stored: the approximated '
                        'entry is recorded as 0', key='audit-inplace-order')
                continue
        # shape of the stored rows: they must be the rows of column `icol` of the declared pattern
        why = _rows_of_column(s, gn, rows_stored, row_col.get(fn.qualname))
        if why is None:
            out.unsure(fn, gn.ast, 'row selection of the stored column not recognised')
            continue
        if why is not True:
            out.bad(fn, gn.ast, why, key='column-rows')
            continue
        out.ok(fn, nznode.ast, f'|{arr}| > {s.thr} with exactly the stored rows `{astx.src(gn.ast.value.slice)}` '
               f'zeroed; stored rows are the rows of column {s.icol}')


def coo_roles(pl):
    """qualname of a delegated audit function -> {'row': param, 'col': param} from the delegators' arguments."""
    roles = {}
    for f, call, callee, b in pl.deleg:
        r = roles.setdefault(callee.qualname, {})
        for p, a in b.items():
            last = a.attr if isinstance(a, ast.Attribute) else None
            if last in ('row', 'rows'):
                r.setdefault('row', set()).add(p)
            elif last in ('col', 'cols'):
                r.setdefault('col', set()).add(p)
    return roles


def _rows_of_column(s, gn, rows, roles):
    """True / explanation string (wrong) / None (unknown) for the row selection of the value store."""
    tgt = gn.ast.targets[0]
    tslice = s.inline(tgt.slice, gn)
    # diagonal: row == col == icol
    if isinstance(rows, ast.Name) and rows.id == s.icol:
        if isinstance(tslice, ast.Name) and tslice.id == s.icol:
            return True
        return f'diagonal entry {s.icol} of the column is stored at `{astx.src(tgt.slice)}`'
    # CSC-like: X.indices[X.indptr[icol]:X.indptr[icol + 1]], stored into X.data[same slice]
    if isinstance(rows, ast.Subscript) and isinstance(rows.value, ast.Attribute) and rows.value.attr == 'indices' \
            and isinstance(rows.slice, ast.Slice) and rows.slice.step is None:
        owner = K(rows.value.value)
        tv = s.inline(tgt.value, gn)
        if not (isinstance(tv, ast.Attribute) and tv.attr == 'data' and K(tv.value) == owner):
            return None
        if K(tslice) != K(rows.slice):
            return (f'data slice `{astx.src(tgt.slice)}` and row-index slice `{astx.src(rows.slice)}` differ: values '
                    'are stored at positions that belong to other rows')
        lo, hi = rows.slice.lower, rows.slice.upper
        if lo is None or hi is None or isinstance(lo, ast.Name) or isinstance(hi, ast.Name):
            return None
        if not _indptr(lo, owner, s.icol, 0) or not _indptr(hi, owner, s.icol, 1):
            return (f'column {s.icol} of a compressed-column matrix spans indptr[{s.icol}]:indptr[{s.icol} + 1]; found '
                    f'`{astx.src(rows.slice)}`')
        return True
    # COO-like: row[col == icol], stored into data[col == icol]
    if isinstance(rows, ast.Subscript) and isinstance(rows.value, ast.Name) and roles:
        rowp, colp = roles.get('row', set()), roles.get('col', set())
        if len(rowp) != 1 or len(colp) != 1:
            return None
        rowp, colp = next(iter(rowp)), next(iter(colp))
        mask = rows.slice
        if K(tslice) != K(mask):
            return f'values are stored under mask `{astx.src(tgt.slice)}` but gathered with `{astx.src(mask)}`'
        if not (isinstance(mask, ast.Compare) and len(mask.ops) == 1 and isinstance(mask.ops[0], ast.Eq)):
            return None
        a, b = mask.left, mask.comparators[0]
        if isinstance(b, ast.Name) and b.id in (rowp, colp):
            a, b = b, a
        if not (isinstance(a, ast.Name) and isinstance(b, ast.Name) and b.id == s.icol):
            return None
        if a.id == rowp or rows.value.id == colp:
            return (f'entries of column {s.icol} are selected with `{astx.src(mask)}` and gathered from '
                    f'`{rows.value.id}`: rows and columns of the pattern are exchanged')
        if a.id == colp and rows.value.id == rowp:
            return True
    return None


# =========================================================================== C13.thread
DENSE_OK = {'DenseSubjac.set_col': 'dense subjac: every row of the column is stored, nothing can be uncovered'}


@rule('C13.thread', floor=11)
def thread(repo, out):
    """The threshold handed to _CheckingJacobian reaches the audit of every concrete Subjac class."""
    pl, sites = get_sites(repo)
    for f, node, why, key, is_bad in pl.problems:
        (out.bad(f, node, why, key=key) if is_bad else out.unsure(f, node, why))
    site_names = {s.fn.qualname for s in sites}
    # (a) constructor stores the threshold
    init = repo.func(DJAC, '_CheckingJacobian.__init__')
    attr = None
    for st in astx.walk_stmts(init.node.body):
        if isinstance(st, ast.Assign) and len(st.targets) == 1 and isinstance(st.value, ast.Name) and \
                st.value.id in fparams(init) and 'threshold' in st.value.id and \
                (astx.path(st.targets[0]) or '').startswith('self.'):
            attr = astx.path(st.targets[0])
            out.ok(init, st, f'threshold parameter stored in {attr}')
    if attr is None:
        out.bad(init, init.node, 'the uncovered_threshold argument is not stored on the checking jacobian',
                key='threshold-store')
        return
    # (b) dispatch
    sc = Ctx(repo.func(DJAC, '_CheckingJacobian.set_col'))
    g = sc.g
    calls = []
    for n in g.where(lambda n: n.kind == 'stmt'):
        for c in n.calls():
            if astx.callee_attr(c) == 'set_col' and astx.path(astx.receiver(c)) not in ('self', 'super()'):
                calls.append((n, c))
    if not calls:
        raise AnalysisError('_CheckingJacobian.set_col no longer calls subjac.set_col')
    colparam = fparams(sc.fn)[2] if len(fparams(sc.fn)) >= 3 else None
    good_calls = []
    for n, c in calls:
        a = c.args[2] if len(c.args) >= 3 else None
        kwn = None
        if a is None:
            for k in c.keywords:
                if k.arg and 'threshold' in k.arg:
                    a, kwn = k.value, k.arg
        if a is None:
            out.bad(sc.fn, c, 'subjac.set_col is called without the threshold: the sparsity audit of this subjac '
                    'kind is silently skipped (default None)', key='audit-dispatch')
            continue
        if kwn is not None and any(pl.thr.get(f.qualname) != kwn for f in pl.set_cols):
            out.unsure(sc.fn, c, f'keyword `{kwn}` is not the threshold parameter of every Subjac.set_col')
            continue
        ai = sc.inline(a, n)
        if astx.path(ai) != attr:
            if isinstance(ai, ast.Constant):
                out.bad(sc.fn, c, f'the threshold passed to the audit is the constant {ai.value!r}, not {attr}',
                        key='audit-dispatch')
            else:
                out.unsure(sc.fn, c, f'threshold argument `{astx.src(a)}` is not {attr}')
            continue
        col = sc.inline(c.args[1], n) if len(c.args) > 1 else None
        if not (isinstance(col, ast.Subscript) and isinstance(col.value, ast.Name) and col.value.id == colparam
                and isinstance(col.slice, ast.Slice)):
            out.unsure(sc.fn, c, 'column argument is not a slice of the incoming column')
            continue
        loop = astx.enclosing(n.ast, (ast.For,))
        lt = [t.id for t in loop.target.elts if isinstance(t, ast.Name)] if loop is not None and \
            isinstance(loop.target, ast.Tuple) else []
        lo, hi = col.slice.lower, col.slice.upper
        if not (isinstance(lo, ast.Name) and isinstance(hi, ast.Name) and len(lt) >= 3 and
                (lo.id, hi.id) == (lt[1], lt[2])):
            if isinstance(lo, ast.Name) and isinstance(hi, ast.Name) and len(lt) >= 3 and (hi.id, lo.id) == (lt[1], lt[2]):
                out.bad(sc.fn, c, 'row range of the `of` variable is reversed', key='audit-dispatch')
            else:
                out.unsure(sc.fn, c, 'column slice is not the (start, end) row range of the `of` variable')
            continue
        good_calls.append(c)
    if len(good_calls) == len(calls):
        # one instance however many branches the dispatch is written with (3 per-kind calls or one hoisted call)
        out.ok(sc.fn, good_calls[0], f'{attr} and the (start:end) rows of the column are passed by all '
               f'{len(calls)} subjac.set_col call(s)')
        out.count('dispatch_calls', len(calls))
    # every iteration that has a subjac for (of, wrt) audits it exactly once
    loops = {astx.enclosing(n.ast, (ast.For,)) for n, _ in calls}
    if len(loops) == 1 and None not in loops:
        loop = loops.pop()
        hdr = g.nodes_of(loop)[0]
        cn = [n for n, _ in calls]
        # container the subjacs are fetched from: `subjac = <container>[key]`
        conts = set()
        for n, c in calls:
            r = astx.receiver(c)
            ri = sc.inline(r, n) if r is not None else None
            if isinstance(ri, ast.Subscript) and isinstance(ri.value, ast.Name):
                conts.add(ri.value.id)

        def presence(t):
            """True/False: outcome of test t on which the key is PRESENT in the subjac container; None: other test."""
            neg = False
            while isinstance(t, ast.UnaryOp) and isinstance(t.op, ast.Not):
                t, neg = t.operand, not neg
            if isinstance(t, ast.Compare) and len(t.ops) == 1 and isinstance(t.ops[0], (ast.In, ast.NotIn)) and \
                    isinstance(t.comparators[0], ast.Name) and (not conts or t.comparators[0].id in conts):
                return isinstance(t.ops[0], ast.In) != neg
            return None
        body = set(g.body_nodes(loop))
        member = [t for t in g.where(lambda n: n.kind == 'test' and isinstance(n.ast, ast.If))
                  if t in body and presence(t.ast.test) is not None]
        if member:
            def edge_ok(n, m, lab):
                if n in member and lab in ('true', 'false'):
                    return (lab == 'true') == presence(n.ast.test)     # follow only the key-present outcome
                return True
            st = [m for m, lab in g.succ[hdr] if lab == 'true']
            w = find_path(g, st, [hdr, g.exit], avoid=cn, edge_ok=edge_ok)
            if w is not None:
                out.bad(sc.fn, member[0].ast, 'a subjac present for (of, wrt) can be skipped without set_col: its '
                        'approximation is neither stored nor audited: ' + g.fmt_path(w), key='audit-dispatch-once')
            else:
                twice = [n for n in cn if set(g.reach(g.normal_succ(n), avoid=[hdr], labels=cfgm.noexc)) & set(cn)]
                if twice:
                    out.bad(sc.fn, twice[0].ast, 'set_col can run twice for one subjac and column: uncovered entries '
                            'are recorded twice', key='audit-dispatch-once')
                else:
                    out.ok(sc.fn, member[0].ast, 'exactly one subjac.set_col per present (of, wrt) and column')
        else:
            out.unsure(sc.fn, loop, 'membership test `key in subjacs` not found')
    else:
        out.unsure(sc.fn, sc.fn.node, 'subjac.set_col calls are not in one loop over the `of` variables')
    # (c) delegations
    verified = set()
    for f, call, callee, b in pl.deleg:
        thr = pl.thr.get(f.qualname)
        cthr = pl.thr.get(callee.qualname)
        passed = [p for p, a in b.items() if isinstance(a, ast.Name) and a.id == thr]
        if cthr is None or not passed:
            out.bad(f, call, f'`{thr}` is not forwarded to {callee.qualname}: the audit of this subjac format is '
                    'silently skipped (default None)', key='threshold-forward')
            continue
        if passed != [cthr]:
            out.bad(f, call, f'`{thr}` is forwarded into parameter {passed} of {callee.qualname}, the audit reads '
                    f'`{cthr}`', key='threshold-forward')
            continue
        cps, fps = fparams(callee), fparams(f)
        wrong = [(q, q) for q in fps[:2]
                 if q in cps and not (isinstance(b.get(q), ast.Name) and b[q].id == q)]
        if wrong:
            out.bad(f, call, f'{callee.qualname} parameter `{wrong[0][0]}` does not receive `{wrong[0][1]}`',
                    key='threshold-forward')
            continue
        swapped = [p for p, a in b.items() if isinstance(a, ast.Attribute) and
                   ((a.attr in ('row', 'rows') and p.startswith('col')) or
                    (a.attr in ('col', 'cols') and p.startswith('row')))]
        if swapped:
            out.bad(f, call, f'row and column index arrays are exchanged in the call of {callee.qualname}',
                    key='threshold-forward')
            continue
        cf = Ctx(f)
        cnodes = [n for n in cf.g.where(lambda n: n.kind == 'stmt') if call in n.calls()]
        pure_forward = not any(isinstance(x, (ast.If, ast.While, ast.For, ast.Try)) for x in cf.stmts())
        if pure_forward and find_path(cf.g, [cf.g.entry], [cf.g.exit], avoid=cnodes) is not None:
            out.bad(f, call, f'{f.qualname} can return without calling {callee.qualname}', key='threshold-forward')
            continue
        verified.add(f.qualname)
        out.ok(f, call, f'{thr} forwarded to {callee.qualname}({cthr})')
    # (d) class coverage
    for cls in pl.classes:
        f = pl.lookup(cls, 'set_col')
        if f is None:
            if cls in _concrete(repo):
                out.bad((SUBJAC, cls), repo.cls(SUBJAC, cls), f'{cls} is instantiated by get_subjac_class but has '
                        'no set_col', key=f'set-col-{cls}')
            continue
        if f.qualname in site_names or f.qualname in verified:
            out.ok((SUBJAC, cls), repo.cls(SUBJAC, cls), f'{cls}.set_col -> {f.qualname} (audited)')
        elif f.qualname in DENSE_OK and (SUBJAC, 'SparseSubjac') not in repo.mro(SUBJAC, cls):
            out.ok((SUBJAC, cls), repo.cls(SUBJAC, cls), DENSE_OK[f.qualname])
        elif any(f.qualname == d[0].qualname for d in pl.deleg):
            continue   # reported above
        else:
            out.bad((SUBJAC, cls), repo.cls(SUBJAC, cls),
                    f'{cls}.set_col resolves to {f.qualname}, which takes the threshold but neither audits the '
                    'column nor forwards to an auditing method: uncovered nonzeros of this format are never '
                    'flagged', key=f'set-col-{cls}')


def _concrete(repo):
    """Class names returned by Subjac.get_subjac_class / listed in _sparse_subjac_types."""
    m = repo.module(SUBJAC)
    out = set()
    f = m.funcs.get('Subjac.get_subjac_class')
    if f is not None:
        for st in astx.walk_stmts(f.node.body):
            if isinstance(st, ast.Return) and isinstance(st.value, ast.Name):
                out.add(st.value.id)
    for st in m.tree.body:
        if isinstance(st, ast.Assign) and isinstance(st.value, ast.Dict) and \
                any(astx.path(t) == '_sparse_subjac_types' for t in st.targets):
            out |= {v.id for v in st.value.values if isinstance(v, ast.Name)}
    return out


# =========================================================================== C13.schema
def _unroll_const_loops(body):
    """Statements of a body with `for v in (<constants>): ...` replaced by one copy of the loop body per constant."""
    for st in body:
        if isinstance(st, ast.For) and isinstance(st.target, ast.Name) and isinstance(st.iter, (ast.Tuple, ast.List)) \
                and st.iter.elts and all(isinstance(c, ast.Constant) for c in st.iter.elts) and not st.orelse and \
                not any(isinstance(x, (ast.Break, ast.Continue)) for x in astx.walk_stmts(st.body)) and \
                st.target.id not in {t.id for s2 in astx.walk_stmts(st.body) for t in astx.assigned_targets(s2)
                                     if isinstance(t, ast.Name)}:
            var = st.target.id
            for c in st.iter.elts:
                def sub(n, c=c):
                    if isinstance(n, ast.Name) and n.id == var:
                        return ast.copy_location(ast.Constant(value=c.value), n)
                    return None
                yield from _unroll_const_loops([clone(x, sub) for x in st.body])
        else:
            yield st


def _in_test_key(test):
    """(key, container name) of a test `'key' in name`."""
    if isinstance(test, ast.Compare) and len(test.ops) == 1 and isinstance(test.ops[0], ast.In) and \
            astx.const_str(test.left) and isinstance(test.comparators[0], ast.Name):
        return astx.const_str(test.left), test.comparators[0].id
    return None


@rule('C13.schema', floor=7)
def schema(repo, out):
    """Every key the report reads under 'uncovered_nz' is copied by check_partials and written by every audit site."""
    cp = repo.func(COMP, 'Component.check_partials')
    copied = {}
    optional = set()
    guard = None
    for st in astx.walk_stmts(cp.node.body):
        if isinstance(st, ast.If) and _in_test_key(st.test) and _in_test_key(st.test)[0] == 'uncovered_nz':
            guard = st
            src = _in_test_key(st.test)[1]
            for s2 in _unroll_const_loops(st.body):
                if isinstance(s2, ast.Assign) and len(s2.targets) == 1 and isinstance(s2.targets[0], ast.Subscript) \
                        and isinstance(s2.value, ast.Call) and astx.callee_attr(s2.value) == 'get' and \
                        astx.path(astx.receiver(s2.value)) == src and s2.value.args and \
                        astx.const_str(s2.value.args[0]) and astx.const_str(s2.targets[0].slice):
                    k1, k2 = astx.const_str(s2.targets[0].slice), astx.const_str(s2.value.args[0])
                    if k1 != k2:
                        out.bad(cp, s2, f"audit result '{k2}' is handed to the report under key '{k1}'", key='copy-key')
                    else:
                        optional.add(k1)
                        copied[k1] = s2
                        out.ok(cp, s2, f"'{k1}' handed over if present")
                    continue
                if isinstance(s2, ast.Assign) and len(s2.targets) == 1 and isinstance(s2.targets[0], ast.Subscript) \
                        and isinstance(s2.value, ast.Subscript) and isinstance(s2.value.value, ast.Name) and \
                        s2.value.value.id == src:
                    k1, k2 = astx.const_str(s2.targets[0].slice), astx.const_str(s2.value.slice)
                    if k1 is None or k2 is None:
                        out.unsure(cp, s2, 'non-literal key in the uncovered_nz hand-over')
                    elif k1 != k2:
                        out.bad(cp, s2, f"audit result '{k2}' is handed to the report under key '{k1}'", key='copy-key')
                    else:
                        copied[k1] = s2
                        out.ok(cp, s2, f"'{k1}' handed from the checking jacobian to the result dict")
    if guard is None:
        raise AnalysisError("Component.check_partials no longer tests `'uncovered_nz' in <subjac info>`")
    if 'uncovered_nz' not in copied:
        out.bad(cp, guard, "the recorded uncovered nonzeros are not handed to the result dict", key='copy-key')
    # the long report
    dd = repo.func(DISP, '_deriv_display')
    for st in astx.walk_stmts(dd.node.body):
        if isinstance(st, ast.If) and _in_test_key(st.test) and _in_test_key(st.test)[0] == 'uncovered_nz':
            src = _in_test_key(st.test)[1]
            read = set()
            for s2 in st.body:
                for n in astx.walk(s2):
                    if isinstance(n, ast.Subscript) and isinstance(n.value, ast.Name) and n.value.id == src and \
                            astx.const_str(n.slice):
                        read.add(astx.const_str(n.slice))
            missing = sorted(read - set(copied))
            if missing:
                out.bad(dd, st, f'the report reads {missing} which check_partials never hands over', key='display-key')
            else:
                out.ok(dd, st, f'report reads {sorted(read)}, all handed over')
    required = sorted(set(copied) - {'uncovered_nz'} - optional)
    pl, sites = get_sites(repo)
    report_broken(pl, out)
    for s in sites:
        g = s.g
        created = list(s.stores('uncovered_nz'))
        for n, _ in s.extends():
            r = astx.receiver(n.ast.value) if isinstance(n.ast, ast.Expr) else None
            if isinstance(r, ast.Call):
                created.append(n)   # setdefault(...) creates on demand
        if not created:
            out.unsure(s.fn, s.fn.node, "creation of info['uncovered_nz'] not recognised")
            continue
        bad = False
        for k in required:
            ks = list(s.stores(k))
            vals = [n.ast.value for n in ks]
            for n in g.where(lambda n: n.kind == 'stmt' and isinstance(n.ast, ast.Expr) and
                             isinstance(n.ast.value, ast.Call)):
                c = n.ast.value
                if astx.callee_attr(c) == 'setdefault' and len(c.args) == 2 and astx.const_str(c.args[0]) == k and \
                        astx.path(astx.receiver(c)) in s.aliases:
                    ks.append(n)
                    vals.append(c.args[1])
            leak = None
            for cnode in created:
                if cnode in ks:
                    continue
                if find_path(g, [g.entry], [cnode], avoid=ks) is not None and \
                        find_path(g, g.normal_succ(cnode), [g.exit], avoid=ks) is not None:
                    leak = cnode
            if leak is not None:
                out.bad(s.fn, leak.ast, f"info['uncovered_nz'] is created without info['{k}']: "
                        f"Component.check_partials reads subjacs_info['{k}'] whenever 'uncovered_nz' is present and "
                        'raises KeyError for this subjac format', key=f'missing-{k}')
                bad = True
                continue
            if k == 'uncovered_threshold':
                for v, n in zip(vals, ks):
                    if isinstance(v, ast.Name) and s.thr is not None and v.id != s.thr:
                        out.bad(s.fn, n.ast, f"info['{k}'] is set from `{v.id}`, the audit compares with `{s.thr}`",
                                key=f'value-{k}')
                        bad = True
                    elif not isinstance(v, ast.Name):
                        out.unsure(s.fn, n.ast, f"info['{k}'] is not set from the threshold parameter")
                        bad = True
        if not bad:
            out.ok(s.fn, created[0].ast, f'{required} written whenever uncovered_nz is created')
    enforce_floor(out, cp, 7)


# =========================================================================== C13.fresh / C13.snapshot
_META_COPY = ('copy', 'dict', 'deepcopy')


def _copy_call_of(v, src_names):
    """'copy' / 'deepcopy' if v is `<src>.copy()`, `dict(<src>)`, `copy(<src>)`, `deepcopy(<src>)`; else None."""
    if not isinstance(v, ast.Call):
        return None
    ca = astx.callee_attr(v)
    if ca not in _META_COPY:
        return None
    r = astx.receiver(v)
    if ca == 'copy' and isinstance(r, ast.Name) and r.id in src_names and not v.args:
        return 'copy'
    if v.args and isinstance(v.args[0], ast.Name) and v.args[0].id in src_names and \
            (r is None or astx.path(r) in ('copy', 'cp')):
        return 'deepcopy' if ca == 'deepcopy' else 'copy'
    return None


def _builder_loop_kind(ctx, dname, assign_node):
    """Kind of `D = {}; for k, m in self._subjacs_info.items(): ...; D[k] = <copy of m>; self._subjacs_info = D`.

    Returns 'deep' (metadata dicts and their 'val' arrays are copied), 'perkey' (metadata dicts copied, 'val'
    arrays shared), 'shallow' (new outer dict, metadata dicts shared) or None (not recognised).
    """
    g = ctx.g
    u = ctx.unique_def(dname, assign_node)
    if u is None or not ((isinstance(u[0], ast.Dict) and not u[0].keys) or
                         (isinstance(u[0], ast.Call) and isinstance(u[0].func, ast.Name) and u[0].func.id == 'dict'
                          and not u[0].args and not u[0].keywords)):
        return None
    loops = [st for st in ctx.stmts() if isinstance(st, ast.For) and isinstance(st.iter, ast.Call) and
             astx.callee_attr(st.iter) == 'items' and astx.path(astx.receiver(st.iter)) == 'self._subjacs_info'
             and isinstance(st.target, ast.Tuple) and len(st.target.elts) == 2 and
             all(isinstance(t, ast.Name) for t in st.target.elts)]
    if len(loops) != 1:
        return None
    loop = loops[0]
    hdr = g.nodes_of(loop)[0]
    kvar, mvar = loop.target.elts[0].id, loop.target.elts[1].id
    body = set(g.body_nodes(loop))
    stores = [n for n in g.where(lambda n: n.kind == 'stmt' and isinstance(n.ast, ast.Assign) and
                                 len(n.ast.targets) == 1) if n in body and
              isinstance(n.ast.targets[0], ast.Subscript) and isinstance(n.ast.targets[0].value, ast.Name) and
              n.ast.targets[0].value.id == dname]
    if len(stores) != 1 or not (isinstance(stores[0].ast.targets[0].slice, ast.Name) and
                                stores[0].ast.targets[0].slice.id == kvar):
        return None
    st = stores[0]
    entry = [m for m, lab in g.succ[hdr] if lab == 'true']
    if find_path(g, entry, [hdr], avoid=[st]) is not None:
        return None      # some entries are not carried over at all: not a plain detach
    # the loop must have run before the new dict replaces the old one
    if find_path(g, g.normal_succ(u[1]), [assign_node], avoid=[hdr]) is not None:
        return None
    v = st.ast.value
    kinds = set()
    copy_nodes = []
    if isinstance(v, ast.Name):
        for d in ctx.rd.defs(st, v.id):
            if d is hdr:
                kinds.add('shared')          # the component's own metadata dict is stored
            elif d.kind == 'stmt' and isinstance(d.ast, ast.Assign) and len(d.ast.targets) == 1 and d in body:
                k = _copy_call_of(d.ast.value, {mvar})
                # `meta = meta.copy()` : the source must still be the loop variable
                if k and ctx.rd.defs(d, mvar) == {hdr}:
                    kinds.add(k)
                    copy_nodes.append(d)
                else:
                    kinds.add(None)
            else:
                kinds.add(None)
        cname = v.id
    else:
        k = _copy_call_of(v, {mvar})
        kinds.add(k if k and ctx.rd.defs(st, mvar) == {hdr} else None)
        cname = None
    if None in kinds or not kinds:
        return None
    if 'shared' in kinds:
        return 'shallow'
    if kinds == {'deepcopy'}:
        return 'deep'
    if cname is None:
        return 'perkey'
    # value arrays: `<copy>['val'] = <copy>['val'].copy()` between the dict copy and the store; it may only be
    # skipped on the false side of a test about 'val' itself (None / scalar values have nothing to share)
    def val_copy(n):
        if n.kind != 'stmt' or n not in body or not isinstance(n.ast, ast.Assign) or len(n.ast.targets) != 1:
            return False
        t, vv = n.ast.targets[0], n.ast.value
        if not (isinstance(t, ast.Subscript) and isinstance(t.value, ast.Name) and t.value.id == cname and
                astx.const_str(t.slice) == 'val' and isinstance(vv, ast.Call)):
            return False
        src = astx.receiver(vv) if astx.callee_attr(vv) == 'copy' and not vv.args else \
            (vv.args[0] if astx.callee_attr(vv) in ('array', 'copy', 'deepcopy') and vv.args else None)
        return isinstance(src, ast.Subscript) and isinstance(src.value, ast.Name) and \
            src.value.id in (cname, mvar) and astx.const_str(src.slice) == 'val'
    vcs = g.where(val_copy)
    if not vcs:
        return 'perkey'

    def edge_ok(n, m, lab):
        if n.kind == 'test' and isinstance(n.ast, ast.If) and lab == 'false' and \
                any(astx.in_body(vc.ast, n.ast, 'body') for vc in vcs) and astx.mentions(n.ast.test, 'val') and \
                names(n.ast.test) <= {cname, mvar, 'hasattr', 'isinstance', 'np', 'numpy', 'issparse'}:
            return False
        return True
    starts = [m for c in copy_nodes for m in g.normal_succ(c)]
    if find_path(g, starts, [st], avoid=vcs, edge_ok=edge_ok) is not None:
        return 'perkey'
    return 'deep'


def _setup_copy_kind(repo):
    """How _CheckingJacobian._setup detaches its metadata from the component: (kind, node, Func).

    kind: 'deep' = per-pair metadata dicts AND their value arrays are private; 'perkey' = metadata dicts private,
    value arrays shared; 'shallow' = only the outer dict is new; 'none' = nothing replaces self._subjacs_info;
    None = not recognised.
    """
    f = repo.func(DJAC, '_CheckingJacobian._setup')
    ctx = Ctx(f)
    kind, node = 'none', f.node
    assigns = [n for n in ctx.g.where(lambda n: n.kind == 'stmt' and isinstance(n.ast, ast.Assign))
               if any(astx.path(t) == 'self._subjacs_info' for t in n.ast.targets)]
    if len(assigns) > 1:
        return None, assigns[-1].ast, f
    for n in assigns:
        st = n.ast
        v = st.value
        node = st
        if find_path(ctx.g, [ctx.g.entry], [ctx.g.exit], avoid=[n]) is not None:
            kind = None          # replaced on some paths only
        elif isinstance(v, ast.Call) and astx.callee_attr(v) == 'deepcopy' and v.args and \
                astx.path(v.args[0]) == 'self._subjacs_info':
            kind = 'deep'
        elif isinstance(v, ast.Call) and astx.callee_attr(v) == 'copy' and \
                (astx.path(astx.receiver(v)) == 'self._subjacs_info' or
                 (v.args and astx.path(v.args[0]) == 'self._subjacs_info')):
            kind = 'shallow'
        elif isinstance(v, ast.Call) and isinstance(v.func, ast.Name) and v.func.id == 'dict' and len(v.args) == 1 \
                and astx.path(v.args[0]) == 'self._subjacs_info':
            kind = 'shallow'
        elif isinstance(v, ast.DictComp) and len(v.generators) == 1 and not v.generators[0].ifs and \
                isinstance(v.generators[0].iter, ast.Call) and astx.callee_attr(v.generators[0].iter) == 'items' and \
                astx.path(astx.receiver(v.generators[0].iter)) == 'self._subjacs_info' and \
                isinstance(v.generators[0].target, ast.Tuple) and len(v.generators[0].target.elts) == 2 and \
                all(isinstance(t, ast.Name) for t in v.generators[0].target.elts) and \
                isinstance(v.key, ast.Name) and v.key.id == v.generators[0].target.elts[0].id:
            mv = v.generators[0].target.elts[1].id
            k = _copy_call_of(v.value, {mv})
            kind = 'deep' if k == 'deepcopy' else 'perkey' if k == 'copy' else \
                'shallow' if isinstance(v.value, ast.Name) and v.value.id == mv else None
        elif isinstance(v, ast.Name):
            kind = _builder_loop_kind(ctx, v.id, n)
        else:
            kind = None
    return kind, node, f


def _resets_key(repo, key):
    """A loop over the metadata in _CheckingJacobian._setup that removes `key` from every entry."""
    f = repo.func(DJAC, '_CheckingJacobian._setup')
    for st in astx.walk_stmts(f.node.body):
        if isinstance(st, ast.For) and 'self._subjacs_info' in (astx.path(astx.receiver(st.iter)) or ''):
            for c in astx.calls(st):
                if astx.callee_attr(c) == 'pop' and c.args and astx.const_str(c.args[0]) == key:
                    return True
            for s2 in astx.walk_stmts(st.body):
                if isinstance(s2, ast.Delete) and any(isinstance(t, ast.Subscript) and
                                                      astx.const_str(t.slice) == key for t in s2.targets):
                    return True
    return False


def _shared_premise(repo, out):
    """Subjac.info is the dict handed in, and a Jacobian starts from the system's own _subjacs_info."""
    ok = True
    si = repo.func(SUBJAC, 'Subjac.__init__')
    st = [s for s in astx.walk_stmts(si.node.body) if isinstance(s, ast.Assign) and
          any(astx.path(t) == 'self.info' for t in s.targets)]
    if len(st) != 1 or not (isinstance(st[0].value, ast.Name) and st[0].value.id in fparams(si)):
        ok = False
    ji = repo.func(JAC, 'Jacobian.__init__')
    st2 = [s for s in astx.walk_stmts(ji.node.body) if isinstance(s, ast.Assign) and
           any(astx.path(t) == 'self._subjacs_info' for t in s.targets)]
    if len(st2) != 1 or not (astx.path(st2[0].value) or '').endswith('._subjacs_info'):
        ok = False
    return ok


@rule('C13.fresh', floor=1)
def fresh(repo, out):
    """Audit results are written into metadata private to one _CheckingJacobian (no carry-over between steps/runs)."""
    kind, node, f = _setup_copy_kind(repo)
    if not _shared_premise(repo, out):
        out.unsure(f, node, 'Subjac.info / Jacobian._subjacs_info are no longer plain references to the '
                   "component's metadata; sharing cannot be decided")
        return
    if kind is None:
        out.unsure(f, node, 'unrecognised way of detaching _subjacs_info')
        return
    if kind in ('deep', 'perkey'):
        out.ok(f, node, 'every (of, wrt) metadata dict is copied: audit keys stay private to this check')
        return
    if _resets_key(repo, 'uncovered_nz'):
        out.ok(f, node, "'uncovered_nz' is removed from every metadata dict before the approximation runs")
        return
    out.bad(f, node, "only the outer dict of _subjacs_info is copied: the per-(of, wrt) metadata dicts are the "
            "component's own, so info['uncovered_nz'] written by the audit survives in the component and every "
            'further step / check_partials call appends the same entries again (the report counts each uncovered '
            'entry once per step and per earlier call)' if kind == 'shallow' else
            "_subjacs_info is not detached from the component at all: the audit writes info['uncovered_nz'] into the "
            "component's own metadata and every further step / check_partials call appends the same entries again",
            key=f'shared-audit-meta-{kind}')


_VIEWS = ('atleast_1d', 'atleast_2d', 'asarray', 'asanyarray', 'reshape', 'ravel', 'squeeze', 'view',
          'ascontiguousarray')


def _storage_kind(e):
    """'alias' if e denotes (a view of) storage owned by self/meta, 'fresh' if it builds a new array."""
    if isinstance(e, ast.Attribute) and e.attr in ('T', 'real', 'imag', 'flat'):
        return _storage_kind(e.value)
    if isinstance(e, (ast.Name, ast.Attribute, ast.Subscript)):
        p = astx.path(e)
        if p is not None:
            return 'alias'
        if isinstance(e, ast.Subscript):
            return _storage_kind(e.value)
        return None
    if isinstance(e, ast.Call):
        ca = astx.callee_attr(e)
        if ca in _VIEWS:
            arg = e.args[0] if e.args and astx.path(astx.receiver(e)) in ('np', 'numpy', None) else astx.receiver(e)
            if ca in ('reshape', 'ravel', 'squeeze', 'view') and astx.receiver(e) is not None and \
                    astx.path(astx.receiver(e)) not in ('np', 'numpy'):
                arg = astx.receiver(e)
            return _storage_kind(arg) if arg is not None else None
        return 'fresh'
    return None


@rule('C13.snapshot', floor=1)
def snapshot(repo, out):
    """The J_fd array recorded for one step is not storage that the next step overwrites."""
    cp = Ctx(repo.func(COMP, 'Component.check_partials'))
    apps = []
    for n in cp.g.where(lambda n: n.kind == 'stmt' and isinstance(n.ast, ast.Expr)):
        c = n.ast.value
        if isinstance(c, ast.Call) and astx.callee_attr(c) == 'append' and len(c.args) == 1 and \
                isinstance(astx.receiver(c), ast.Subscript) and astx.const_str(astx.receiver(c).slice) == 'J_fd':
            apps.append((n, c))
    if len(apps) != 1:
        raise AnalysisError(f"expected one deriv['J_fd'].append(...) in Component.check_partials, found {len(apps)}")
    n, c = apps[0]
    a = c.args[0]
    if isinstance(a, ast.Call) and astx.callee_attr(a) in ('copy', 'array'):
        out.ok(cp.fn, c, 'a copy of the approximated subjac is recorded')
        return
    loop = astx.enclosing(n.ast, (ast.For,))
    if not (isinstance(a, ast.Name) and loop is not None and isinstance(loop.iter, ast.Call) and
            astx.callee_attr(loop.iter) == 'items' and isinstance(loop.target, ast.Tuple) and
            len(loop.target.elts) == 2 and isinstance(loop.target.elts[1], ast.Name) and
            loop.target.elts[1].id == a.id and isinstance(astx.receiver(loop.iter), ast.Name)):
        out.unsure(cp.fn, c, 'recorded value is not the item value of `<checking jacobian>.items()`')
        return
    jname = astx.receiver(loop.iter).id
    u = cp.unique_def(jname, cp.at(loop))
    if u is None or not (isinstance(u[0], ast.Call) and astx.callee_attr(u[0]) == '_CheckingJacobian'):
        out.unsure(cp.fn, loop, f'`{jname}` is not a _CheckingJacobian created in this function')
        return
    steps = [l for l in astx.ancestors(loop) if isinstance(l, ast.For)]
    if not steps:
        out.ok(cp.fn, c, 'single approximation pass: nothing overwrites the recorded array')
        return
    items = Ctx(repo.func(DJAC, '_CheckingJacobian.items'))
    aliases = []
    unknown = []
    for y in [x for x in astx.walk(items.fn.node) if isinstance(x, ast.Yield)]:
        if not (isinstance(y.value, ast.Tuple) and len(y.value.elts) == 2):
            unknown.append(astx.src(y))
            continue
        e = y.value.elts[1]
        if isinstance(e, ast.Call) and astx.callee_attr(e) == 'todense' and not e.args:
            for cls in sorted(_concrete(repo)):
                td = repo.lookup(SUBJAC, cls, 'todense')
                if td is None:
                    continue
                tc = Ctx(td)
                for r in [s for s in astx.walk_stmts(td.node.body) if isinstance(s, ast.Return)]:
                    k = _storage_kind(tc.inline(r.value, tc.at(r))) if r.value is not None else None
                    if k == 'alias':
                        aliases.append((td, r, f'{cls}.todense() returns its own storage `{astx.src(r.value)}`'))
                    elif k is None:
                        unknown.append(f'{td.qualname}: {astx.src(r)}')
        else:
            k = _storage_kind(e)
            if k == 'alias':
                aliases.append((items.fn, y, f'items() yields a view of the metadata value `{astx.src(e)}`'))
            elif k is None:
                unknown.append(astx.src(e))
    if not aliases and not unknown:
        out.ok(cp.fn, c, 'every value yielded by _CheckingJacobian.items() is a freshly built array')
        return
    kind, node, f = _setup_copy_kind(repo)
    if kind == 'deep':
        out.ok(cp.fn, c, 'the checking jacobian owns deep copies of the subjac values')
        return
    if not aliases or kind is None or not _shared_premise(repo, out):
        out.unsure(cp.fn, c, 'cannot decide whether the recorded arrays are private: ' + '; '.join(unknown[:3]))
        return
    aliases.sort(key=lambda t: 'todense' not in t[2])
    out.bad(cp.fn, c, 'the array appended to J_fd is live storage shared by the checking jacobians of all steps ('
            + aliases[0][2] + f'; _setup keeps the value arrays: {kind} copy): with several steps every J_fd entry '
            'shows the LAST step and the errors reported for the earlier steps are computed from it',
            key=f'jfd-alias-{kind}')


# =========================================================================== C13.slots
POS = ('viol', 'vals', 'above', 'abs', 'rel')      # meaning of the 5 results of get_tol_violation (C13.tolviol)
KEY_KIND = {'tol violation': 'viol', 'vals_at_max_error': 'vals', 'abs error': 'abs', 'rel error': 'rel'}
J_KIND = {'J_fwd': 'fwd', 'J_rev': 'rev', 'J_fd': 'fd'}


def _tv_calls(ctx):
    """[(cfg node, call)] of get_tol_violation calls that are the value of an assignment statement."""
    res, other = [], []
    for n in ctx.g.where(lambda n: n.kind in ('stmt', 'test', 'iter', 'with')):
        for c in n.calls():
            if astx.callee_attr(c) == 'get_tol_violation':
                if n.kind == 'stmt' and isinstance(n.ast, ast.Assign) and n.ast.value is c:
                    res.append((n, c))
                else:
                    other.append((n, c))
    return res, other


def _sinks(ctx, dinfo):
    """local container name -> (key, append node) from `dinfo[key].append(name)`."""
    out = {}
    for n in ctx.g.where(lambda n: n.kind == 'stmt' and isinstance(n.ast, ast.Expr) and
                         isinstance(n.ast.value, ast.Call)):
        c = n.ast.value
        r = astx.receiver(c)
        if astx.callee_attr(c) == 'append' and len(c.args) == 1 and isinstance(c.args[0], ast.Name) and \
                isinstance(r, ast.Subscript) and isinstance(r.value, ast.Name) and r.value.id == dinfo and \
                astx.const_str(r.slice):
            out.setdefault(c.args[0].id, []).append((astx.const_str(r.slice), n))
    return out


def _jkind_of_subscript(e):
    """'fwd'/'rev'/'fd' for X['J_fwd'], X.get('J_fwd'), X['J_fd'][-1] ... else None."""
    if isinstance(e, ast.Subscript):
        k = astx.const_str(e.slice)
        if k in J_KIND:
            return J_KIND[k]
        return _jkind_of_subscript(e.value)
    if isinstance(e, ast.Call) and astx.callee_attr(e) == 'get' and e.args and astx.const_str(e.args[0]) in J_KIND:
        return J_KIND[astx.const_str(e.args[0])]
    if isinstance(e, ast.Call) and astx.callee_attr(e) in ('flatten', 'ravel', 'copy') and astx.receiver(e) is not None:
        return _jkind_of_subscript(astx.receiver(e))
    return None


def _operand_kind(ctx, e, at, dinfo):
    """'fwd' | 'rev' | 'fd' | 'zero' | ('dir', key, index) | None for an operand of get_tol_violation."""
    if isinstance(e, ast.Call) and astx.callee_attr(e) == 'zeros_like':
        return 'zero'
    if isinstance(e, ast.Subscript) and isinstance(e.value, ast.Name) and astx.const_str(e.slice) is None:
        ks = {_jkind_of_subscript(d.ast.value) for d in ctx.rd.defs(at, e.value.id)
              if d.kind == 'stmt' and isinstance(d.ast, ast.Assign)}
        if 'fd' in ks:
            return 'fd-fixed-element'
    if not isinstance(e, ast.Name):
        return _jkind_of_subscript(e)
    kinds = set()
    for d in ctx.rd.defs(at, e.id):
        if d.kind == 'iter':
            it = d.ast.iter
            if isinstance(it, ast.Call) and isinstance(it.func, ast.Name) and it.func.id == 'enumerate' and it.args:
                it = it.args[0]
                tg = d.ast.target.elts[1] if isinstance(d.ast.target, ast.Tuple) and len(d.ast.target.elts) == 2 \
                    else None
                if not (isinstance(tg, ast.Name) and tg.id == e.id):
                    kinds.add(None)
                    continue
            if isinstance(it, ast.Name):
                ks = set()
                for d2 in ctx.rd.defs(d, it.id):
                    if d2.kind == 'stmt' and isinstance(d2.ast, ast.Assign):
                        k = _jkind_of_subscript(d2.ast.value)
                        if k:
                            ks.add(k)
                kinds.add(ks.pop() if len(ks) == 1 else None)
            else:
                kinds.add(_jkind_of_subscript(it))
        elif d.kind == 'stmt' and isinstance(d.ast, ast.Assign) and len(d.ast.targets) == 1:
            t, v = d.ast.targets[0], d.ast.value
            if isinstance(t, ast.Name):
                if isinstance(v, ast.Call) and astx.callee_attr(v) == 'zeros_like':
                    kinds.add('zero')
                else:
                    kinds.add(_jkind_of_subscript(v))
            elif isinstance(t, ast.Tuple) and len(t.elts) == 2 and all(isinstance(x, ast.Name) for x in t.elts):
                base = v
                while isinstance(base, ast.Subscript) and astx.const_str(base.slice) is None:
                    base = base.value
                key = astx.const_str(base.slice) if isinstance(base, ast.Subscript) else None
                if key and key.startswith('directional') and isinstance(base.value, ast.Name) and \
                        base.value.id == dinfo:
                    kinds.add(('dir', key, [x.id for x in t.elts].index(e.id)))
                else:
                    kinds.add(None)
            else:
                kinds.add(None)
        else:
            kinds.add(None)
    return kinds.pop() if len(kinds) == 1 else None


def _directional_writers(repo, out_notes):
    """key -> set of (kind0, kind1) written by check_totals / check_partials; unknown elements are None."""
    orders = {}
    for rel, qn in ((PROB, 'Problem.check_totals'), (COMP, 'Component.check_partials')):
        ctx = Ctx(repo.func(rel, qn))

        def name_kind(nm, ctx=ctx):
            ks = set()
            for st in ctx.stmts():
                if isinstance(st, ast.Assign) and len(st.targets) == 1 and isinstance(st.value, ast.Name) and \
                        st.value.id == nm and isinstance(st.targets[0], ast.Subscript) and \
                        astx.const_str(st.targets[0].slice) in J_KIND:
                    ks.add(J_KIND[astx.const_str(st.targets[0].slice)])
                if isinstance(st, ast.Expr) and isinstance(st.value, ast.Call) and \
                        astx.callee_attr(st.value) == 'append' and len(st.value.args) == 1 and \
                        isinstance(st.value.args[0], ast.Name) and st.value.args[0].id == nm:
                    r = astx.receiver(st.value)
                    if isinstance(r, ast.Subscript) and astx.const_str(r.slice) in J_KIND:
                        ks.add(J_KIND[astx.const_str(r.slice)])
            return ks.pop() if len(ks) == 1 else None

        def elem_kind(e, at, ctx=ctx):
            k = _jkind_of_subscript(e)
            if k:
                return k
            if isinstance(e, ast.Name):
                k = name_kind(e.id)
                if k:
                    return k
                u = ctx.unique_def(e.id, at)
                return elem_kind(u[0], u[1]) if u else None
            if isinstance(e, ast.Call) and astx.callee_attr(e) == 'dot' and astx.receiver(e) is not None:
                return elem_kind(astx.receiver(e), at)
            if isinstance(e, ast.Call) and astx.callee_attr(e) in ('flatten', 'ravel') and astx.receiver(e) is not None:
                return elem_kind(astx.receiver(e), at)
            return None
        for n in ctx.g.where(lambda n: n.kind == 'stmt'):
            st = n.ast
            tup = key = None
            if isinstance(st, ast.Expr) and isinstance(st.value, ast.Call) and astx.callee_attr(st.value) == 'append' \
                    and len(st.value.args) == 1 and isinstance(st.value.args[0], ast.Tuple):
                r = astx.receiver(st.value)
                if isinstance(r, ast.Subscript):
                    key, tup = astx.const_str(r.slice), st.value.args[0]
            elif isinstance(st, ast.Assign) and len(st.targets) == 1 and isinstance(st.targets[0], ast.Subscript) \
                    and isinstance(st.value, ast.Tuple):
                key, tup = astx.const_str(st.targets[0].slice), st.value
            if key and key.startswith('directional') and len(tup.elts) == 2:
                orders.setdefault(key, []).append((ctx.fn, st, tuple(elem_kind(x, n) for x in tup.elts)))
    return orders


def _slot_operands_ok(slot, xk, rk):
    """None if acceptable, else explanation."""
    if slot == 'forward':
        if xk != 'fwd':
            return f'first operand is the {xk} value, the `forward` slot reports (fwd, fd)'
        if rk != 'fd':
            return f'second operand is the {rk} value, the `forward` slot is measured against fd'
    elif slot == 'reverse':
        if xk not in ('rev', 'zero'):
            return f'first operand is the {xk} value, the `reverse` slot reports (rev, fd)'
        if rk != 'fd':
            return f'second operand is the {rk} value, the `reverse` slot is measured against fd'
    elif slot == 'fwd_rev':
        if {xk, rk} != {'fwd', 'rev'}:
            return f'operands are ({xk}, {rk}), the `fwd_rev` slot compares fwd with rev'
    else:
        return f'unknown slot `{slot}`'
    return None


@rule('C13.slots', floor=13)
def slots(repo, out):
    """Each get_tol_violation result in _compute_deriv_errors lands in one slot of the matching containers."""
    ctx = Ctx(repo.func(SYSTEM, '_compute_deriv_errors'))
    fn, g = ctx.fn, ctx.g
    dinfo = fparams(fn)[0]
    calls, other = _tv_calls(ctx)
    for n, c in other:
        out.unsure(fn, c, 'get_tol_violation result is not unpacked by an assignment')
    sinks = _sinks(ctx, dinfo)
    notes = []
    orders = _directional_writers(repo, notes)
    dir_order = {}
    for key, lst in orders.items():
        ks = {o for _, _, o in lst if None not in o}
        if len(ks) > 1:
            f0, st0, o0 = lst[-1]
            out.bad(f0, st0, f"writers of '{key}' disagree on the element order: {sorted(ks)}", key='directional-order')
        elif len(ks) == 1:
            dir_order[key] = next(iter(ks))
    rets = [s for s in ctx.stmts() if isinstance(s, ast.Return)]
    total = {s.value.id for s in rets if isinstance(s.value, ast.Name)}
    if len(total) != 1 or len(rets) != len([s for s in rets if isinstance(s.value, ast.Name)]):
        raise AnalysisError('_compute_deriv_errors does not return one flag variable')
    total = total.pop()
    call_nodes = [n for n, _ in calls]

    def container(name):
        ks = {k for k, _ in sinks.get(name, [])}
        return ks.pop() if len(ks) == 1 else None

    for n, c in calls:
        st = n.ast
        tg = st.targets[0] if len(st.targets) == 1 else None
        if not (isinstance(tg, ast.Tuple) and len(tg.elts) == len(POS)):
            out.unsure(fn, st, 'result is not unpacked into 5 targets')
            continue
        slot_of = {}
        problem = None
        for p in (0, 1, 3, 4):
            t = tg.elts[p]
            if isinstance(t, ast.Attribute) and isinstance(t.value, ast.Name):
                cont, slot = t.value.id, t.attr
            elif isinstance(t, ast.Name):
                uses = [s2 for s2 in ctx.stmts() if isinstance(s2, ast.Assign) and len(s2.targets) == 1 and
                        isinstance(s2.value, ast.Name) and s2.value.id == t.id and
                        isinstance(s2.targets[0], ast.Attribute) and isinstance(s2.targets[0].value, ast.Name)]
                if len(uses) != 1:
                    problem = ('unsure', f'temporary `{t.id}` is not stored into exactly one container slot')
                    break
                cont, slot = uses[0].targets[0].value.id, uses[0].targets[0].attr
            else:
                problem = ('unsure', f'target `{astx.src(t)}` not recognised')
                break
            key = container(cont)
            if key is None:
                problem = ('unsure', f'`{cont}` is not appended to exactly one {dinfo}[...] list')
                break
            if KEY_KIND.get(key) != POS[p]:
                problem = ('bad', f"result #{p} of get_tol_violation ({POS[p]}) is stored in `{cont}`, which is "
                           f"reported under '{key}'", 'slot-container')
                break
            slot_of[p] = slot
        if problem is None and len(set(slot_of.values())) != 1:
            problem = ('bad', f'results of one comparison are spread over slots {sorted(set(slot_of.values()))}',
                       'slot-mixed')
        if problem is None and not isinstance(tg.elts[2], ast.Name):
            problem = ('unsure', 'above-tolerance flag is not a plain local')
        if problem is not None:
            if problem[0] == 'bad':
                out.bad(fn, st, problem[1], key=problem[2])
            else:
                out.unsure(fn, st, problem[1])
            continue
        slot = slot_of[0]
        flag = tg.elts[2].id
        if len(c.args) < 2:
            out.unsure(fn, st, 'operands not positional')
            continue
        xk = _operand_kind(ctx, c.args[0], n, dinfo)
        rk = _operand_kind(ctx, c.args[1], n, dinfo)
        if isinstance(xk, tuple) and isinstance(rk, tuple):
            if xk[1] != rk[1] or xk[2] == rk[2]:
                out.bad(fn, st, f'operands come from `{xk[1]}`[{xk[2]}] and `{rk[1]}`[{rk[2]}]', key='slot-operand')
                continue
            o = dir_order.get(xk[1])
            xk, rk = (o[xk[2]], o[rk[2]]) if o else (None, None)
            if o is None:
                xk = rk = 'unknown-order'
        if 'fd-fixed-element' in (xk, rk):
            out.bad(fn, st, 'the comparison uses a fixed element of the list of approximations instead of the '
                    'approximation of the step whose errors are being recorded', key='slot-operand')
            continue
        if xk is None or rk is None:
            out.unsure(fn, st, f'operand kinds not recognised: {astx.src(c.args[0])}, {astx.src(c.args[1])}')
            continue
        if xk != 'unknown-order':
            why = _slot_operands_ok(slot, xk, rk)
            if why:
                out.bad(fn, st, why + f' (the report prints element 0 as the {slot.split("_")[0]} value)',
                        key='slot-operand')
                continue
        # guard: an analytic operand is only used where it is known to exist
        # accumulation of the flag
        def is_acc(m, flag=flag):
            a = m.ast
            if m.kind != 'stmt':
                return False
            if isinstance(a, ast.AugAssign) and isinstance(a.op, ast.BitOr) and isinstance(a.target, ast.Name) and \
                    a.target.id == total and isinstance(a.value, ast.Name) and a.value.id == flag:
                return True
            if isinstance(a, ast.Assign) and len(a.targets) == 1 and isinstance(a.targets[0], ast.Name) and \
                    a.targets[0].id == total:
                v = a.value
                ops = v.values if isinstance(v, ast.BoolOp) and isinstance(v.op, ast.Or) else \
                    [v.left, v.right] if isinstance(v, ast.BinOp) and isinstance(v.op, ast.BitOr) else []
                ids = {x.id for x in ops if isinstance(x, ast.Name)}
                return len(ops) == 2 and ids == {total, flag}
            return False
        acc = g.where(is_acc)
        rewrites = [m for m in g.where(lambda m: m.kind == 'stmt' and m is not n and
                                       flag in {astx.path(t) for t in astx.assigned_targets(m.ast)})]
        w = find_path(g, g.normal_succ(n), [m for m in call_nodes if m is not n] + rewrites + [g.exit], avoid=acc)
        if w is not None:
            out.bad(fn, st, f'the above-tolerance result `{flag}` of this comparison can be dropped before it is '
                    f'OR-ed into `{total}`: a violation in this slot is not reported as incorrect: ' + g.fmt_path(w),
                    key='above-lost')
            continue
        out.ok(fn, st, f'slot `{slot}`: ({xk}, {rk}) -> viol/vals/abs/rel containers, `{flag}` OR-ed into `{total}`')
    # writes to the returned flag other than accumulation must precede every comparison
    for m in g.where(lambda m: m.kind == 'stmt' and total in {astx.path(t) for t in astx.assigned_targets(m.ast)}):
        a = m.ast
        if isinstance(a, ast.AugAssign) and isinstance(a.op, ast.BitOr):
            continue
        if isinstance(a, ast.Assign) and isinstance(a.value, (ast.BoolOp, ast.BinOp)) and total in names(a.value):
            continue
        if any(m in g.reach(g.normal_succ(cn), labels=cfgm.noexc) for cn in call_nodes):
            out.bad(fn, a, f'`{total}` is overwritten after a comparison: earlier violations are forgotten',
                    key='above-overwritten')
    # per-step bookkeeping
    loops = [s for s in ctx.stmts() if isinstance(s, ast.For) and
             any(astx.in_body(n.ast, s, 'body') for n in call_nodes)]
    if len(loops) != 1:
        out.unsure(fn, fn.node, 'loop over the approximations not identified')
        return
    loop = loops[0]
    hdr = g.nodes_of(loop)[0]
    body = set(g.body_nodes(loop))
    entry = [m for m, lab in g.succ[hdr] if lab == 'true']
    for name, lst in sorted(sinks.items()):
        for key, node in lst:
            if key not in KEY_KIND and key != 'steps':
                continue
            if node not in body or find_path(g, entry, [hdr], avoid=[node]) is not None:
                out.bad(fn, node.ast, f"'{key}' does not receive exactly one entry per approximation step",
                        key='append-once')
                continue
            if set(g.reach(g.normal_succ(node), avoid=[hdr], labels=cfgm.noexc)) & {node}:
                out.bad(fn, node.ast, f"'{key}' can receive two entries in one step", key='append-once')
                continue
            if key in KEY_KIND:
                outside = [d for d in ctx.rd.defs(node, name) if d not in body]
                if outside:
                    out.bad(fn, node.ast, f'one `{name}` object is shared by all steps: every entry of '
                            f"'{key}' shows the results of the last step", key='container-shared')
                    continue
            out.ok(fn, node.ast, f"one fresh entry of '{key}' per step")


# =========================================================================== C13.tolviol
def _flat_at(e):
    """(array expr, index expr) of `A.flat[i]` / `A[i]`."""
    if isinstance(e, ast.Subscript):
        b = e.value
        if isinstance(b, ast.Attribute) and b.attr == 'flat':
            b = b.value
        return b, e.slice
    return None


_REDUCE = ('max', 'amax', 'nanmax', 'min', 'amin', 'nanmin', 'mean', 'nanmean', 'sum', 'nansum', 'median', 'norm',
           'argmax', 'nanargmax', 'argmin', 'ptp')


def _reduction(e):
    """The reduced expression if e is an independent reduction (A.max(), np.max(A), np.linalg.norm(A) ...)."""
    if isinstance(e, ast.Call) and astx.callee_attr(e) in _REDUCE:
        r = astx.receiver(e)
        if e.args and (r is None or astx.path(r) in ('np', 'numpy', 'np.linalg', 'numpy.linalg')):
            return e.args[0]
        if r is not None and not e.args:
            return r
    return None


def _abs_diff_at(e, x, ref):
    """Index expressions used by |x - ref| written entry-wise: abs((x-ref).flat[i]) or abs(x.flat[i] - ref.flat[j]).

    Returns a list of index expressions, or None if e is not of that form.
    """
    inner = abs_arg(e)
    if inner is None:
        return None
    fa = _flat_at(inner)
    if fa is not None and isinstance(fa[0], ast.BinOp) and isinstance(fa[0].op, ast.Sub) and \
            isinstance(fa[0].left, ast.Name) and isinstance(fa[0].right, ast.Name) and \
            {fa[0].left.id, fa[0].right.id} == {x, ref}:
        return [fa[1]]
    if isinstance(inner, ast.BinOp) and isinstance(inner.op, ast.Sub):
        a, b = _flat_at(inner.left), _flat_at(inner.right)
        if a is not None and b is not None and isinstance(a[0], ast.Name) and isinstance(b[0], ast.Name) and \
                {a[0].id, b[0].id} == {x, ref}:
            return [a[1], b[1]]
    return None


def _tol_term(e, atol, rtol, ref, x):
    """'ok' | ('bad', why) | None for the expression atol + rtol * abs(ref)."""
    if not (isinstance(e, ast.BinOp) and isinstance(e.op, ast.Add)):
        return None
    a, m = e.left, e.right
    if isinstance(m, ast.Name):
        a, m = m, a
    if not (isinstance(a, ast.Name) and a.id == atol and isinstance(m, ast.BinOp) and isinstance(m.op, ast.Mult)):
        if x in names(e) and ref not in names(e):
            return ('bad', 'the relative tolerance is scaled by the tested value, not by the reference')
        return None
    r, s = m.left, m.right
    if isinstance(s, ast.Name) and s.id == rtol:
        r, s = s, r
    if not (isinstance(r, ast.Name) and r.id == rtol):
        return None
    inner = abs_arg(s)
    if inner is None:
        if isinstance(s, ast.Name) and s.id in (ref, x):
            return ('bad', f'rtol is multiplied by the signed `{s.id}`: a negative reference gives a negative tolerance')
        return None
    if isinstance(inner, ast.Name) and inner.id == ref:
        return 'ok'
    if isinstance(inner, ast.Name) and inner.id == x:
        return ('bad', 'the relative tolerance is scaled by |x| (the tested value), the report and the documented '
                'inequality use |ref|')
    return None


@rule('C13.tolviol', floor=6)
def tolviol(repo, out):
    """get_tol_violation returns (viol, (x, ref), above, |x-ref|, |x-ref|/|ref|), all taken at one index."""
    ctx = Ctx(repo.func(ARR, 'get_tol_violation'))
    fn, g = ctx.fn, ctx.g
    ps = fparams(fn, drop_self=False)
    if len(ps) < 4:
        raise AnalysisError('get_tol_violation signature changed')
    x, ref, atol, rtol = ps[:4]
    rets = [s for s in ctx.stmts() if isinstance(s, ast.Return)]
    arity_ok = True
    for r in rets:
        if not (isinstance(r.value, ast.Tuple) and len(r.value.elts) == len(POS)):
            out.bad(fn, r, f'returns {len(r.value.elts) if isinstance(r.value, ast.Tuple) else 1} values; every caller '
                    f'unpacks {len(POS)}', key='arity')
            arity_ok = False
    if not arity_ok:
        return
    main = [r for r in rets if not all(isinstance(e, (ast.Constant, ast.Tuple)) for e in r.value.elts)]
    if len(main) != 1:
        out.unsure(fn, fn.node, 'main return statement not identified')
        return
    R = main[0]
    at = ctx.at(R)
    e = [ctx.inline(v, at) for v in R.value.elts]
    out.ok(fn, R, f'all {len(rets)} returns have {len(POS)} elements')
    # the violation array taken at its argmax
    f0 = _flat_at(e[0])
    red0 = _reduction(e[0])
    if f0 is None and red0 is not None and astx.callee_attr(e[0]) in ('max', 'amax') and \
            isinstance(red0, ast.BinOp) and isinstance(red0.op, ast.Sub):
        # `diff.max()` is the violation at its argmax; the index is the one the other slots use
        cand = [q for q in ast.walk(ast.Tuple(elts=list(e[1:]), ctx=ast.Load())) if isinstance(q, ast.Call) and
                astx.callee_attr(q) == 'argmax']
        amaxes = [q for q in cand if K(q.args[0] if q.args else astx.receiver(q)) == K(red0)]
        if not amaxes:
            if cand:
                out.bad(fn, R, f'the other results are taken at `{astx.src(cand[0])}`, not at the entry of the maximal '
                        'violation that is reported as result #0', key='viol-index')
            else:
                out.unsure(fn, R, 'no arg-max index of the violation found')
            return
        f0 = (red0, amaxes[0])
    if f0 is None or not (isinstance(f0[0], ast.BinOp) and isinstance(f0[0].op, ast.Sub)):
        if red0 is not None:
            out.bad(fn, R, f'result #0 (max violation) is the independent reduction `{astx.src(e[0])}`, not the '
                    'violation at the reported entry', key='viol-index')
        else:
            out.unsure(fn, R, f'result #0 is not `(abs_error - tolerance)` taken at an index: '
                       f'{astx.src(R.value.elts[0])}')
        return
    diff, idx = f0
    if not (isinstance(idx, ast.Call) and astx.callee_attr(idx) == 'argmax'):
        out.unsure(fn, R, f'index `{astx.src(idx)}` is not an argmax')
        return
    amax = idx.args[0] if idx.args else astx.receiver(idx)
    if K(amax) != K(diff):
        out.bad(fn, R, f'the reported index maximises `{astx.src(amax)}`, not the tolerance violation that is '
                'reported at it', key='viol-index')
        return
    abs_err = diff.left
    d = abs_arg(abs_err)
    if d is None:
        if isinstance(abs_err, ast.BinOp) and isinstance(abs_err.op, ast.Sub) and {x, ref} <= names(abs_err):
            out.bad(fn, R, f'the error is `{astx.src(abs_err)}`, not the magnitude |{x} - {ref}| of the difference: '
                    'errors of one sign (or of equal magnitude) never violate the tolerance', key='abs-operands')
        else:
            out.unsure(fn, R, f'`{astx.src(abs_err)}` is not a magnitude')
        return
    if not (isinstance(d, ast.BinOp) and isinstance(d.op, ast.Sub) and isinstance(d.left, ast.Name) and
            isinstance(d.right, ast.Name)):
        out.unsure(fn, R, f'abs error is not |a - b|: {astx.src(d)}')
        return
    if {d.left.id, d.right.id} != {x, ref}:
        out.bad(fn, R, f'the error is |{d.left.id} - {d.right.id}|, not the difference of the two compared values '
                f'`{x}` and `{ref}`', key='abs-operands')
        return
    t = _tol_term(diff.right, atol, rtol, ref, x)
    if t is None:
        out.unsure(fn, R, f'tolerance term `{astx.src(diff.right)}` not recognised as atol + rtol*|ref|')
        return
    if t != 'ok':
        out.bad(fn, R, t[1], key='tolerance-term')
        return
    out.ok(fn, R, f'#0 max violation = (|{x}-{ref}| - (atol + rtol*|{ref}|)) at its argmax')
    v = e[1]

    def slot_abs():
        fa = _flat_at(e[3])
        entrywise = _abs_diff_at(e[3], x, ref)
        if entrywise is not None:
            if any(K(i) != K(idx) for i in entrywise):
                out.bad(fn, R, 'the reported abs error is taken at another index than the reported max violation and '
                        'values', key='abs-index')
                return
        elif _reduction(e[3]) is not None or fa is None and _reduction(abs_arg(e[3]) or e[3]) is not None:
            out.bad(fn, R, f'the reported abs error is the independent reduction `{astx.src(R.value.elts[3])}` = '
                    f'`{astx.src(e[3])}`, not |{x} - {ref}| at the entry of the maximal tolerance violation whose values '
                    'and violation are reported with it (the entries differ as soon as rtol > 0)', key='abs-index')
            return
        elif fa is None:
            out.unsure(fn, R, f'result #3 (abs error) is not taken at an index: {astx.src(R.value.elts[3])}')
            return
        elif K(fa[0]) != K(abs_err):
            out.bad(fn, R, f'the reported abs error is taken from `{astx.src(fa[0])}`, the violation is computed from '
                    f'`{astx.src(abs_err)}`', key='abs-operands')
            return
        elif K(fa[1]) != K(idx):
            out.bad(fn, R, 'the reported abs error is taken at another index than the reported max violation and values',
                    key='abs-index')
            return
        out.ok(fn, R, f'#3 abs error = |{x} - {ref}| at the same index')

    def slot_vals():
        # values at the index, in (x, ref) order
        v = e[1]
        if not (isinstance(v, ast.Tuple) and len(v.elts) == 2):
            out.unsure(fn, R, 'result #1 is not a pair')
            return
        pair = [_flat_at(q) for q in v.elts]
        reds = [q for q in v.elts if _reduction(q) is not None or
                (abs_arg(q) is not None and _reduction(abs_arg(q)) is not None)]
        if reds:
            out.bad(fn, R, f'a value reported "at max error" is the independent reduction `{astx.src(reds[0])}`, not the '
                    'entry at the index of the maximal violation', key='vals-index')
            return
        if any(p is None or not isinstance(p[0], ast.Name) for p in pair):
            out.unsure(fn, R, 'result #1 is not (x.flat[i], ref.flat[i])')
            return
        if any(K(p[1]) != K(idx) for p in pair):
            out.bad(fn, R, 'the values reported "at max error" are taken at another index than the reported errors',
                    key='vals-index')
            return
        got = (pair[0][0].id, pair[1][0].id)
        if got == (ref, x):
            out.bad(fn, R, f'values at max error are returned as ({ref}, {x}); every report prints element 0 as the '
                    'analytic and element 1 as the approximated value', key='vals-order')
            return
        if got != (x, ref):
            out.bad(fn, R, f'values at max error are taken from {got}, not from ({x}, {ref})', key='vals-order')
            return
        out.ok(fn, R, f'#1 = ({x}, {ref}) at the same index')

    def slot_above():
        # above tolerance
        a = e[2]
        cond = None
        if isinstance(a, ast.Call) and astx.callee_attr(a) == 'any':
            cond = a.args[0] if a.args else astx.receiver(a)
        if not (isinstance(cond, ast.Compare) and len(cond.ops) == 1):
            out.unsure(fn, R, f'result #2 is not any(<comparison>): {astx.src(R.value.elts[2])}')
            return
        kc = K(cond)
        if kc[1] == K(ast.Constant(value=0)) and kc[3] == K(diff) and kc[2] == 'Lt':
            out.ok(fn, R, '#2 above tolerance = any(violation > 0)')
        elif kc[1] == K(ast.Constant(value=0)) and kc[3] == K(diff) and kc[2] == 'LtE':
            out.bad(fn, R, 'an error exactly on the tolerance is reported as a violation (documented inequality is '
                    'abs(err) <= atol + rtol*abs(ref))', key='above-compare')
            return
        elif kc[3] == K(ast.Constant(value=0)) and kc[1] == K(diff):
            out.bad(fn, R, 'the above-tolerance flag is inverted (violation < 0)', key='above-compare')
            return
        elif K(diff) not in (kc[1], kc[3]):
            out.bad(fn, R, f'the above-tolerance flag is computed from `{astx.src(cond)}`, not from the violation array',
                    key='above-compare')
            return
        else:
            out.unsure(fn, R, f'above-tolerance comparison `{astx.src(cond)}` not recognised')
            return

    def slot_rel():
        # relative error
        if not (isinstance(v, ast.Tuple) and len(v.elts) == 2):
            out.unsure(fn, R, 'relative error cannot be related to the value pair (#1 is not a pair)')
            return
        r = R.value.elts[4]
        vals = []
        if isinstance(r, ast.Name):
            for dn in ctx.rd.defs(at, r.id):
                if dn.kind == 'stmt' and isinstance(dn.ast, ast.Assign):
                    vals.append((ctx.inline(dn.ast.value, dn), dn))
                else:
                    vals.append((None, dn))
        else:
            vals.append((e[4], at))
        okr = 0
        for vv, dn in vals:
            if vv is None:
                out.unsure(fn, R, 'relative error has an unrecognised definition')
                return
            if isinstance(vv, ast.BinOp) and isinstance(vv.op, ast.Div):
                if K(vv.left) != K(e[3]):
                    out.bad(fn, dn.ast, f'the relative error divides `{astx.src(vv.left)}`, not the reported abs error',
                            key='rel-numerator')
                    return
                den = abs_arg(vv.right)
                if den is None:
                    out.bad(fn, dn.ast, 'the relative error is divided by a signed value: it is negative for a negative '
                            'reference', key='rel-denominator')
                    return
                dfa = _flat_at(den)
                if K(den) == K(v.elts[1]):
                    okr += 1
                elif dfa is not None and isinstance(dfa[0], ast.Name) and dfa[0].id == ref and K(dfa[1]) != K(idx):
                    out.bad(fn, dn.ast, f'the relative error divides by `{ref}` at another index than the reported entry',
                            key='rel-denominator')
                    return
                elif K(den) == K(v.elts[0]):
                    out.bad(fn, dn.ast, f'the relative error is relative to `{x}` (the tested value), not to `{ref}`',
                            key='rel-denominator')
                    return
                else:
                    out.unsure(fn, dn.ast, f'denominator `{astx.src(den)}` not recognised')
                    return
            elif astx.path(vv) in ('np.inf', 'numpy.inf', 'inf', 'math.inf') or \
                    (isinstance(vv, ast.Call) and astx.callee_attr(vv) == 'float'):
                continue
            elif _reduction(vv) is not None:
                out.bad(fn, dn.ast, f'the relative error is the independent reduction `{astx.src(vv)}`, not the abs error '
                        f'reported as #3 divided by |{ref}| at the same entry', key='rel-numerator')
                return
            else:
                out.unsure(fn, dn.ast, f'relative error `{astx.src(vv)}` not recognised')
                return
        if okr:
            out.ok(fn, R, f'#4 rel error = #3 / |{ref} at the index|')
        else:
            out.unsure(fn, R, 'no division found for the relative error')

    # every slot is decided on its own so that one wrong slot does not hide the others
    for check in (slot_abs, slot_vals, slot_above, slot_rel):
        check()


# =========================================================================== C13.tols
ABS_NAMES = {'atol', 'abs_err_tol', 'abs_error_tol'}
REL_NAMES = {'rtol', 'rel_err_tol', 'rel_error_tol'}


def tol_class(name):
    if not name:
        return None
    nm = name.rsplit('.', 1)[-1].lstrip('_')
    return 'abs' if nm in ABS_NAMES else 'rel' if nm in REL_NAMES else None


TOL_EDGES = [
    (SYSTEM, '_compute_deriv_errors', 'get_tol_violation', (ARR, 'get_tol_violation')),
    (DISP, '_JacFormatter.__call__', 'get_tol_violation', (ARR, 'get_tol_violation')),
    (SYSTEM, '_iter_derivs', '_compute_deriv_errors', (SYSTEM, '_compute_deriv_errors')),
    (COMP, 'Component.check_partials', '_iter_derivs', (SYSTEM, '_iter_derivs')),
    (PROB, 'Problem.check_totals', '_iter_derivs', (SYSTEM, '_iter_derivs')),
    (COMP, 'Component.check_partials', '_deriv_display', (DISP, '_deriv_display')),
    (PROB, 'Problem.check_totals', '_deriv_display', (DISP, '_deriv_display')),
    (DISP, '_deriv_display', '_JacFormatter', (DISP, '_JacFormatter.__init__')),
    (PROB, 'Problem.check_partials', 'check_partials', (COMP, 'Component.check_partials')),
]


@rule('C13.tols', floor=18)
def tols(repo, out):
    """Absolute and relative tolerances keep their roles along every call of the checking chain."""
    for rel, qn, name, (crel, cqn) in TOL_EDGES:
        ctx = Ctx(repo.func(rel, qn))
        callee = repo.func(crel, cqn)
        mine = set(fparams(ctx.fn))
        found = 0
        for n in ctx.g.where(lambda n: n.kind in ('stmt', 'test', 'iter', 'with')):
            for c in n.calls():
                if astx.callee_attr(c) != name:
                    continue
                if name == 'check_partials' and astx.path(astx.receiver(c)) in ('self', 'super()'):
                    continue
                found += 1
                b = bind(c, callee)
                if b is None:
                    out.unsure(ctx.fn, c, 'star-arguments hide the tolerance binding')
                    continue
                verdict = []
                for p, a in b.items():
                    pc = tol_class(p)
                    if pc is None:
                        continue
                    if isinstance(a, ast.Constant):
                        verdict.append((p, 'const'))
                        continue
                    ac = None
                    if isinstance(a, ast.Name) and a.id in mine and not ctx.rd.defs(n, a.id) - {ctx.g.entry}:
                        ac = tol_class(a.id)
                    else:
                        ai = ctx.inline(a, n)
                        ac = tol_class(astx.path(ai)) if astx.path(ai) else None
                    if ac is None:
                        out.unsure(ctx.fn, c, f'cannot tell whether `{astx.src(a)}` is an absolute or a relative '
                                   'tolerance')
                        verdict = None
                        break
                    if ac != pc:
                        out.bad(ctx.fn, c, f'the {ac}olute tolerance `{astx.src(a)}` is passed as `{p}` of {cqn}'
                                if ac == 'abs' else
                                f'the relative tolerance `{astx.src(a)}` is passed as `{p}` of {cqn}',
                                key=f'tolerance-swapped-{name}')
                        verdict = None
                        break
                    verdict.append((p, ac))
                if verdict is not None:
                    if {tol_class(p) for p, _ in verdict} >= {'abs', 'rel'} or name == '_JacFormatter':
                        out.ok(ctx.fn, c, ', '.join(f'{p}<-{k}' for p, k in verdict))
                    else:
                        missing = {'abs', 'rel'} - {tol_class(p) for p, _ in verdict}
                        out.bad(ctx.fn, c, f'the {"/".join(sorted(missing))} tolerance is not passed to {cqn}: the '
                                'callee silently uses its default instead of the user\'s value',
                                key=f'tolerance-dropped-{name}')
        if not found:
            raise AnalysisError(f'{rel}:{qn} no longer calls {name}')
    # attributes of the formatter keep the role of the constructor argument
    init = repo.func(DISP, '_JacFormatter.__init__')
    for st in astx.walk_stmts(init.node.body):
        if isinstance(st, ast.Assign) and len(st.targets) == 1 and isinstance(st.value, ast.Name) and \
                tol_class(st.value.id) and tol_class(astx.path(st.targets[0])):
            if tol_class(st.value.id) != tol_class(astx.path(st.targets[0])):
                out.bad(init, st, 'absolute and relative tolerance are exchanged when stored', key='tolerance-store')
            else:
                out.ok(init, st, 'role kept')


# =========================================================================== C13.iter
@rule('C13.iter', floor=3)
def iter_derivs(repo, out):
    """_iter_derivs yields the flag computed for this pair and skips/deletes a pair only when allowed."""
    ctx = Ctx(repo.func(SYSTEM, '_iter_derivs'))
    fn, g = ctx.fn, ctx.g
    ps = fparams(fn)
    if len(ps) < 5:
        raise AnalysisError('_iter_derivs signature changed')
    only, nondep = ps[1], ps[4]
    comp = [n for n in g.where(lambda n: n.kind == 'stmt' and isinstance(n.ast, ast.Assign) and
                               isinstance(n.ast.value, ast.Call) and
                               astx.callee_attr(n.ast.value) == '_compute_deriv_errors')]
    if len(comp) != 1 or not (len(comp[0].ast.targets) == 1 and isinstance(comp[0].ast.targets[0], ast.Name)):
        raise AnalysisError('_iter_derivs: call of _compute_deriv_errors not found')
    above = comp[0].ast.targets[0].id
    ys = [n for n in g.where(lambda n: n.kind == 'stmt' and isinstance(n.ast, ast.Expr) and
                             isinstance(n.ast.value, ast.Yield))]
    if len(ys) != 1:
        raise AnalysisError('_iter_derivs: expected one yield')
    y = ys[0]
    tup = y.ast.value.value
    loop = astx.enclosing(y.ast, (ast.For,))
    if not (isinstance(tup, ast.Tuple) and len(tup.elts) == 5 and loop is not None):
        out.unsure(fn, y.ast, 'yield is not a 5-tuple inside the loop over the pairs')
        return
    e3 = tup.elts[3]
    if not (isinstance(e3, ast.Name) and ctx.rd.defs(y, e3.id) == {comp[0]}):
        out.bad(fn, y.ast, f'element 3 of the yielded tuple (`{astx.src(e3)}`) is not the above-tolerance result '
                f'computed for this pair (`{above}`): both reports count and mark incorrect pairs by it',
                key='yield-flag')
    else:
        out.ok(fn, y.ast, f'element 3 is `{above}` of this pair')

    def atom_of(e):
        if isinstance(e, ast.Name):
            if e.id == only:
                return 'only'
            at = ctx.at(e)
            ds = ctx.rd.defs(at, e.id)
            if ds == {comp[0]}:
                return 'above'
            def incon_def(d):
                if not (d.kind == 'stmt' and isinstance(d.ast, ast.Assign)):
                    return False
                v = d.ast.value
                if isinstance(v, ast.Constant) and isinstance(v.value, bool):
                    return True       # `flag = False` ... `if key in incon_keys: flag = True`
                if isinstance(v, ast.Call) and isinstance(v.func, ast.Name) and v.func.id == 'bool' and len(v.args) == 1:
                    v = v.args[0]
                return isinstance(v, ast.Compare) and len(v.ops) == 1 and isinstance(v.ops[0], ast.In) and \
                    isinstance(v.comparators[0], ast.Name) and v.comparators[0].id in ps and \
                    v.comparators[0].id != nondep      # `flag = key in incon_keys`
            if ds and all(incon_def(d) for d in ds):
                return 'incon'
            return None
        if isinstance(e, ast.Compare) and len(e.ops) == 1 and isinstance(e.ops[0], (ast.In, ast.NotIn)) and \
                isinstance(e.comparators[0], ast.Name) and e.comparators[0].id == nondep:
            return 'nondep' if isinstance(e.ops[0], ast.In) else ('not', 'nondep')
        return None

    def guard(st):
        """Condition under which statement st is reached inside one loop iteration (If nesting only)."""
        parts = []
        cur = st
        while cur is not loop:
            par = cur._parent
            if isinstance(par, ast.If):
                f = boolx.from_ast(par.test, atom_of)
                parts.append(f if cur in par.body else boolx.Not(f))
            elif par is not loop:
                raise AnalysisError(f'unsupported nesting {type(par).__name__}')
            cur = par
        # statements after an earlier `continue` are only reached when that continue was not taken
        return boolx.And(*parts) if parts else boolx.TRUE

    A, N, S, I = boolx.A('above'), boolx.A('nondep'), boolx.A('only'), boolx.A('incon')
    allowed = boolx.Or(boolx.And(N, boolx.Not(A)), boolx.And(S, boolx.Not(A), boolx.Not(I)))
    try:
        conts = [s for s in astx.walk_stmts(loop.body) if isinstance(s, ast.Continue)]
        skip = boolx.Or(*[guard(s) for s in conts]) if conts else boolx.FALSE
        notyield = boolx.Or(boolx.Not(guard(y.ast)), skip)
        okk, nrows, cex = boolx.implies(notyield, allowed, extra_atoms=['above', 'nondep', 'only', 'incon'])
        if not okk:
            out.bad(fn, loop, 'a checked pair is withheld from the report although it must be shown: '
                    + boolx.fmt_val(cex), key='skip-condition')
        else:
            out.ok(fn, loop, f'a pair is skipped only if (nondep and fine) or (show_only_incorrect and fine and '
                   f'rank-consistent) [{nrows} rows]')
        dels = [s for s in astx.walk_stmts(loop.body) if isinstance(s, ast.Delete)]
        for dl in dels:
            okk, nrows, cex = boolx.implies(guard(dl), boolx.And(N, boolx.Not(A)),
                                            extra_atoms=['above', 'nondep', 'only', 'incon'])
            if not okk:
                out.bad(fn, dl, 'a pair is removed from the returned data although it is declared or in error: '
                        + boolx.fmt_val(cex), key='delete-condition')
            else:
                out.ok(fn, dl, 'only fine non-dependent pairs are removed from the returned data')
        if not dels:
            out.ok(fn, loop, 'no pair is removed from the returned data')
    except AnalysisError as ex:
        out.unsure(fn, loop, str(ex))


# =========================================================================== C13.select
def _nesting_guard(st, loop, atom_of):
    """Condition (If nesting only) under which statement st is reached inside one iteration of loop."""
    parts = []
    cur = st
    while cur is not loop:
        par = cur._parent
        if isinstance(par, ast.If):
            f = boolx.from_ast(par.test, atom_of)
            parts.append(f if cur in par.body else boolx.Not(f))
        elif par is not loop:
            raise AnalysisError(f'unsupported nesting {type(par).__name__} around `{astx.src(st)}`')
        cur = par
    return boolx.And(*parts) if parts else boolx.TRUE


@rule('C13.select', floor=3)
def select(repo, out):
    """Problem.check_partials leaves a component out only for a documented reason and keeps every result."""
    ctx = Ctx(repo.func(PROB, 'Problem.check_partials'))
    fn, g = ctx.fn, ctx.g
    calls = [(n, c) for n in g.where(lambda n: n.kind == 'stmt') for c in n.calls()
             if astx.callee_attr(c) == 'check_partials' and astx.path(astx.receiver(c)) not in ('self', 'super()')]
    if len(calls) != 1 or not isinstance(astx.receiver(calls[0][1]), ast.Name):
        raise AnalysisError('Problem.check_partials: the per-component check_partials call was not found')
    cnode, call = calls[0]
    comp = astx.receiver(call).id
    loop = astx.enclosing(cnode.ast, (ast.For,))
    if loop is None or not (isinstance(loop.target, ast.Name) and loop.target.id == comp):
        out.unsure(fn, call, f'`{comp}` is not the variable of a loop over the components')
        return
    hdr = g.nodes_of(loop)[0]

    def empty_len(e):
        """('noin'|'noout', True) if e is len(comp.<meta>['input'|'output']) ; else None."""
        if isinstance(e, ast.Call) and isinstance(e.func, ast.Name) and e.func.id == 'len' and len(e.args) == 1:
            a = e.args[0]
            if isinstance(a, ast.Subscript) and isinstance(a.value, ast.Name) and a.value.id != comp:
                try:
                    a = ctx.inline(a, ctx.at(e))        # `meta = comp._var_allprocs_abs2meta; len(meta['input'])`
                except AnalysisError:
                    pass
            if isinstance(a, ast.Subscript) and astx.const_str(a.slice) in ('input', 'output') and \
                    (astx.path(a.value) or '').startswith(comp + '.'):
                return 'noin' if astx.const_str(a.slice) == 'input' else 'noout'
        return None

    def atom_of(e):
        if isinstance(e, ast.Attribute) and isinstance(e.value, ast.Name) and e.value.id == comp and \
                e.attr == '_no_check_partials':
            return 'nocheck'
        if isinstance(e, ast.Name):
            u = ctx.unique_def(e.id, hdr)
            if u is not None and isinstance(u[0], ast.Call) and astx.callee_attr(u[0]) == 'env_truthy':
                return 'force'
            return None
        k = empty_len(e)
        if k:
            return ('not', k)                       # `if len(...)`: true when NOT empty
        if isinstance(e, ast.Compare) and len(e.ops) == 1:
            l, op, r = e.left, type(e.ops[0]), e.comparators[0]
            if empty_len(r) and op in _SWAP:
                l, op, r = r, _SWAP[op], l
            k = empty_len(l)
            if k and isinstance(r, ast.Constant) and not isinstance(r.value, bool) and isinstance(r.value, int):
                if (r.value, op) in ((0, ast.Eq), (0, ast.LtE), (1, ast.Lt)):
                    return k
                if (r.value, op) in ((0, ast.NotEq), (0, ast.Gt), (1, ast.GtE)):
                    return ('not', k)
            return None
        if isinstance(e, ast.Call) and isinstance(e.func, ast.Name) and e.func.id == 'isinstance' and \
                len(e.args) == 2 and isinstance(e.args[0], ast.Name) and e.args[0].id == comp and \
                isinstance(e.args[1], ast.Name):
            if e.args[1].id == 'ExplicitComponent':
                return 'expl'
            if e.args[1].id == 'ImplicitComponent':
                return ('not', 'expl')
            return None
        if isinstance(e, ast.Call) and astx.callee_attr(e) == 'match_includes_excludes' and e.args and \
                astx.path(e.args[0]) == comp + '.pathname':
            return 'match'
        return None

    A = boolx.A
    allowed = boolx.Or(boolx.And(A('nocheck'), boolx.Not(A('force'))), A('noout'),
                       boolx.And(A('noin'), A('expl')), boolx.Not(A('match')))
    atoms = ['nocheck', 'force', 'noout', 'noin', 'expl', 'match']
    try:
        pre = [s for s in astx.walk_stmts(loop.body) if isinstance(s, (ast.Continue, ast.Break)) and
               s.lineno < cnode.ast.lineno]
        skip = boolx.Or(*[_nesting_guard(s, loop, atom_of) for s in pre]) if pre else boolx.FALSE
        notchecked = boolx.Or(boolx.Not(_nesting_guard(cnode.ast, loop, atom_of)), skip)
        okk, nrows, cex = boolx.implies(notchecked, allowed, extra_atoms=atoms)
        if not okk:
            out.bad(fn, loop, 'a component that has (of, wrt) pairs to check is silently left out of check_partials '
                    '(allowed reasons: _no_check_partials without the override, no outputs, an EXPLICIT component '
                    'without inputs, excluded by includes/excludes): ' + boolx.fmt_val(cex), key='component-skipped')
        else:
            out.ok(fn, loop, f'a component is skipped only for a documented reason [{nrows} rows]')
    except AnalysisError as ex:
        out.unsure(fn, loop, str(ex))
    # the component's result reaches the returned dict
    rets = [s for s in ctx.stmts() if isinstance(s, ast.Return) and isinstance(s.value, ast.Name)]
    tg = cnode.ast.targets[0] if isinstance(cnode.ast, ast.Assign) and len(cnode.ast.targets) == 1 else None
    res = tg.elts[0].id if isinstance(tg, ast.Tuple) and tg.elts and isinstance(tg.elts[0], ast.Name) else \
        tg.id if isinstance(tg, ast.Name) else None
    if not rets or res is None:
        out.unsure(fn, call, 'result of the per-component check not recognised')
        return
    data = rets[-1].value.id

    def keeps(n):
        if n.kind != 'stmt':
            return False
        for c in n.calls():
            if astx.callee_attr(c) == 'update' and astx.path(astx.receiver(c)) == data and c.args and \
                    res in names(c.args[0]):
                return True
        a = n.ast
        return isinstance(a, ast.Assign) and any(isinstance(t, ast.Subscript) and astx.path(t.value) == data
                                                 for t in a.targets) and res in names(a.value)
    ups = g.where(keeps)
    w = find_path(g, g.normal_succ(cnode), [hdr, g.exit], avoid=ups)
    if w is not None or not ups:
        out.bad(fn, call, f'the data of a checked component can be dropped before it is merged into the returned '
                f'`{data}`: ' + g.fmt_path(w), key='result-dropped')
    else:
        out.ok(fn, ups[0].ast, f'every checked component is merged into the returned `{data}`')
    if all(ctx.rd.defs(ctx.at(r), data) for r in rets) and all(r.value.id == data for r in rets):
        out.ok(fn, rets[-1], f'`{data}` is what is returned')


# =========================================================================== C13.record
def _appends(ctx, pred):
    """[(node, call)] of `<recv>.append(x)` statements whose receiver satisfies pred(recv)."""
    res = []
    for n in ctx.g.where(lambda n: n.kind == 'stmt' and isinstance(n.ast, ast.Expr) and
                         isinstance(n.ast.value, ast.Call)):
        c = n.ast.value
        if astx.callee_attr(c) == 'append' and len(c.args) == 1 and astx.receiver(c) is not None and \
                pred(astx.receiver(c)):
            res.append((n, c))
    return res


def _once_per_iteration(g, loop, nodes):
    """None if every iteration of `loop` passes exactly one of `nodes`; else explanation."""
    hdr = g.nodes_of(loop)[0]
    body = set(g.body_nodes(loop))
    if any(n not in body for n in nodes) or not nodes:
        return 'is not inside the loop'
    entry = [m for m, lab in g.succ[hdr] if lab == 'true']
    w = find_path(g, entry, [hdr], avoid=nodes)
    if w is not None:
        return 'can be skipped in an iteration: ' + g.fmt_path(w)
    for n in nodes:
        if set(g.reach(g.normal_succ(n), avoid=[hdr], labels=cfgm.noexc)) & set(nodes):
            return 'can happen twice in one iteration'
    return None


def _key_recv(key):
    return lambda r: isinstance(r, ast.Subscript) and astx.const_str(r.slice) == key


@rule('C13.record', floor=9)
def record(repo, out):
    """One approximation and one step are recorded per (pair, step), and the approximation is that step's."""
    # ---- Component.check_partials
    cp = Ctx(repo.func(COMP, 'Component.check_partials'))
    g = cp.g
    jf = _appends(cp, _key_recv('J_fd'))
    if len(jf) != 1:
        raise AnalysisError("Component.check_partials: expected one deriv['J_fd'].append")
    jn, jc = jf[0]
    iloop = astx.enclosing(jn.ast, (ast.For,))
    sloops = [l for l in astx.ancestors(iloop) if isinstance(l, ast.For)] if iloop is not None else []
    if iloop is None or not sloops or not (isinstance(iloop.iter, ast.Call) and astx.callee_attr(iloop.iter) == 'items'
                                           and isinstance(astx.receiver(iloop.iter), ast.Name)):
        out.unsure(cp.fn, jc, 'J_fd is not recorded inside `for step in steps: for key, val in <jac>.items()`')
    else:
        sloop = sloops[0]
        sbody = set(g.body_nodes(sloop))
        jname = astx.receiver(iloop.iter).id
        ds = cp.rd.defs(cp.at(iloop), jname)
        created = [d for d in ds if d.kind == 'stmt' and isinstance(d.ast, ast.Assign) and
                   isinstance(d.ast.value, ast.Call) and astx.callee_attr(d.ast.value) == '_CheckingJacobian']
        if len(created) != len(ds) or not ds:
            out.unsure(cp.fn, iloop, f'`{jname}` is not only bound to new _CheckingJacobian objects')
        elif any(d not in sbody for d in ds):
            out.bad(cp.fn, created[0].ast, 'one checking jacobian is reused for all steps: items() of a later step '
                    'also returns (and audits into) the state of the earlier ones', key='jac-reused')
        else:
            out.ok(cp.fn, created[0].ast, 'a new _CheckingJacobian per step')
        ca = [(n, c) for n in g.where(lambda n: n.kind == 'stmt' and n in sbody) for c in n.calls()
              if astx.callee_attr(c) == 'compute_approximations']
        wrong = [c for n, c in ca if not (isinstance(astx.arg(c, 1, 'jac'), ast.Name) and
                                           astx.arg(c, 1, 'jac').id == jname)]
        if not ca:
            out.unsure(cp.fn, sloop, 'compute_approximations call not found in the step loop')
        elif wrong:
            out.bad(cp.fn, wrong[0], f'the approximation is not written into `{jname}`, whose items() are recorded as '
                    'J_fd', key='approx-target')
        else:
            gate = [n for n, _ in ca]
            for n, _ in ca:   # a call inside `for approximation in ...` is entered through that loop's header
                gate += [g.nodes_of(l)[0] for l in astx.ancestors(n.ast) if isinstance(l, ast.For) and
                         astx.in_body(l, sloop, 'body')]
            w = find_path(g, g.normal_succ(created[0]) if created else [g.entry], [cp.at(iloop)], avoid=gate)
            if w is not None:
                out.bad(cp.fn, ca[0][1], 'J_fd can be recorded before the approximation ran', key='approx-target')
            else:
                out.ok(cp.fn, ca[0][1], f'approximations are computed into `{jname}` before its items are recorded')
        why = _once_per_iteration(g, iloop, [jn])
        a = jc.args[0]
        base = a
        while isinstance(base, ast.Call) and astx.callee_attr(base) in ('copy', 'array', 'asarray'):
            base = astx.receiver(base) if astx.path(astx.receiver(base)) not in ('np', 'numpy') else base.args[0]
        val_t = iloop.target.elts[1] if isinstance(iloop.target, ast.Tuple) and len(iloop.target.elts) == 2 else None
        if why:
            out.bad(cp.fn, jc, "deriv['J_fd'].append " + why, key='jfd-once')
        elif not (isinstance(base, ast.Name) and isinstance(val_t, ast.Name) and base.id == val_t.id and
                  cp.rd.defs(jn, base.id) == {cp.at(iloop)}):
            out.bad(cp.fn, jc, f'`{astx.src(a)}` is recorded as J_fd, not the value yielded by `{jname}.items()` for '
                    'this pair', key='jfd-source')
        else:
            out.ok(cp.fn, jc, f'exactly one J_fd entry per (pair, step): the value from `{jname}.items()`')
        st = _appends(cp, lambda r: isinstance(r, ast.Subscript) and isinstance(r.value, ast.Name) and
                      r.value.id == 'actual_steps')
        sa = [s for s in cp.stmts() if isinstance(s, ast.Assign) and len(s.targets) == 1 and
              _key_recv('steps')(s.targets[0]) and isinstance(s.value, ast.Subscript)]
        src_names = {astx.path(s.value.value) for s in sa}
        st = _appends(cp, lambda r: isinstance(r, ast.Subscript) and astx.path(r.value) in src_names)
        if len(st) != 1 or not sa:
            out.unsure(cp.fn, cp.fn.node, 'bookkeeping of the actual steps not recognised')
        else:
            kl = astx.enclosing(st[0][0].ast, (ast.For,))
            why = _once_per_iteration(g, kl, [st[0][0]]) if kl is not None and sloop in list(astx.ancestors(kl)) \
                else 'is not inside a per-pair loop of the step loop'
            if why:
                out.bad(cp.fn, st[0][1], 'the step actually used ' + why + ": 'steps' and 'J_fd' get out of step",
                        key='steps-once')
            else:
                out.ok(cp.fn, st[0][1], 'one actual step per (pair, step)')
    # ---- Problem.check_totals
    ct = Ctx(repo.func(PROB, 'Problem.check_totals'))
    g = ct.g
    lists = {}
    for n, c in _appends(ct, lambda r: isinstance(r, ast.Name)):
        if isinstance(c.args[0], ast.Tuple) and len(c.args[0].elts) == 2:
            lists.setdefault(astx.receiver(c).id, []).append((n, c))
    l2 = [s for s in ct.stmts() if isinstance(s, ast.For) and isinstance(s.iter, ast.Name) and s.iter.id in lists
          and isinstance(s.target, ast.Tuple) and len(s.target.elts) == 2]
    if len(l2) != 1:
        out.unsure(ct.fn, ct.fn.node, 'loop over the recorded (Jfd, step) pairs not found')
        return
    l2 = l2[0]
    pairs = lists[l2.iter.id]
    l1 = {astx.enclosing(n.ast, (ast.For,)) for n, _ in pairs}
    if len(l1) != 1 or None in l1:
        out.unsure(ct.fn, pairs[0][1], 'approximations are not recorded in one loop over the steps')
        return
    l1 = l1.pop()
    why = _once_per_iteration(g, l1, [n for n, _ in pairs])
    body1 = set(g.body_nodes(l1))
    hdr1 = g.nodes_of(l1)[0]
    if why:
        out.bad(ct.fn, pairs[0][1], f'`{l2.iter.id}.append` ' + why, key='totals-approx-once')
    else:
        bad = False
        for n, c in pairs:
            jx, sx = c.args[0].elts
            if not (isinstance(sx, ast.Name) and isinstance(l1.target, ast.Name) and sx.id == l1.target.id and
                    ct.rd.defs(n, sx.id) == {hdr1}):
                out.bad(ct.fn, c, f'the step recorded with the approximation is `{astx.src(sx)}`, not the step of this '
                        'iteration', key='totals-step')
                bad = True
                continue
            roots = [x for x in ast.walk(jx) if isinstance(x, ast.Name)]
            stale = [x.id for x in roots if any(d not in body1 for d in ct.rd.defs(n, x.id))]
            if stale or not roots:
                out.bad(ct.fn, c, f'the recorded approximation `{astx.src(jx)}` uses `{stale[0] if stale else jx}` '
                        'which is not computed in this step', key='totals-stale')
                bad = True
        if not bad:
            out.ok(ct.fn, pairs[0][1], f'one (approximation, step) per step, both from the current iteration '
                   f'({len(pairs)} branch(es))')
    jt, st_t = [x.id if isinstance(x, ast.Name) else None for x in l2.target.elts]
    inner = [s for s in l2.body if isinstance(s, ast.For)]
    if len(inner) != 1:
        out.unsure(ct.fn, l2, 'per-pair loop not found')
        return
    inner = inner[0]
    hdr2 = g.nodes_of(l2)[0]
    sa = _appends(ct, _key_recv('steps'))
    sa = [(n, c) for n, c in sa if astx.in_body(n.ast, inner, 'body')]
    why = _once_per_iteration(g, inner, [n for n, _ in sa]) if sa else 'is missing'
    if why:
        out.bad(ct.fn, sa[0][1] if sa else inner, "meta['steps'].append " + why, key='totals-steps-once')
    elif any(not (isinstance(c.args[0], ast.Name) and c.args[0].id == st_t and ct.rd.defs(n, st_t) == {hdr2})
             for n, c in sa):
        out.bad(ct.fn, sa[0][1], f'the recorded step is not `{st_t}` of the (approximation, step) pair being '
                'processed', key='totals-steps-once')
    else:
        out.ok(ct.fn, sa[0][1], 'one step per (pair, step)')
    ja = [(n, c) for n, c in _appends(ct, _key_recv('J_fd')) if astx.in_body(n.ast, inner, 'body')]
    why = _once_per_iteration(g, inner, [n for n, _ in ja]) if ja else 'is missing'
    if why:
        out.bad(ct.fn, ja[0][1] if ja else inner, "meta['J_fd'].append " + why + ": 'J_fd' and 'steps' get out of step",
                key='totals-jfd-once')
        return
    for n, c in ja:
        e = ct.inline(c.args[0], n)
        uses = [x for x in ast.walk(e) if isinstance(x, ast.Name) and x.id == jt]
        if not uses or ct.rd.defs(n, jt) != {hdr2}:
            out.bad(ct.fn, c, f'`{astx.src(c.args[0])}` is recorded as J_fd but is not taken from `{jt}`, the '
                    'approximation of the step being processed (an analytic value would make every error 0)',
                    key='totals-jfd-source')
        else:
            out.ok(ct.fn, c, f'J_fd entry taken from `{jt}` of this step')


# =========================================================================== C13.labels
_LBL = {'fwd': 'fwd', 'forward': 'fwd', 'jfwd': 'fwd', 'rev': 'rev', 'reverse': 'rev', 'jrev': 'rev',
        'fd': 'fd', 'jfd': 'fd', 'calc': 'calc'}


def _words(s):
    out, cur = [], ''
    for ch in s.lower():
        if ch.isalnum():
            cur += ch
        else:
            if cur:
                out.append(cur)
            cur = ''
    if cur:
        out.append(cur)
    return out


def _label_kinds(s):
    return [_LBL[w] for w in _words(s) if w in _LBL]


def slot_kinds(repo):
    """slot -> (kind of element 0, kind of element 1) from the non-directional comparisons (C13.slots checks all)."""
    ctx = Ctx(repo.func(SYSTEM, '_compute_deriv_errors'))
    dinfo = fparams(ctx.fn)[0]
    calls, _ = _tv_calls(ctx)
    res = {}
    for n, c in calls:
        tg = n.ast.targets[0]
        if not (isinstance(tg, ast.Tuple) and len(tg.elts) == 5) or len(c.args) < 2:
            continue
        t = tg.elts[1]
        slot = None
        if isinstance(t, ast.Attribute):
            slot = t.attr
        elif isinstance(t, ast.Name):
            for s2 in ctx.stmts():
                if isinstance(s2, ast.Assign) and len(s2.targets) == 1 and isinstance(s2.value, ast.Name) and \
                        s2.value.id == t.id and isinstance(s2.targets[0], ast.Attribute):
                    slot = s2.targets[0].attr
        xk, rk = _operand_kind(ctx, c.args[0], n, dinfo), _operand_kind(ctx, c.args[1], n, dinfo)
        if slot and isinstance(xk, str) and isinstance(rk, str) and xk != 'zero':
            res.setdefault(slot, set()).add((xk, rk))
    out = {}
    for slot, ks in res.items():
        if len(ks) == 1:
            out[slot] = next(iter(ks))
    return out


class _Disp(Ctx):
    """A display function: which locals are the result lists / their elements."""

    def __init__(self, fn):
        super().__init__(fn)
        self.lists, self.elems = {}, {}
        for st in self.stmts():
            if isinstance(st, ast.Assign) and len(st.targets) == 1 and isinstance(st.targets[0], ast.Name) and \
                    isinstance(st.value, ast.Subscript) and astx.const_str(st.value.slice) in KEY_KIND:
                self.lists[st.targets[0].id] = KEY_KIND[astx.const_str(st.value.slice)]
        for _ in range(3):     # plain aliases of the result lists
            for st in self.stmts():
                if isinstance(st, ast.Assign) and len(st.targets) == 1 and isinstance(st.targets[0], ast.Name) and \
                        isinstance(st.value, ast.Name) and st.value.id in self.lists:
                    self.lists[st.targets[0].id] = self.lists[st.value.id]
        for st in self.stmts():
            if isinstance(st, ast.For) and isinstance(st.iter, ast.Call) and isinstance(st.iter.func, ast.Name) and \
                    st.iter.func.id == 'zip' and isinstance(st.target, ast.Tuple) and \
                    len(st.target.elts) == len(st.iter.args):
                for t, a in zip(st.target.elts, st.iter.args):
                    if isinstance(t, ast.Name) and isinstance(a, ast.Name) and a.id in self.lists:
                        self.elems[t.id] = self.lists[a.id]

    def _elem_kind(self, b):
        if isinstance(b, ast.Name) and b.id in self.elems:
            return self.elems[b.id]
        if isinstance(b, ast.Subscript) and isinstance(b.value, ast.Name) and b.value.id in self.lists:
            return self.lists[b.value.id]
        return None

    def ref(self, e):
        """('vals', slot, k) for V.slot[k]; ('viol', slot) for TV.slot (also through _print_tv/_format_error)."""
        if isinstance(e, ast.Call) and astx.callee_attr(e) in ('_print_tv', '_format_error') and e.args:
            return self.ref(e.args[0])
        if isinstance(e, ast.Subscript) and isinstance(e.value, ast.Attribute) and \
                isinstance(e.slice, ast.Constant) and e.slice.value in (0, 1) and \
                self._elem_kind(e.value.value) == 'vals':
            return ('vals', e.value.attr, e.slice.value)
        if isinstance(e, ast.Attribute) and self._elem_kind(e.value) == 'viol':
            return ('viol', e.attr)
        return None

    def refs_of(self, e, at):
        """Set of refs an expression may denote (locals resolved through all their definitions)."""
        r = self.ref(e)
        if r is not None:
            return {r}
        if isinstance(e, ast.Name):
            res = set()
            for d in self.rd.defs(at, e.id):
                if d.kind == 'stmt' and isinstance(d.ast, ast.Assign) and len(d.ast.targets) == 1 and \
                        isinstance(d.ast.targets[0], ast.Name):
                    sub = self.refs_of(d.ast.value, d)
                    if not sub:
                        return set()
                    res |= sub
                else:
                    return set()
            return res
        return set()


def _check_val_label(out, fn, node, lab_kinds, ref, kinds, key):
    """Compare the kind named by a label with the operand kind of V.slot[k]."""
    _, slot, k = ref
    want = kinds.get(slot)
    if want is None:
        out.unsure(fn, node, f'operand kinds of slot `{slot}` unknown')
        return
    if len(set(lab_kinds)) != 1:
        out.unsure(fn, node, f'label of `{slot}[{k}]` does not name exactly one of fwd/rev/fd/calc')
        return
    lk = lab_kinds[0]
    if lk == want[k] or (lk == 'calc' and want[k] in ('fwd', 'rev')):
        out.ok(fn, node, f'`{slot}[{k}]` is the {want[k]} value and is labelled {lk}')
    else:
        out.bad(fn, node, f'`{slot}[{k}]` holds the {want[k]} value (operand {k} of the `{slot}` comparison in '
                f'_compute_deriv_errors is {want[k]}) but the report labels it "{lk}"', key=key)


def _check_formula(out, fn, node, fk, slot, kinds, key):
    want = kinds.get(slot)
    if want is None:
        out.unsure(fn, node, f'operand kinds of slot `{slot}` unknown')
        return
    x, r = want
    okx = fk[0] == x or (fk[0] == 'calc' and x in ('fwd', 'rev'))
    if okx and all(q == r for q in fk[1:]):
        out.ok(fn, node, f'violation of slot `{slot}` is described as ({fk[0]} - {r}) - (atol + rtol*{r})')
    else:
        out.bad(fn, node, f'the violation of slot `{slot}` is computed as ({x} - {r}) - (atol + rtol*|{r}|) but the '
                f'report describes it with {fk}', key=key)


@rule('C13.labels', floor=32)
def labels(repo, out):
    """Every printed value / violation is labelled with the operand (fwd, rev, fd) it really is."""
    kinds = slot_kinds(repo)
    for s in ('forward', 'reverse', 'fwd_rev'):
        if s not in kinds:
            raise AnalysisError(f'operand kinds of slot {s} not determined')
    # ---- long report
    dd = _Disp(repo.func(DISP, '_deriv_display'))
    for js in [n for n in astx.walk(dd.fn.node) if isinstance(n, ast.JoinedStr)]:
        label = ''
        for v in js.values:
            if isinstance(v, ast.Constant) and isinstance(v.value, str):
                label = v.value
                continue
            if not isinstance(v, ast.FormattedValue):
                continue
            r = dd.ref(v.value)
            if r is not None and r[0] == 'vals':
                _check_val_label(out, dd.fn, js, _label_kinds(label), r, kinds, f'label-{r[1]}-{r[2]}')
            elif r is None and isinstance(v.value, ast.Subscript) and isinstance(v.value.value, ast.Attribute) and \
                    v.value.value.attr in kinds and isinstance(v.value.slice, ast.Constant):
                out.unsure(dd.fn, js, f'`{astx.src(v.value)}` looks like a slot value of an unrecognised list')
        tvs = [c for c in astx.calls(js) if astx.callee_attr(c) == 'tol_violation_str' and len(c.args) == 2]
        if tvs:
            c = tvs[0]
            fk = [_LBL.get((astx.const_str(a) or '').lower()) for a in c.args]
            errs = [v.value for v in js.values if isinstance(v, ast.FormattedValue) and isinstance(v.value, ast.Name)]
            refs = set()
            for e in errs:
                refs |= {r for r in dd.refs_of(e, dd.at(js)) if r[0] == 'viol'}
            if None in fk or len(refs) != 1:
                out.unsure(dd.fn, js, 'tol_violation_str line not recognised')
            else:
                slot = next(iter(refs))[1]
                _check_formula(out, dd.fn, js, [fk[0], fk[1], fk[1]], slot, kinds, f'formula-{slot}')
    # ---- compact table
    dc = _Disp(repo.func(DISP, '_deriv_display_compact'))
    mf = None
    for st in dc.stmts():
        if isinstance(st, ast.Assign) and len(st.targets) == 1 and isinstance(st.targets[0], ast.Name) and \
                st.targets[0].id == 'matrix_free':
            mf = st
    headers = {}
    for n in dc.g.where(lambda n: n.kind == 'stmt' and isinstance(n.ast, ast.Expr) and
                        isinstance(n.ast.value, ast.Call)):
        c = n.ast.value
        if astx.callee_attr(c) == 'extend' and astx.path(astx.receiver(c)) == 'headers' and c.args and \
                isinstance(c.args[0], ast.List) and all(astx.const_str(x) is not None for x in c.args[0].elts):
            par = n.ast._parent
            if isinstance(par, ast.If) and isinstance(par.test, ast.Name) and par.test.id == 'matrix_free':
                headers['mf' if n.ast in par.body else 'plain'] = [astx.const_str(x) for x in c.args[0].elts]
    if set(headers) != {'mf', 'plain'}:
        out.unsure(dc.fn, dc.fn.node, 'header lists of the compact table not recognised')
        return
    mf_excludes_totals = mf is not None and isinstance(mf.value, ast.BoolOp) and isinstance(mf.value.op, ast.And) and \
        any(isinstance(v, ast.UnaryOp) and isinstance(v.op, ast.Not) and isinstance(v.operand, ast.Name) and
            v.operand.id == 'totals' for v in mf.value.values)
    for n in dc.g.where(lambda n: n.kind == 'stmt' and isinstance(n.ast, ast.Expr) and
                        isinstance(n.ast.value, ast.Call)):
        c = n.ast.value
        if not (astx.callee_attr(c) == 'append' and astx.path(astx.receiver(c)) == 'table_data' and c.args):
            continue
        row = c.args[0]
        if not (isinstance(row, ast.BinOp) and isinstance(row.op, ast.Add) and isinstance(row.right, ast.List)):
            out.unsure(dc.fn, c, 'table row is not `start + [...]`')
            continue
        which = None
        for a in astx.ancestors(n.ast):
            if isinstance(a, ast.If) and isinstance(a.test, ast.Name) and a.test.id == 'matrix_free':
                which = 'mf' if astx.in_body(n.ast, a, 'body') else 'plain'
                break
            if isinstance(a, ast.If) and isinstance(a.test, ast.Name) and a.test.id == 'totals' and \
                    astx.in_body(n.ast, a, 'body') and mf_excludes_totals:
                which = 'plain'
                break
        if which is None:
            out.unsure(dc.fn, c, 'cannot tell which header list belongs to this row')
            continue
        hs = headers[which]
        cells = row.right.elts
        if len(cells) != len(hs):
            out.bad(dc.fn, c, f'row has {len(cells)} cells, its header {len(hs)}', key=f'row-width-{which}')
            continue
        for j, (cell, h) in enumerate(zip(cells, hs)):
            refs = dc.refs_of(cell, n)
            if not refs:
                continue
            hk = _label_kinds(h)
            for r in sorted(refs):
                if r[0] == 'vals':
                    _check_val_label(out, dc.fn, cell, hk, r, kinds, f'column-{which}-{j}')
                elif len(hk) == 3:
                    _check_formula(out, dc.fn, cell, hk, r[1], kinds, f'column-{which}-{j}')
                else:
                    out.unsure(dc.fn, cell, f'header "{h}" of a violation column not recognised')
    enforce_floor(out, dd.fn, 32)


# =========================================================================== self-test
_EXT = "self.info['uncovered_nz'].extend(list(zip(nzs, icol * np.ones_like(nzs))))"
_GUARD3 = ("                if 'uncovered_nz' not in self.info:\n"
           "                    self.info['uncovered_nz'] = []\n"
           "                    self.info['uncovered_threshold'] = uncovered_threshold\n"
           "                " + _EXT)
_NZ = 'nzs = np.where(np.abs(arr) > uncovered_threshold)[0]'
_DISPATCH = 'subjac.set_col(loc_idx, column[start:end], self._uncovered_threshold)'
_SETUP = ("        subjacs_info = {}\n"
          "        for key, meta in self._subjacs_info.items():\n"
          "            meta = meta.copy()\n"
          "            if hasattr(meta.get('val'), 'copy'):\n"
          "                meta['val'] = meta['val'].copy()\n"
          "            subjacs_info[key] = meta\n"
          "        self._subjacs_info = subjacs_info\n")
_VALCOPY = ("            if hasattr(meta.get('val'), 'copy'):\n"
            "                meta['val'] = meta['val'].copy()\n")
_DIAG_INIT = ("                if 'uncovered_nz' not in self.info:\n"
              "                    self.info['uncovered_nz'] = []\n"
              "                    self.info['uncovered_threshold'] = uncovered_threshold\n"
              "                self.info['uncovered_nz'].extend(list(zip(nzs, icol * np.ones_like(nzs))))\n"
              "            column[icol] = save")
_AUDIT_BLOCK = ("            arr = column.copy()\n            arr[rowinds] = 0.  # zero out the rows that are covered by sparsity\n"
                "            " + _NZ + "\n            if nzs.size > 0:\n" + _GUARD3)
_MODHELPER_CALL = "            _audit_uncovered_nz(self.info, icol, column, rowinds, uncovered_threshold)"
_MODHELPER_DEF = ("\n\ndef _audit_uncovered_nz(info, icol, column, covered_rows, uncovered_threshold):\n"
                  "    arr = column.copy()\n    arr[covered_rows] = 0.\n"
                  "    nzs = np.where(np.abs(arr) > uncovered_threshold)[0]\n    if nzs.size > 0:\n"
                  "        if 'uncovered_nz' not in info:\n            info['uncovered_nz'] = []\n"
                  "            info['uncovered_threshold'] = uncovered_threshold\n"
                  "        info['uncovered_nz'].extend(list(zip(nzs, icol * np.ones_like(nzs))))\n")
_SEL_OLD = ("            if len(comp._var_allprocs_abs2meta['output']) == 0:\n                continue\n\n"
            "            # skip any ExplicitComponent with no inputs (e.g. IndepVarComp)\n"
            "            if (len(comp._var_allprocs_abs2meta['input']) == 0 and\n"
            "                    isinstance(comp, ExplicitComponent)):\n                continue\n")
_SEL_NEW = ("            abs2meta = comp._var_allprocs_abs2meta\n            if len(abs2meta['output']) == 0:\n"
            "                continue\n\n            if len(abs2meta['input']) == 0:\n"
            "                if isinstance(comp, ExplicitComponent):\n                    continue\n")
_HAND_OLD = ("                        deriv['uncovered_nz'] = subjacs_info['uncovered_nz']\n"
             "                        deriv['uncovered_threshold'] = subjacs_info['uncovered_threshold']\n")
_CSC_OLD = ("        csc = self.info['val']\n        rowinds = csc.indices[csc.indptr[icol]:csc.indptr[icol + 1]]\n"
            "        csc.data[csc.indptr[icol]:csc.indptr[icol + 1]] = column[rowinds]\n")
_CSC_NEW = ("        csc = self.info['val']\n        indptr = csc.indptr\n        start, stop = indptr[icol], indptr[icol + 1]\n"
            "        rowinds = csc.indices[start:stop]\n        csc.data[start:stop] = column[rowinds]\n")
_COO_OLD = ("        if uncovered_threshold is not None:  # do a sparsity check\n            arr = column.copy()\n"
            "            arr[row_inds] = 0.  # zero out the rows that are covered by sparsity\n            " + _NZ +
            "\n            if nzs.size > 0:\n" + _GUARD3 + "\n")
_COO_NEW = ("        if uncovered_threshold is None:\n            return\n\n        arr = column.copy()\n"
            "        arr[row_inds] = 0.\n        " + _NZ + "\n        if nzs.size == 0:\n            return\n\n"
            "        info = self.info\n        if 'uncovered_nz' not in info:\n            info['uncovered_nz'] = []\n"
            "            info['uncovered_threshold'] = uncovered_threshold\n"
            "        info['uncovered_nz'].extend(list(zip(nzs, icol * np.ones_like(nzs))))\n")
_TV_FWD = ('errs.forward, err_vals.forward, above, abs_errs.forward, rel_errs.forward = \\\n'
           '                    get_tol_violation(Jforward, Jfd, atol, rtol)')
_TV_REV = ('errs.reverse, err_vals.reverse, above, abs_errs.reverse, rel_errs.reverse = \\\n'
           '                    get_tol_violation(Jreverse, Jfd, atol, rtol)')

selftest(
    'C13',
    # ---- accum (F4 pre-fix shapes first)
    Mutant('accum-prefix-coo-extend-under-init', SUBJAC, _GUARD3, _GUARD3.replace('\n                ' + _EXT, '\n                    ' + _EXT), 'C13.accum', nth=0),
    Mutant('accum-prefix-csc-extend-under-init', SUBJAC, _GUARD3, _GUARD3.replace('\n                ' + _EXT, '\n                    ' + _EXT), 'C13.accum', nth=2),
    Mutant('accum-prefix-csr-never-extends', SUBJAC, _GUARD3, _GUARD3.replace('\n                ' + _EXT, ''), 'C13.accum', nth=1),
    Mutant('accum-guard-more-than-one', SUBJAC, 'if nzs.size > 0:', 'if nzs.size > 1:', 'C13.accum', nth=3),
    Mutant('accum-col-row-swapped', SUBJAC, 'extend(list(zip(nzs, icol * np.ones_like(nzs))))', 'extend(list(zip(icol * np.ones_like(nzs), nzs)))', 'C13.accum', nth=2),
    Mutant('accum-extend-only-later-columns', SUBJAC, _GUARD3,
           "                if 'uncovered_nz' not in self.info:\n"
           "                    self.info['uncovered_nz'] = []\n"
           "                    self.info['uncovered_threshold'] = uncovered_threshold\n"
           "                else:\n"
           "                    " + _EXT, 'C13.accum', nth=0),
    Mutant('accum-return-after-init', SUBJAC, _GUARD3,
           "                if 'uncovered_nz' not in self.info:\n"
           "                    self.info['uncovered_nz'] = []\n"
           "                    self.info['uncovered_threshold'] = uncovered_threshold\n"
           "                    return\n"
           "                " + _EXT, 'C13.accum', nth=2),
    # ---- audit
    Mutant('audit-no-abs', SUBJAC, _NZ, 'nzs = np.where(arr > uncovered_threshold)[0]', 'C13.audit', nth=2),
    Mutant('audit-inverted', SUBJAC, _NZ, 'nzs = np.where(np.abs(arr) < uncovered_threshold)[0]', 'C13.audit', nth=0),
    Mutant('audit-constant-threshold', SUBJAC, 'nzs = np.where(np.abs(column) > uncovered_threshold)[0]', 'nzs = np.where(np.abs(column) > 0.0)[0]', 'C13.audit'),
    Mutant('audit-zero-wrong-rows', SUBJAC, 'arr[rowinds] = 0.  # zero out the rows that are covered by sparsity', 'arr[icol] = 0.', 'C13.audit', nth=1),
    Mutant('audit-covered-not-zeroed', SUBJAC, 'arr[row_inds] = 0.  # zero out the rows that are covered by sparsity', 'pass', 'C13.audit'),
    Mutant('audit-audits-other-array', SUBJAC, '            arr = column.copy()\n            arr[row_inds] = 0.', '            arr = data.copy()\n            arr[row_inds] = 0.', 'C13.audit'),
    Mutant('audit-csc-slice-one-row', SUBJAC, 'rowinds = csc.indices[csc.indptr[icol]:csc.indptr[icol + 1]]', 'rowinds = csc.indices[csc.indptr[icol]:csc.indptr[icol] + 1]', 'C13.audit', nth=1),
    Mutant('audit-csr-slices-both-off', SUBJAC,
           '        rowinds = csc.indices[csc.indptr[icol]:csc.indptr[icol + 1]]\n        csc.data[csc.indptr[icol]:csc.indptr[icol + 1]] = column[rowinds]',
           '        rowinds = csc.indices[csc.indptr[icol - 1]:csc.indptr[icol]]\n        csc.data[csc.indptr[icol - 1]:csc.indptr[icol]] = column[rowinds]', 'C13.audit', nth=0),
    Mutant('audit-coo-mask-by-row', SUBJAC, 'col_match = col == icol', 'col_match = row == icol', 'C13.audit'),
    Mutant('audit-coo-gather-from-col', SUBJAC, 'row_inds = row[col_match]', 'row_inds = col[col_match]', 'C13.audit'),
    Mutant('audit-diag-zeroed-before-store', SUBJAC,
           "        self.info['val'][icol] = column[icol]\n        if uncovered_threshold is not None:\n            save = column[icol]\n            column[icol] = 0.  # zero out the row that is covered by sparsity\n",
           "        if uncovered_threshold is not None:\n            save = column[icol]\n            column[icol] = 0.  # zero out the row that is covered by sparsity\n            self.info['val'][icol] = column[icol]\n", 'C13.audit'),
    # ---- thread
    Mutant('thread-diag-branch-no-threshold', DJAC, _DISPATCH, 'subjac.set_col(loc_idx, column[start:end])', 'C13.thread', nth=0),
    Mutant('thread-rowcol-branch-none', DJAC, _DISPATCH, 'subjac.set_col(loc_idx, column[start:end], None)', 'C13.thread', nth=1),
    Mutant('thread-dense-branch-skipped', DJAC, '                else:\n                    ' + _DISPATCH, '                else:\n                    pass', 'C13.thread'),
    Mutant('thread-init-not-stored', DJAC, 'self._uncovered_threshold = uncovered_threshold', 'self._uncovered_threshold = None', 'C13.thread'),
    Mutant('thread-omcoo-not-forwarded', SUBJAC, "self._set_coo_col(icol, column, self.info['val'], self.rows, self.cols,\n                          uncovered_threshold)", "self._set_coo_col(icol, column, self.info['val'], self.rows, self.cols)", 'C13.thread'),
    Mutant('thread-coo-not-forwarded', SUBJAC, 'self._set_coo_col(icol, column, coo.data, coo.row, coo.col, uncovered_threshold)', 'self._set_coo_col(icol, column, coo.data, coo.row, coo.col)', 'C13.thread'),
    Mutant('thread-omcoo-rows-cols-swapped', SUBJAC, "self._set_coo_col(icol, column, self.info['val'], self.rows, self.cols,", "self._set_coo_col(icol, column, self.info['val'], self.cols, self.rows,", 'C13.thread'),
    Mutant('thread-csr-audit-removed', SUBJAC,
           "        if uncovered_threshold is not None:\n            arr = column.copy()\n            arr[rowinds] = 0.  # zero out the rows that are covered by sparsity\n            " + _NZ + "\n            if nzs.size > 0:\n" + _GUARD3 + "\n\n        self.info['val'].data = csc.tocsr().data",
           "        self.info['val'].data = csc.tocsr().data", 'C13.thread'),
    # ---- schema (the diagonal defect is on the tree; these are further shapes)
    Mutant('schema-csc-threshold-not-stored', SUBJAC, "                    self.info['uncovered_nz'] = []\n                    self.info['uncovered_threshold'] = uncovered_threshold\n", "                    self.info['uncovered_nz'] = []\n", 'C13.schema', nth=2),
    Mutant('schema-keys-crossed', COMP, "deriv['uncovered_threshold'] = subjacs_info['uncovered_threshold']", "deriv['uncovered_threshold'] = subjacs_info['uncovered_nz']", 'C13.schema'),
    Mutant('schema-threshold-not-handed-over', COMP, "                        deriv['uncovered_threshold'] = subjacs_info['uncovered_threshold']\n", "", 'C13.schema'),
    # ---- slots
    Mutant('slots-abs-rel-swapped', SYSTEM, _TV_FWD, _TV_FWD.replace('abs_errs.forward, rel_errs.forward', 'rel_errs.forward, abs_errs.forward'), 'C13.slots'),
    Mutant('slots-mixed-slot', SYSTEM, _TV_REV, _TV_REV.replace('err_vals.reverse', 'err_vals.forward'), 'C13.slots'),
    Mutant('slots-reverse-compares-forward', SYSTEM, _TV_REV, _TV_REV.replace('get_tol_violation(Jreverse, Jfd', 'get_tol_violation(Jforward, Jfd'), 'C13.slots'),
    Mutant('slots-operands-exchanged', SYSTEM, _TV_FWD, _TV_FWD.replace('get_tol_violation(Jforward, Jfd', 'get_tol_violation(Jfd, Jforward'), 'C13.slots'),
    Mutant('slots-stale-first-approximation', SYSTEM, _TV_REV, _TV_REV.replace('get_tol_violation(Jreverse, Jfd', 'get_tol_violation(Jreverse, fdinfo[0]'), 'C13.slots'),
    Mutant('slots-above-dropped', SYSTEM, _TV_REV + '\n                above_tol |= above', _TV_REV, 'C13.slots'),
    Mutant('slots-above-overwritten', SYSTEM, _TV_REV + '\n                above_tol |= above', _TV_REV + '\n                above_tol = above', 'C13.slots'),
    Mutant('slots-directional-unpack-swapped', SYSTEM, "mhatdotm, dhatdotd = derivative_info['directional_fd_fwd'][i]", "dhatdotd, mhatdotm = derivative_info['directional_fd_fwd'][i]", 'C13.slots'),
    Mutant('slots-containers-shared-by-steps', SYSTEM, "        above = False\n        errs = _ErrorData()\n        abs_errs = _ErrorData()\n", "        above = False\n        abs_errs = _ErrorData()\n",
           'C13.slots', also=[(SYSTEM, "    above_tol = above = False\n    errs_fwd_rev", "    above_tol = above = False\n    errs = _ErrorData()\n    errs_fwd_rev")]),
    Mutant('slots-rel-listed-as-abs', SYSTEM, "derivative_info['abs error'].append(abs_errs)\n        derivative_info['rel error'].append(rel_errs)", "derivative_info['abs error'].append(rel_errs)\n        derivative_info['rel error'].append(abs_errs)", 'C13.slots'),
    # ---- tolviol
    Mutant('tolviol-vals-order', ARR, '(max_error_x, max_error_ref)', '(max_error_ref, max_error_x)', 'C13.tolviol'),
    Mutant('tolviol-rel-to-x', ARR, 'rel_at_max = abs_at_max / np.abs(max_error_ref)', 'rel_at_max = abs_at_max / np.abs(max_error_x)', 'C13.tolviol'),
    Mutant('tolviol-rel-signed', ARR, 'rel_at_max = abs_at_max / np.abs(max_error_ref)', 'rel_at_max = abs_at_max / max_error_ref', 'C13.tolviol'),
    Mutant('tolviol-abs-at-other-index', ARR, 'abs_at_max = abs_error.flat[max_error_idx]', 'abs_at_max = abs_error.flat[np.argmax(abs_error)]', 'C13.tolviol'),
    Mutant('tolviol-rtol-times-x', ARR, 'mixed_atol_rtol = atol + rtol * np.abs(ref)', 'mixed_atol_rtol = atol + rtol * np.abs(x)', 'C13.tolviol'),
    Mutant('tolviol-rtol-signed-ref', ARR, 'mixed_atol_rtol = atol + rtol * np.abs(ref)', 'mixed_atol_rtol = atol + rtol * ref', 'C13.tolviol'),
    Mutant('tolviol-above-ge', ARR, 'np.any(diff > 0.)', 'np.any(diff >= 0.)', 'C13.tolviol'),
    Mutant('tolviol-above-from-abs-error', ARR, 'np.any(diff > 0.)', 'np.any(abs_error > 0.)', 'C13.tolviol'),
    Mutant('tolviol-vals-other-index', ARR, 'max_error_x = x.flat[max_error_idx]', 'max_error_x = x.flat[np.argmax(abs_error)]', 'C13.tolviol'),
    # ---- tols
    Mutant('tols-swapped-in-compute', SYSTEM, _TV_REV, _TV_REV.replace('Jfd, atol, rtol)', 'Jfd, rtol, atol)'), 'C13.tols'),
    Mutant('tols-swapped-into-compute', SYSTEM, 'totals,\n                                          abs_error_tol, rel_error_tol)', 'totals,\n                                          rel_error_tol, abs_error_tol)', 'C13.tols'),
    Mutant('tols-swapped-into-iter', COMP, 'nondeps, self.matrix_free, abs_err_tol, rel_err_tol,', 'nondeps, self.matrix_free, rel_err_tol, abs_err_tol,', 'C13.tols'),
    Mutant('tols-swapped-into-display', PROB, "_deriv_display(model, err_iter, data[''], rel_err_tol, abs_err_tol,", "_deriv_display(model, err_iter, data[''], abs_err_tol, rel_err_tol,", 'C13.tols'),
    Mutant('tols-dropped-in-problem', PROB, 'abs_err_tol=abs_err_tol, rel_err_tol=rel_err_tol,\n                                                 method=method', 'abs_err_tol=abs_err_tol,\n                                                 method=method', 'C13.tols'),
    Mutant('tols-formatter-crossed', DISP, 'abs_err_tol=abs_error_tol,\n                                rel_err_tol=rel_error_tol,', 'abs_err_tol=rel_error_tol,\n                                rel_err_tol=abs_error_tol,', 'C13.tols'),
    Mutant('tols-formatter-stored-crossed', DISP, 'self._abs_err_tol = abs_err_tol\n        self._rel_err_tol = rel_err_tol', 'self._abs_err_tol = rel_err_tol\n        self._rel_err_tol = abs_err_tol', 'C13.tols'),
    # ---- iter
    Mutant('iter-nondep-dropped-even-if-wrong', SYSTEM, 'if key in nondep_derivs and not above_tol:', 'if key in nondep_derivs:', 'C13.iter'),
    Mutant('iter-inconsistent-hidden', SYSTEM, 'if show_only_incorrect and not (above_tol or inconsistent):', 'if show_only_incorrect and not above_tol:', 'C13.iter'),
    Mutant('iter-only-incorrect-inverted', SYSTEM, 'if show_only_incorrect and not (above_tol or inconsistent):', 'if show_only_incorrect and (above_tol or inconsistent):', 'C13.iter'),
    Mutant('iter-yield-wrong-flag', SYSTEM, 'yield key, fd_opts, directional, above_tol, inconsistent', 'yield key, fd_opts, directional, inconsistent, above_tol', 'C13.iter'),
    # ---- record
    Mutant('record-jac-hoisted', COMP, "            for step in steps:\n                self.run_apply_nonlinear()\n                approximations = {'fd': FiniteDifference(), 'cs': ComplexStep()}",
           "            approx_jac = _CheckingJacobian(self)\n            for step in steps:\n                self.run_apply_nonlinear()\n                approximations = {'fd': FiniteDifference(), 'cs': ComplexStep()}", 'C13.record',
           also=[(COMP, '                approx_jac = _CheckingJacobian(self)\n', '')]),
    Mutant('record-approx-into-other-jac', COMP, 'approximation.compute_approximations(self, jac=approx_jac)', 'approximation.compute_approximations(self, jac=self._get_jacobian())', 'C13.record'),
    Mutant('record-jfd-only-first', COMP, "                    if 'J_fd' not in deriv:\n                        deriv['J_fd'] = []\n                        deriv['steps'] = []\n                    deriv['J_fd'].append(fd_partial)",
           "                    if 'J_fd' not in deriv:\n                        deriv['J_fd'] = []\n                        deriv['steps'] = []\n                        deriv['J_fd'].append(fd_partial)", 'C13.record'),
    Mutant('record-totals-analytic-as-fd', PROB, "meta['J_fd'].append(Jfd[key])", "meta['J_fd'].append(Jcalc[key])", 'C13.record'),
    Mutant('record-totals-first-step-only', PROB, "meta['J_fd'].append(Jfd[key])", "meta['J_fd'].append(Jfds[0][0][key])", 'C13.record'),
    Mutant('record-totals-rev-branch-no-jfd', PROB, "                        meta['J_rev'] = dhat_dot_d\n                        meta['J_fd'].append(mhat_dot_m)", "                        meta['J_rev'] = dhat_dot_d", 'C13.record'),
    Mutant('record-totals-steps-under-init', PROB, "                    meta['steps'] = []\n                meta['steps'].append(step)", "                    meta['steps'] = []\n                    meta['steps'].append(step)", 'C13.record'),
    Mutant('record-totals-stale-approximation', PROB, '                Jfds.append((Jfd, step))', '                Jfds.append((Jcalc, step))', 'C13.record'),
    # ---- labels (the fwd_rev defect of the long report is on the tree; these are further shapes)
    Mutant('labels-long-fwd-fd-swapped', DISP, "parts.append(f'      fwd value @ max viol: {vals_at_max_err[i].forward[0]:.6e}')\n                    parts.append(f'      fd value @ max viol: {vals_at_max_err[i].forward[1]:.6e} '",
           "parts.append(f'      fwd value @ max viol: {vals_at_max_err[i].forward[1]:.6e}')\n                    parts.append(f'      fd value @ max viol: {vals_at_max_err[i].forward[0]:.6e} '", 'C13.labels', nth=1),
    Mutant('labels-long-rev-reads-forward', DISP, "rev value @ max viol: {vals_at_max_err[i].reverse[0]:.6e}", "rev value @ max viol: {vals_at_max_err[i].forward[0]:.6e}", 'C13.labels'),
    Mutant('labels-compact-cells-swapped', DISP, "[abs_val.forward[0], abs_val.forward[1],\n                                       _print_tv(tol_violation.forward),\n                                       abs_val.reverse[0]", "[abs_val.forward[1], abs_val.forward[0],\n                                       _print_tv(tol_violation.forward),\n                                       abs_val.reverse[0]", 'C13.labels'),
    Mutant('labels-compact-totals-swapped', DISP, "calc_abs_val_fd = abs_val.reverse[1]\n                    calc_abs_val = abs_val.reverse[0]", "calc_abs_val_fd = abs_val.reverse[0]\n                    calc_abs_val = abs_val.reverse[1]", 'C13.labels'),
    Mutant('labels-compact-header-swapped', DISP, "'fwd val @ max viol', 'rev val @ max viol', '(fwd-rev) - (a + r*rev)'", "'rev val @ max viol', 'fwd val @ max viol', '(rev-fwd) - (a + r*fwd)'", 'C13.labels'),
    Mutant('labels-compact-wrong-violation-column', DISP, "abs_val.reverse[0], abs_val.reverse[1],\n                                       _print_tv(tol_violation.reverse),", "abs_val.reverse[0], abs_val.reverse[1],\n                                       _print_tv(tol_violation.fwd_rev),", 'C13.labels'),
    Mutant('tolviol-seed-abs-error-global-max', ARR, 'abs_at_max = abs_error.flat[max_error_idx]', 'abs_at_max = abs_error.max()', 'C13.tolviol'),
    Mutant('tolviol-abs-error-np-max', ARR, 'abs_at_max = abs_error.flat[max_error_idx]', 'abs_at_max = np.max(np.abs(x - ref))', 'C13.tolviol'),
    Mutant('tolviol-rel-error-global-max', ARR, 'rel_at_max = abs_at_max / np.abs(max_error_ref)', 'rel_at_max = np.max(abs_error / np.abs(ref))', 'C13.tolviol'),
    Mutant('tolviol-rel-numerator-global-max', ARR, 'rel_at_max = abs_at_max / np.abs(max_error_ref)', 'rel_at_max = abs_error.max() / np.abs(max_error_ref)', 'C13.tolviol'),
    Mutant('tolviol-value-global-max', ARR, 'max_error_x = x.flat[max_error_idx]', 'max_error_x = np.abs(x).max()', 'C13.tolviol'),
    Mutant('tolviol-violation-not-at-index', ARR, 'max_error = diff.flat[max_error_idx]', 'max_error = diff.mean()', 'C13.tolviol'),
    Mutant('tolviol-entrywise-abs-other-index', ARR, '    abs_at_max = abs_error.flat[max_error_idx]\n',
           '    j = np.argmax(abs_error)\n    abs_at_max = np.abs(x.flat[j] - ref.flat[j])\n', 'C13.tolviol'),
    # ---- select (round-2 seed: state-only implicit components silently skipped)
    Mutant('select-seed-no-inputs-skips-implicit', PROB, "            if (len(comp._var_allprocs_abs2meta['input']) == 0 and\n                    isinstance(comp, ExplicitComponent)):\n                continue",
           "            if len(comp._var_allprocs_abs2meta['input']) == 0:\n                continue", 'C13.select'),
    Mutant('select-no-inputs-or-explicit', PROB, "            if (len(comp._var_allprocs_abs2meta['input']) == 0 and\n                    isinstance(comp, ExplicitComponent)):",
           "            if (len(comp._var_allprocs_abs2meta['input']) == 0 or\n                    isinstance(comp, ExplicitComponent)):", 'C13.select'),
    Mutant('select-includes-inverted', PROB, 'if not match_includes_excludes(comp.pathname, includes, excludes):\n                continue\n\n            comp_stream', 'if match_includes_excludes(comp.pathname, includes, excludes):\n                continue\n\n            comp_stream', 'C13.select'),
    Mutant('select-result-only-when-printing', PROB, "            partials_data.update(partials)\n", "            if out_stream is not None:\n                partials_data.update(partials)\n", 'C13.select'),
    Mutant('accum-module-helper-extend-under-init', SUBJAC, _AUDIT_BLOCK, _MODHELPER_CALL, 'C13.accum',
           also=[(SUBJAC, _AUDIT_BLOCK, _MODHELPER_CALL + _MODHELPER_DEF.replace("        info['uncovered_nz'].extend(", "            info['uncovered_nz'].extend("))]),
    Mutant('audit-module-helper-wrong-rows-passed', SUBJAC, _AUDIT_BLOCK, _MODHELPER_CALL, 'C13.audit',
           also=[(SUBJAC, _AUDIT_BLOCK, _MODHELPER_CALL.replace('rowinds', 'icol') + _MODHELPER_DEF)]),
    Mutant('schema-module-helper-no-threshold', SUBJAC, _AUDIT_BLOCK, _MODHELPER_CALL, 'C13.schema',
           also=[(SUBJAC, _AUDIT_BLOCK, _MODHELPER_CALL + _MODHELPER_DEF.replace("            info['uncovered_threshold'] = uncovered_threshold\n", ''))]),
    Mutant('thread-module-helper-call-dropped', SUBJAC, _AUDIT_BLOCK, '            pass', 'C13.thread',
           also=[(SUBJAC, _AUDIT_BLOCK, _MODHELPER_CALL + _MODHELPER_DEF)]),
    Mutant('select-alias-shape-implicit-skipped', PROB, _SEL_OLD, _SEL_NEW.replace("                if isinstance(comp, ExplicitComponent):\n                    continue\n", "                continue\n"), 'C13.select'),
    Mutant('schema-loop-shape-threshold-not-handed', COMP, _HAND_OLD,
           "                        for name in ('uncovered_nz',):\n                            deriv[name] = subjacs_info[name]\n", 'C13.schema'),
    Mutant('schema-loop-shape-keys-crossed', COMP, _HAND_OLD,
           "                        for name in ('uncovered_nz', 'uncovered_threshold'):\n                            deriv[name] = subjacs_info['uncovered_nz']\n", 'C13.schema'),
    Mutant('audit-csc-locals-shape-one-row', SUBJAC, _CSC_OLD, _CSC_NEW.replace('indptr[icol], indptr[icol + 1]', 'indptr[icol], indptr[icol] + 1'), 'C13.audit'),
    Mutant('accum-coo-early-return-shape-extend-under-init', SUBJAC, _COO_OLD, _COO_NEW.replace("        info['uncovered_nz'].extend(", "            info['uncovered_nz'].extend("), 'C13.accum'),
    Mutant('accum-coo-early-return-shape-guard-off-by-one', SUBJAC, _COO_OLD, _COO_NEW.replace('if nzs.size == 0:', 'if nzs.size <= 1:'), 'C13.accum'),
    Mutant('tolviol-signed-error', ARR, 'abs_error = np.abs(x - ref)', 'abs_error = x - ref', 'C13.tolviol'),
    Mutant('tolviol-difference-of-magnitudes', ARR, 'abs_error = np.abs(x - ref)', 'abs_error = np.abs(x) - np.abs(ref)', 'C13.tolviol'),
    Mutant('iter-delete-declared-pair', SYSTEM, '        if key in nondep_derivs and not above_tol:\n            del derivatives[key]\n            continue',
           '        if key in nondep_derivs:\n            del derivatives[key]\n            if not above_tol:\n                continue', 'C13.iter'),
    Mutant('labels-long-formula-swapped', DISP, 'tol_violation_str("Jfwd", "Jfd")', 'tol_violation_str("Jfd", "Jfwd")', 'C13.labels'),
    Mutant('record-steps-under-dedup', COMP, "                    actual_steps[rel_key].append(fd_options['step'])\n", "",
           'C13.record', also=[(COMP, "                        added_wrts.add(abs_wrt)\n", "                        added_wrts.add(abs_wrt)\n                        actual_steps[rel_key].append(fd_options['step'])\n")]),
    # ---- the four defects found by these rules and repaired in /repo: the pre-fix shapes must be reported again
    Mutant('prefix-schema-diagonal-no-threshold', SUBJAC, _DIAG_INIT, _DIAG_INIT.replace("                    self.info['uncovered_threshold'] = uncovered_threshold\n", ''), 'C13.schema'),
    Mutant('prefix-fresh-outer-copy-only', DJAC, _SETUP, '        self._subjacs_info = self._subjacs_info.copy()\n', 'C13.fresh'),
    Mutant('prefix-snapshot-outer-copy-only', DJAC, _SETUP, '        self._subjacs_info = self._subjacs_info.copy()\n', 'C13.snapshot'),
    # ---- half repairs and other shapes of the same two defects
    Mutant('fresh-no-copy-at-all', DJAC, _SETUP, '', 'C13.fresh'),
    Mutant('fresh-copy-not-assigned-back', DJAC, _SETUP, _SETUP.replace('        self._subjacs_info = subjacs_info\n', ''), 'C13.fresh'),
    Mutant('snapshot-copy-not-assigned-back', DJAC, _SETUP, _SETUP.replace('        self._subjacs_info = subjacs_info\n', ''), 'C13.snapshot'),
    Mutant('fresh-copy-made-but-original-stored', DJAC, _SETUP, _SETUP.replace('            meta = meta.copy()\n', '            mcopy = meta.copy()\n').replace("meta['val'] = meta['val'].copy()", "mcopy['val'] = meta['val'].copy()"), 'C13.fresh'),
    Mutant('fresh-dict-constructor-only', DJAC, _SETUP, '        self._subjacs_info = dict(self._subjacs_info)\n', 'C13.fresh'),
    Mutant('snapshot-meta-copied-val-shared', DJAC, _VALCOPY, '', 'C13.snapshot'),
    Mutant('snapshot-per-key-dictcomp-keeps-val-arrays', DJAC, _SETUP, '        self._subjacs_info = {k: m.copy() for k, m in self._subjacs_info.items()}\n', 'C13.snapshot'),
    Mutant('snapshot-val-copy-under-unrelated-flag', DJAC, "            if hasattr(meta.get('val'), 'copy'):\n", "            if self._is_explicitcomp:\n", 'C13.snapshot'),
    Mutant('snapshot-val-copy-discarded', DJAC, "                meta['val'] = meta['val'].copy()\n", "                val = meta['val'].copy()\n", 'C13.snapshot'),
    Mutant('snapshot-val-copied-into-component', DJAC, _SETUP, _SETUP.replace('            meta = meta.copy()\n', '            mcopy = meta.copy()\n').replace('subjacs_info[key] = meta', 'subjacs_info[key] = mcopy'), 'C13.snapshot'),
    # ---- twins
    Twin('twin-setdefault-form', SUBJAC, _GUARD3,
         "                self.info.setdefault('uncovered_threshold', uncovered_threshold)\n"
         "                self.info.setdefault('uncovered_nz', []).extend(list(zip(nzs, icol * np.ones_like(nzs))))", nth=2),
    Twin('twin-init-with-values-else-extend', SUBJAC, _GUARD3,
         "                pairs = list(zip(nzs, icol * np.ones_like(nzs)))\n"
         "                if 'uncovered_nz' not in self.info:\n"
         "                    self.info['uncovered_threshold'] = uncovered_threshold\n"
         "                    self.info['uncovered_nz'] = pairs\n"
         "                else:\n"
         "                    self.info['uncovered_nz'].extend(pairs)", nth=0),
    Twin('twin-renamed-and-flipped', SUBJAC,
         "            arr = column.copy()\n            arr[rowinds] = 0.  # zero out the rows that are covered by sparsity\n            " + _NZ + "\n            if nzs.size > 0:\n" + _GUARD3,
         "            audited = np.array(column)\n            audited[rowinds] = 0\n            mags = np.abs(audited)\n            bad_rows = np.where(uncovered_threshold < mags)[0]\n            if 0 < bad_rows.size:\n"
         + _GUARD3.replace('nzs', 'bad_rows'), nth=1),
    Twin('twin-info-alias-listcomp', SUBJAC, "            if nzs.size > 0:\n" + _DIAG_INIT,
         "            info = self.info\n            if len(nzs) != 0:\n                if 'uncovered_nz' not in info:\n                    info['uncovered_threshold'] = uncovered_threshold\n                    info['uncovered_nz'] = []\n                info['uncovered_nz'] += [(r, icol) for r in nzs]\n            column[icol] = save"),
    Twin('twin-setup-renamed-locals', DJAC, _SETUP,
         "        detached = dict()\n        for abs_key, info in self._subjacs_info.items():\n            mine = dict(info)\n            if mine.get('val') is not None and hasattr(mine['val'], 'copy'):\n                mine['val'] = np.array(info['val'])\n            detached[abs_key] = mine\n        self._subjacs_info = detached\n"),
    Twin('twin-setup-deepcopy-comprehension', DJAC, _SETUP, "        from copy import deepcopy\n        self._subjacs_info = {k: deepcopy(m) for k, m in self._subjacs_info.items()}\n"),
    Twin('twin-snapshot-copy-at-append', COMP, "deriv['J_fd'].append(fd_partial)", "deriv['J_fd'].append(fd_partial.copy())"),
    Twin('twin-dispatch-temporaries', DJAC,
         "                subjac = subjacs[key]\n                info = subjac.info\n                if info['diagonal']:\n                    " + _DISPATCH,
         "                subjac = subjacs[key]\n                info = subjac.info\n                thr = self._uncovered_threshold\n                rows = column[start:end]\n                if info['diagonal']:\n                    subjac.set_col(loc_idx, rows, thr)"),
    Twin('twin-dispatch-keyword', DJAC, _DISPATCH, 'subjac.set_col(loc_idx, column[start:end], uncovered_threshold=self._uncovered_threshold)', nth=2),
    Twin('twin-tolviol-renamed-reordered', ARR,
         "    abs_error = np.abs(x - ref)\n    if abs_error.size == 0:\n        return 0.0, (0, 0), False, 0.0, 0.0\n\n    mixed_atol_rtol = atol + rtol * np.abs(ref)\n    diff = abs_error - mixed_atol_rtol  # any values > 0 violate tolerance check\n",
         "    err = np.abs(ref - x)\n    if err.size == 0:\n        return 0.0, (0, 0), False, 0.0, 0.0\n\n    diff = err - (np.abs(ref) * rtol + atol)\n    abs_error = err\n"),
    Twin('twin-labels-long-fwd-rev-relabelled', DISP, 'tol_violation_str("Jrev", "Jfwd")', 'tol_violation_str("Jfwd", "Jrev")',
         also=[(DISP, "rev value @ max viol: {vals_at_max_err[0].fwd_rev[0]", "fwd value @ max viol: {vals_at_max_err[0].fwd_rev[0]"),
               (DISP, "fwd value @ max viol: {vals_at_max_err[0].fwd_rev[1]", "rev value @ max viol: {vals_at_max_err[0].fwd_rev[1]")]),
    Twin('twin-tolviol-index-temporary-entrywise-abs', ARR,
         '    abs_at_max = abs_error.flat[max_error_idx]\n',
         '    i = max_error_idx\n    diff_at_idx = x.flat[i] - ref.flat[i]\n    abs_at_max = np.abs(diff_at_idx)\n'),
    Twin('twin-tolviol-max-of-violation', ARR, '    max_error = diff.flat[max_error_idx]\n', '    max_error = diff.max()\n'),
    # ---- behaviour-preserving refactors that must be decided ok (robustness round: benign/C13_1..3)
    Twin('twin-dispatch-hoisted-call-early-continue', DJAC,
         "            if key in subjacs:\n                subjac = subjacs[key]\n                info = subjac.info\n                if info['diagonal']:\n                    " + _DISPATCH +
         "\n                    if directional:\n                        info['directional'] = True\n                elif info['cols'] is not None:\n                    " + _DISPATCH +
         "\n                    if directional:\n                        info['directional'] = True\n                        continue\n                else:\n                    " + _DISPATCH + "\n",
         "            if key not in subjacs:\n                continue\n\n            subjac = subjacs[key]\n            info = subjac.info\n            has_sparsity = info['diagonal'] or info['cols'] is not None\n\n            " + _DISPATCH +
         "\n\n            if has_sparsity and directional:\n                info['directional'] = True\n"),
    Twin('twin-audit-bookkeeping-extracted-helper', SUBJAC,
         "            raise ValueError(f\"Can't set sparse subjac with value of type {type(val).__name__}.\")\n",
         "            raise ValueError(f\"Can't set sparse subjac with value of type {type(val).__name__}.\")\n\n"
         "    def _record_uncovered_nz(self, icol, column, covered_rows, uncovered_threshold):\n"
         "        arr = column.copy()\n        arr[covered_rows] = 0.  # zero out the rows that are covered by sparsity\n"
         "        nzs = np.where(np.abs(arr) > uncovered_threshold)[0]\n        if nzs.size > 0:\n            info = self.info\n"
         "            if 'uncovered_nz' not in info:\n                info['uncovered_nz'] = []\n                info['uncovered_threshold'] = uncovered_threshold\n"
         "            info['uncovered_nz'].extend(list(zip(nzs, icol * np.ones_like(nzs))))\n",
         also=[(SUBJAC, "            arr = column.copy()\n            arr[row_inds] = 0.  # zero out the rows that are covered by sparsity\n            " + _NZ + "\n            if nzs.size > 0:\n" + _GUARD3,
                "            self._record_uncovered_nz(icol, column, row_inds, uncovered_threshold)"),
               (SUBJAC, "            arr = column.copy()\n            arr[rowinds] = 0.  # zero out the rows that are covered by sparsity\n            " + _NZ + "\n            if nzs.size > 0:\n" + _GUARD3,
                "            self._record_uncovered_nz(icol, column, rowinds, uncovered_threshold)"),
               (SUBJAC, "            arr = column.copy()\n            arr[rowinds] = 0.  # zero out the rows that are covered by sparsity\n            " + _NZ + "\n            if nzs.size > 0:\n" + _GUARD3,
                "            self._record_uncovered_nz(icol, column, rowinds, uncovered_threshold)")]),
    Twin('twin-iter-flag-expression-demorgan-keywords', SYSTEM,
         "        inconsistent = False\n        derivative_info = derivatives[key]\n\n        if totals:\n            fd_opts = all_fd_opts\n        else:\n            _, wrt = key\n            fd_opts = all_fd_opts[wrt]\n\n        if key in incon_keys:\n            inconsistent = True\n",
         "        derivative_info = derivatives[key]\n\n        if not totals:\n            _, wrt = key\n            fd_opts = all_fd_opts[wrt]\n        else:\n            fd_opts = all_fd_opts\n\n        inconsistent = key in incon_keys\n",
         also=[(SYSTEM, 'totals,\n                                          abs_error_tol, rel_error_tol)', 'totals,\n                                          atol=abs_error_tol, rtol=rel_error_tol)'),
               (SYSTEM, 'if key in nondep_derivs and not above_tol:', 'if not above_tol and key in nondep_derivs:'),
               (SYSTEM, 'if show_only_incorrect and not (above_tol or inconsistent):', 'if show_only_incorrect and not above_tol and not inconsistent:')]),
    Twin('twin-select-reordered-guards', PROB, "            if (len(comp._var_allprocs_abs2meta['input']) == 0 and\n                    isinstance(comp, ExplicitComponent)):\n                continue",
         "            if isinstance(comp, ExplicitComponent):\n                if not len(comp._var_allprocs_abs2meta['input']) > 0:\n                    continue"),
    Twin('twin-select-not-implicit', PROB, "            if (len(comp._var_allprocs_abs2meta['input']) == 0 and\n                    isinstance(comp, ExplicitComponent)):",
         "            if not (isinstance(comp, ImplicitComponent) or len(comp._var_allprocs_abs2meta['input'])):"),
    # module-level audit helper taking the metadata dict as an argument (benign/C13_b2_2)
    Twin('twin-audit-module-level-helper', SUBJAC, _AUDIT_BLOCK, _MODHELPER_CALL, nth=0,
         also=[(SUBJAC, _AUDIT_BLOCK, _MODHELPER_CALL + _MODHELPER_DEF)]),
    # third robustness round (benign/C13_b3_1..3)
    Twin('twin-select-metadata-alias-nested-ifs', PROB, _SEL_OLD, _SEL_NEW),
    Twin('twin-schema-handover-loop-over-keys', COMP, _HAND_OLD,
         "                        for name in ('uncovered_nz', 'uncovered_threshold'):\n                            deriv[name] = subjacs_info[name]\n"),
    Twin('twin-audit-csc-bounds-in-locals', SUBJAC, _CSC_OLD, _CSC_NEW),
    Twin('twin-audit-coo-early-returns', SUBJAC, _COO_OLD, _COO_NEW),
    Twin('twin-tolviol-flipped-compare', ARR, 'np.any(diff > 0.)', 'np.any(0 < diff)'),
    Twin('twin-slots-or-assignment', SYSTEM, _TV_REV + '\n                above_tol |= above', _TV_REV + '\n                above_tol = above_tol or above'),
    Twin('twin-slots-temporaries', SYSTEM, _TV_REV, 'tv, vals, above, abs_errs.reverse, rel_errs.reverse = \\\n                    get_tol_violation(Jreverse, Jfd, atol, rtol)\n                errs.reverse = tv\n                err_vals.reverse = vals'),
    Twin('twin-iter-demorgan', SYSTEM, 'if show_only_incorrect and not (above_tol or inconsistent):', 'if show_only_incorrect and not above_tol and not inconsistent:'),
    Twin('twin-iter-keyword-tols', SYSTEM, 'totals,\n                                          abs_error_tol, rel_error_tol)', 'totals,\n                                          rtol=rel_error_tol, atol=abs_error_tol)'),
    Twin('twin-record-copy-and-rename', PROB, "meta['J_fd'].append(Jfd[key])", "this_fd = Jfd[key]\n                    meta['J_fd'].append(this_fd)"),
    Twin('twin-coo-keyword-forward', SUBJAC, 'self._set_coo_col(icol, column, coo.data, coo.row, coo.col, uncovered_threshold)', 'self._set_coo_col(icol, column, coo.data, col=coo.col, row=coo.row, uncovered_threshold=uncovered_threshold)'),
    Twin('twin-schema-reordered-handover', COMP, "                        deriv['uncovered_nz'] = subjacs_info['uncovered_nz']\n                        deriv['uncovered_threshold'] = subjacs_info['uncovered_threshold']\n",
         "                        deriv['uncovered_threshold'] = subjacs_info['uncovered_threshold']\n                        deriv['uncovered_nz'] = subjacs_info['uncovered_nz']\n"),
    Twin('twin-slots-blocks-reordered', SYSTEM,
         "            if Jforward is not None:\n                " + _TV_FWD + "\n                above_tol |= above\n            if Jreverse is not None:\n                " + _TV_REV + "\n                above_tol |= above\n",
         "            if Jreverse is not None:\n                " + _TV_REV + "\n                above_tol |= above\n            if Jforward is not None:\n                " + _TV_FWD + "\n                above_tol |= above\n"),
    Twin('twin-record-renamed-jac', COMP, "                approx_jac = _CheckingJacobian(self)\n                for approximation in approximations.values():\n                    # Perform the FD here.\n                    approximation.compute_approximations(self, jac=approx_jac)\n\n                for abs_key, fd_partial in approx_jac.items():",
         "                cjac = _CheckingJacobian(self)\n                for approximation in approximations.values():\n                    approximation.compute_approximations(self, cjac)\n\n                for abs_key, fd_partial in cjac.items():",
         also=[(COMP, "subjacs_info = approx_jac._subjacs[abs_key].info", "subjacs_info = cjac._subjacs[abs_key].info")]),
    Twin('twin-labels-long-renamed-local', DISP, "        vals_at_max_err = derivative_info['vals_at_max_error']\n        steps = derivative_info['steps']\n\n        Jfwd",
         "        vme = derivative_info['vals_at_max_error']\n        vals_at_max_err = vme\n        steps = derivative_info['steps']\n\n        Jfwd"),
    Twin('twin-labels-compact-reordered-branches', DISP,
         "                    if abs_val.forward is not None:\n                        table_data.append(start +\n                                          [abs_val.forward[0], abs_val.forward[1],\n                                           _print_tv(tol_violation.forward), err_desc])\n                    else:\n                        table_data.append(start +\n                                          [abs_val.reverse[0], abs_val.reverse[1],\n                                           _print_tv(tol_violation.reverse), err_desc])",
         "                    if abs_val.forward is None:\n                        table_data.append(start +\n                                          [abs_val.reverse[0], abs_val.reverse[1],\n                                           _print_tv(tol_violation.reverse), err_desc])\n                    else:\n                        table_data.append(start +\n                                          [abs_val.forward[0], abs_val.forward[1],\n                                           _print_tv(tol_violation.forward), err_desc])"),
)
