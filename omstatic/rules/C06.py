"""C06 -- unit conversion is a consistent affine algebra (openmdao/utils/units.py + unit_library.ini).

The unit module is a small, pure program: arithmetic on (factor, offset, powers, names), string building
and table look-ups.  Its clauses are decided *semantically*: the AST of units.py is evaluated by the bounded
abstract interpreter in ``omstatic/lib_c06.py`` over an exact domain (Python floats are modelled as exact
rationals tagged "float", so the conversion laws become rational-function identities checked at fixed
sample points -- no rounding, no tolerance), on a small synthetic unit library (4 base units, linear,
affine and prefixed units) and on the shipped ``unit_library.ini`` read as data.  Nothing of /repo is
imported or executed by CPython.  Constructs outside the interpreted fragment give *cannot decide*.
"""
import ast
import configparser
import hashlib
import re
from fractions import Fraction as Fr

from .. import astx, boolx
from ..core import AnalysisError
from ..engine import rule, describe, selftest, Mutant, Twin
from ..lib_c06 import Interp, NS, Fl, Obj, PyRaise, Unsupported, native, model_eval, frac

UNITS = 'openmdao/utils/units.py'
INI = 'openmdao/utils/unit_library.ini'
PI = Fr(355, 113)      # the interpreter's stand-in for math.pi (any fixed rational serves)

describe('C06',
         'Evaluates the AST of openmdao/utils/units.py with an exact abstract interpreter (ints, floats as '
         'exact rationals, strings, dicts; never CPython exec/import of repo code) and decides on a synthetic '
         'library and on the shipped unit_library.ini (read as data): (pred) conversion_tuple_to raises '
         'TypeError exactly when is_compatible is false and the predicate is equality of the power vectors; '
         '(affine) the (factor, offset) tuple applied as (x+offset)*factor satisfies anchor, identity, round '
         'trip and transitivity as exact rational identities; (route) module-level is_compatible / '
         'unit_conversion / convert_units agree with each other, with the direction of their arguments and '
         'with the power-vector predicate on all sample pairs; (homo) products, quotients, scalar multiples, '
         'integer and inverse-integer powers yield the factor and powers implied by their parts; (prefix) '
         'prefixed names expand to prefix*unit with unit names taking precedence; (simplify, fracpow, offset) '
         'simplify_unit(e) re-parses to a unit with the same factor, powers and offset for every accepted probe '
         'expression, including fractional exponents and expressions that mention offset units; (define, '
         'library) add_unit / add_offset_unit / import_library give every one of the units of the shipped '
         'library the factor, powers and offset that an independent evaluation of its definition gives, '
         'simplify_unit is faithful on each of them and the SI/IEC prefixes have their defined values; '
         '(proto, thorough) every consumer of unit_conversion unpacks (factor, offset) in that order and applies '
         'the offset only as (x+offset)*factor.  Does not decide floating-point round-off, the numerical '
         'content of the library, or expressions outside the probe sets.',
         ['probe expressions and sample units are finite; algebraic identities are decided by exact '
          'evaluation at fixed rational sample points (polynomial identity testing)',
          'math.pi is replaced by a fixed rational on both sides of every comparison',
          'regular expressions and configparser are the CPython stdlib ones (not repository code)'])


# ================================================================================ specification side
class SpecReject(Exception):
    """The specification does not give this expression a meaning (the library may refuse it)."""


class SUnit:
    __slots__ = ('f', 'p', 'd')

    def __init__(self, f, p, d=0):
        self.f, self.p, self.d = Fr(f), tuple(Fr(x) for x in p), Fr(d)

    def key(self):
        return (self.f, self.p, self.d)


def _exact_root(x, q):
    from ..lib_c06 import _iroot
    if x < 0:
        raise SpecReject('negative factor under a root')
    a, b = _iroot(x.numerator, q), _iroot(x.denominator, q)
    if a is None or b is None:
        raise SpecReject('irrational root (sample not a perfect power)')
    return Fr(a, b)


def spec_eval(text, table, prefixes=None, ndim=None):
    """Meaning of a unit expression: SUnit or a plain Fraction (scalar)."""
    try:
        tree = ast.parse(re.sub(r'\bas\b', 'as_', text.strip()), mode='eval').body   # 'as' is a keyword
    except SyntaxError:
        raise SpecReject('not an expression')

    def name(n):
        if n in table:
            return table[n]
        if n == 'pi':
            return PI
        if prefixes:
            for k in (1, 2):
                pre, base = n[:k], n[k:]
                if k == 1:
                    base = base.rstrip('_')
                if pre in prefixes and base in table:
                    u = table[base]
                    if u.d != 0:
                        raise SpecReject('prefix on an offset unit')
                    return SUnit(u.f * prefixes[pre], u.p)
        raise SpecReject(f'unknown name {n}')

    def num(e):
        """Value and float-ness of a numeric sub-expression."""
        if isinstance(e, ast.Constant) and isinstance(e.value, (int, float)) and not isinstance(e.value, bool):
            return Fr(e.value), isinstance(e.value, float)
        if isinstance(e, ast.UnaryOp) and isinstance(e.op, ast.USub):
            v, f = num(e.operand)
            return -v, f
        if isinstance(e, ast.BinOp):
            (a, fa), (b, fb) = num(e.left), num(e.right)
            if isinstance(e.op, ast.Div):
                return a / b, True
            if isinstance(e.op, ast.Mult):
                return a * b, fa or fb
        raise SpecReject('exponent form')

    def ev(e):
        if isinstance(e, ast.Name):
            return name(e.id)
        if isinstance(e, ast.Constant) and isinstance(e.value, (int, float)) and not isinstance(e.value, bool):
            return Fr(e.value)
        if isinstance(e, ast.UnaryOp) and isinstance(e.op, ast.USub):
            v = ev(e.operand)
            if isinstance(v, SUnit):
                raise SpecReject('negated unit')
            return -v
        if isinstance(e, ast.BinOp) and isinstance(e.op, (ast.Mult, ast.Div)):
            a, b = ev(e.left), ev(e.right)
            mul = isinstance(e.op, ast.Mult)
            for u in (a, b):
                if isinstance(u, SUnit) and u.d != 0:
                    raise SpecReject('offset unit in a product/quotient')
            if isinstance(a, SUnit) and isinstance(b, SUnit):
                return SUnit(a.f * b.f if mul else a.f / b.f,
                             [x + y if mul else x - y for x, y in zip(a.p, b.p)])
            if isinstance(a, SUnit):
                return SUnit(a.f * b if mul else a.f / b, a.p)
            if isinstance(b, SUnit):
                return SUnit(a * b.f, b.p) if mul else SUnit(a / b.f, [-x for x in b.p])
            return a * b if mul else a / b
        if isinstance(e, ast.BinOp) and isinstance(e.op, ast.Pow):
            a = ev(e.left)
            n, isfloat = num(e.right)
            if not isinstance(a, SUnit):
                if n.denominator != 1:
                    raise SpecReject('fractional power of a number')
                return a ** int(n)
            if a.d != 0:
                raise SpecReject('power of an offset unit')
            if not isfloat:
                return SUnit(a.f ** int(n), [x * n for x in a.p])
            if n == 0 or (1 / n).denominator != 1:
                raise SpecReject('float exponent that is not an inverse integer')
            q = int(1 / n)
            if any((x / q).denominator != 1 for x in a.p):
                raise SpecReject('powers not divisible')
            root = _exact_root(a.f, abs(q))
            return SUnit(root if q > 0 else 1 / root, [x / q for x in a.p])
        raise SpecReject(f'expression form {type(e).__name__}')
    return ev(tree)


# ================================================================================ laboratory
PREFIXES = {'k': Fr(1000), 'm': Fr(1, 1000), 'c': Fr(1, 100), 'd': Fr(1, 10), 'da': Fr(10), 'M': Fr(10 ** 6),
            'a': Fr(1, 10 ** 18)}
BASES = ['m', 'kg', 's', 'K']
# name -> (factor, powers, offset); dyadic numbers so that str() of a float is exact
DERIVED = {'ft': (Fr(1, 4), (1, 0, 0, 0), 0), 'lb': (Fr(1, 2), (0, 1, 0, 0), 0), 'hr': (Fr(64), (0, 0, 1, 0), 0),
           'N': (Fr(1), (1, 1, -2, 0), 0), 'sq': (Fr(4), (2, 0, 0, 0), 0), 'x': (Fr(3), (1, 0, 0, 0), 0),
           'kx': (Fr(7), (1, 0, 0, 0), 0), 'degR': (Fr(1, 2), (0, 0, 0, 1), 0),
           'degC': (Fr(1), (0, 0, 0, 1), Fr(1093, 4)), 'degF': (Fr(1, 2), (0, 0, 0, 1), Fr(1839, 4)),
           # "generic" affine units for the identity tests
           'uP': (Fr(7, 3), (0, 0, 0, 1), Fr(11, 5)), 'uQ': (Fr(13, 17), (0, 0, 0, 1), Fr(-19, 23)),
           'uR': (Fr(29, 31), (0, 0, 0, 1), Fr(37, 41))}


class Lab:
    """A synthetic unit library living inside the interpreted units module."""

    def __init__(self, repo, units=True):
        self.repo = repo
        self.mod = repo.module(UNITS)
        self.lib = NS(unit_table={}, prefixes={k: Fl(v) for k, v in PREFIXES.items()},
                      base_names=list(BASES), base_types={n: i for i, n in enumerate(BASES)}, help=[])
        self.lib.set = native(lambda interp, *a: None)
        self.it = Interp(self.mod, {
            '_UNIT_LIB': self.lib, '_UNIT_CACHE': {}, 'eval': model_eval, 're': re,
            'get_close_matches': native(lambda interp, *a, **k: [])})
        self.spec = {}
        if units:
            for i, n in enumerate(BASES):
                p = [0] * len(BASES)
                p[i] = 1
                self.add(n, 1, p, 0)
            for n, (f, p, d) in DERIVED.items():
                self.add(n, f, list(p), d)

    def add(self, name, f, p, d):
        f = f if isinstance(f, int) else Fl(f)
        args = [name, f, list(p)] + ([Fl(d)] if d else [])
        self.lib.unit_table[name] = self.it.new('PhysicalUnit', *args)
        self.spec[name] = SUnit(frac(f), p, d)

    # interpreted entry points
    def find(self, e, error=False):
        return self.it.call_func('_find_unit', e, error)

    def call(self, fname, *args):
        return self.it.call_func(fname, *args)

    def fn(self, qualname):
        return self.repo.func(UNITS, qualname)


def utuple(u):
    """(factor, powers, offset) of an interpreted PhysicalUnit as exact rationals."""
    if not isinstance(u, Obj) or not all(k in u.attrs for k in ('_factor', '_powers', '_offset')):
        raise Unsupported(None, 'not a PhysicalUnit object')
    try:
        return (frac(u.attrs['_factor']), tuple(frac(x) for x in u.attrs['_powers']), frac(u.attrs['_offset']))
    except TypeError:
        raise Unsupported(None, 'non-numeric unit attribute')


def fmt(t):
    if t is None:
        return 'None'
    f, p, d = t
    return f'(factor={f}, powers={[str(x) for x in p]}, offset={d})'


def attempt(thunk):
    """Run an interpreted computation: ('ok', value) | ('raise', exception name) ; Unsupported propagates."""
    try:
        return 'ok', thunk()
    except PyRaise as ex:
        return 'raise', ex.name


class Undecided(Exception):
    pass


def guarded(out, fn, node=None):
    """Decorator-less helper: turn Unsupported into an `unsure` item."""
    class _G:
        def __enter__(self):
            return self

        def __exit__(self, et, ev, tb):
            if et is not None and issubclass(et, Unsupported):
                n = ev.node if isinstance(getattr(ev, 'node', None), ast.AST) else node
                out.unsure(fn, n if n is not None else fn.node,
                           f'outside the interpreted fragment: {ev.why}')
                return True
            return False
    return _G()


# ================================================================================ C06.pred
def _powers_atom(e):
    """'EQ' / ('not','EQ') for comparisons of self._powers with other._powers; None otherwise."""
    if isinstance(e, ast.Compare) and len(e.ops) == 1 and isinstance(e.ops[0], (ast.Eq, ast.NotEq)):
        a, b = astx.path(e.left), astx.path(e.comparators[0])
        if {a, b} == {'self._powers', 'other._powers'}:
            return 'EQ' if isinstance(e.ops[0], ast.Eq) else ('not', 'EQ')
        return None
    if isinstance(e, ast.Call) and astx.callee_attr(e) == 'is_compatible' and len(e.args) == 1 and not e.keywords:
        a, b = astx.path(astx.receiver(e)), astx.path(e.args[0])
        if {a, b} == {'self', 'other'}:
            return 'EQ'
    return None


def _path_condition(st, fnnode, atom_of):
    """Conjunction of the if-tests that lead to statement st (None if under another kind of construct)."""
    conds = []
    child = st
    for anc in astx.ancestors(st):
        if anc is fnnode:
            break
        if isinstance(anc, ast.If):
            f = boolx.from_ast(anc.test, atom_of)
            if any(child is s for s in anc.orelse) or astx.in_body(child, anc, 'orelse'):
                f = boolx.Not(f)
            conds.append(f)
        elif not isinstance(anc, (ast.expr,)):
            return None
        child = anc
    return boolx.And(*conds) if conds else boolx.TRUE


PRED_SAMPLES = [('a', 2, (1, 0, 0, 0), 0), ('b', 3, (1, 0, 0, 0), 5), ('c', 2, (1, 0, 0, 1), 0),
                ('d', 2, (0, 0, 0, 1), 0), ('e', 5, (1, 0, -1, 0), 0), ('f', 2, (2, 0, 0, 0), 0),
                ('g', 2, (0, 1, 0, 0), 0), ('h', 7, (0, 0, 0, 1), 9), ('i', 2, (-1, 0, 0, 0), 0)]


@rule('C06.pred', floor=2)
def pred(repo, out):
    """conversion_tuple_to raises iff the power vectors differ; PhysicalUnit.is_compatible is that equality."""
    lab = Lab(repo, units=False)
    conv = lab.fn('PhysicalUnit.conversion_tuple_to')
    comp = lab.fn('PhysicalUnit.is_compatible')
    unknown = []

    def atom_of(e):
        k = _powers_atom(e)
        if k is None:
            unknown.append(e)
            return 'U:' + astx.dump(e)
        return k
    # ---- structure: formula under which a raise is reached / value returned by is_compatible
    raises = [s for s in astx.walk_stmts(conv.node.body) if isinstance(s, ast.Raise)]
    form_r = None
    try:
        parts = [_path_condition(s, conv.node, atom_of) for s in raises]
        if all(p is not None for p in parts):
            form_r = boolx.Or(*parts) if parts else boolx.FALSE
    except AnalysisError:
        form_r = None
    rets = [s for s in astx.walk_stmts(comp.node.body) if isinstance(s, ast.Return)]
    form_c = None
    if len(rets) == 1 and rets[0].value is not None and rets[0] in comp.node.body:
        try:
            form_c = boolx.from_ast(rets[0].value, atom_of)
        except AnalysisError:
            form_c = None
    structural = form_r is not None and form_c is not None and not unknown
    # ---- samples (exact evaluation), float-valued powers included
    units = {}
    with guarded(out, conv):
        for n, f, p, d in PRED_SAMPLES:
            units[n] = lab.it.new('PhysicalUnit', n, f, list(p), d)
        units['j'] = lab.it.new('PhysicalUnit', 'j', 2, [Fl(1), Fl(0), Fl(0), Fl(0)], 0)   # == a's powers
        bad_conv = bad_comp = None
        npairs = 0
        for na, ua in units.items():
            for nb, ub in units.items():
                npairs += 1
                same = utuple(ua)[1] == utuple(ub)[1]
                kind, val = attempt(lambda: lab.it.call_method(ua, 'conversion_tuple_to', ub))
                if same and kind == 'raise':
                    bad_conv = bad_conv or f'raises {val} for units with equal power vectors ({na}, {nb})'
                elif not same and kind == 'ok':
                    bad_conv = bad_conv or (f'returns a conversion tuple for units whose power vectors differ '
                                            f'({utuple(ua)[1]} vs {utuple(ub)[1]})')
                kind, val = attempt(lambda: lab.it.call_method(ua, 'is_compatible', ub))
                if kind == 'raise':
                    bad_comp = bad_comp or f'is_compatible raises {val}'
                elif bool(lab.it.truth(val, None)) != same:
                    bad_comp = bad_comp or (f'is_compatible({fmt(utuple(ua))}, {fmt(utuple(ub))}) is '
                                            f'{val} but power vectors are {"equal" if same else "different"}')
        out.count('sample_pairs', npairs)
        # structural truth tables make the sample verdict exhaustive over the abstract domain {EQ}
        if structural:
            okr, _, cx = boolx.equivalent(form_r, boolx.Not(boolx.A('EQ')))
            if not okr and bad_conv is None:
                bad_conv = f'raise condition {form_r!r} is not equivalent to "power vectors differ"'
            okc, _, cx = boolx.equivalent(form_c, boolx.A('EQ'))
            if not okc and bad_comp is None:
                bad_comp = f'predicate {form_c!r} is not "power vectors equal"'
        node_r = raises[0] if raises else conv.node
        if bad_conv:
            out.bad(conv, node_r, bad_conv, key='raise-iff-incompatible')
        elif structural:
            out.ok(conv, node_r, f'raise condition == not(self._powers == other._powers); {npairs} sample pairs agree')
        else:
            out.unsure(conv, unknown[0] if unknown else conv.node,
                       'the raise condition involves atoms other than the power-vector comparison; samples agree '
                       'but the guard is not decided exhaustively')
        if bad_comp:
            out.bad(comp, rets[0] if rets else comp.node, bad_comp, key='compatibility-predicate')
        elif structural:
            out.ok(comp, rets[0], 'returns self._powers == other._powers (an equivalence relation)')
        else:
            out.unsure(comp, comp.node, 'compatibility predicate not in the recognised form')


# ================================================================================ C06.affine
AFF_X = [Fr(5, 7), Fr(-43, 3), Fr(0)]


@rule('C06.affine', floor=5)
def affine(repo, out):
    """(factor, offset) applied as (x+offset)*factor obeys anchor, identity, round-trip, transitivity (exact)."""
    lab = Lab(repo)
    conv = lab.fn('PhysicalUnit.conversion_tuple_to')
    cu = lab.fn('convert_units')
    uc = lab.fn('unit_conversion')
    S = lab.spec

    lab.it.MAX_STEPS = 4000000
    memo = {}

    def c(x, a, b):
        k = (x, a, b)
        if k not in memo:
            memo[k] = frac(lab.call('convert_units', Fl(x), a, b))
        return memo[k]
    names = ['uP', 'uQ', 'uR', 'degF', 'K']
    with guarded(out, cu):
        fails = {}
        n = 0
        for x in AFF_X:
            for a in names:
                n += 1
                # anchor: to the base unit the value is (x + d) * s
                want = (x + S[a].d) * S[a].f
                if c(x, a, 'K') != want:
                    fails.setdefault('anchor', f'convert_units({x}, {a!r}, "K") = {c(x, a, "K")}, definition of '
                                     f'{a} (factor {S[a].f}, offset {S[a].d}) gives {want}')
                if c(x, a, a) != x:
                    fails.setdefault('identity', f'convert_units({x}, {a!r}, {a!r}) = {c(x, a, a)}')
                for b in names:
                    if c(c(x, a, b), b, a) != x:
                        fails.setdefault('round-trip', f'{x} {a} -> {b} -> {a} = {c(c(x, a, b), b, a)}')
                    for d in names[:3]:
                        if c(c(x, a, b), b, d) != c(x, a, d):
                            fails.setdefault('transitivity', f'{x} {a} -> {b} -> {d} = {c(c(x, a, b), b, d)} but '
                                             f'{a} -> {d} = {c(x, a, d)}')
                    # the published tuple reproduces convert_units when applied as (x + offset) * factor
                    t = lab.call('unit_conversion', a, b)
                    if not (isinstance(t, tuple) and len(t) == 2):
                        fails.setdefault('tuple', f'unit_conversion returns {type(t).__name__}, not a 2-tuple')
                    elif (x + frac(t[1])) * frac(t[0]) != c(x, a, b):
                        fails.setdefault('tuple', f'unit_conversion({a!r}, {b!r}) = ({frac(t[0])}, {frac(t[1])}); '
                                         f'(x+offset)*factor at x={x} gives {(x + frac(t[1])) * frac(t[0])} but '
                                         f'convert_units gives {c(x, a, b)}')
        # the evaluation must not have branched on the numbers (otherwise samples are not a proof)
        dep = [nd for nd, _ in lab.it.trace
               if any(nd is s or astx.in_body(nd, s, 'body') for s in (conv.node, cu.node))
               and astx.mentions(nd.test, '_factor', '_offset', 'factor', 'offset', 'val')]
        out.count('evaluations', n * len(names) * 5)
        where = {'anchor': conv, 'identity': conv, 'round-trip': conv, 'transitivity': conv, 'tuple': cu}
        if dep:
            out.unsure(conv, dep[0], 'conversion branches on factor/offset values; identities not decided by samples')
            return
        for law in ('anchor', 'identity', 'round-trip', 'transitivity', 'tuple'):
            fn = where[law]
            node = [s for s in astx.walk_stmts(fn.node.body) if isinstance(s, ast.Return)][-1]
            if law in fails:
                out.bad(fn, node, f'{law} law broken: {fails[law]}', key=f'law-{law}')
            else:
                out.ok(fn, node, f'{law} law holds exactly on {len(AFF_X)} values x {len(names)} affine units')


# ================================================================================ C06.route
ROUTE_UNITS = ['m', 'ft', 'km', 's', 'hr', 'K', 'degC', 'degF', 'degR', 'N', 'm*kg/s**2', 'ft/s', 'm/hr',
               '(sq)**0.5', 'lb', '1/s', 'kg*m/s/s']


@rule('C06.route', floor=4)
def route(repo, out):
    """is_compatible, unit_conversion and convert_units agree: predicate == conversion succeeds == equal powers."""
    lab = Lab(repo)
    f_ic, f_uc, f_cu = lab.fn('is_compatible'), lab.fn('unit_conversion'), lab.fn('convert_units')
    with guarded(out, f_ic):
        spec = {e: spec_eval(e, lab.spec, PREFIXES) for e in ROUTE_UNITS}
        bad_ic = bad_uc = None
        n = 0
        for a in ROUTE_UNITS:
            for b in ROUTE_UNITS:
                n += 1
                same = spec[a].p == spec[b].p
                k1, v1 = attempt(lambda: lab.call('is_compatible', a, b))
                k2, v2 = attempt(lambda: lab.call('unit_conversion', a, b))
                if k1 == 'raise':
                    bad_ic = bad_ic or f'is_compatible({a!r}, {b!r}) raises {v1}'
                elif bool(lab.it.truth(v1, None)) != same:
                    bad_ic = bad_ic or (f'is_compatible({a!r}, {b!r}) = {v1} but the dimensions are '
                                        f'{"equal" if same else "different"}')
                elif (k2 == 'ok') != bool(lab.it.truth(v1, None)):
                    bad_ic = bad_ic or (f'is_compatible({a!r}, {b!r}) = {v1} but unit_conversion '
                                        f'{"succeeds" if k2 == "ok" else "raises " + str(v2)}')
                if k2 == 'ok' and same and bad_uc is None:
                    fac, off = frac(v2[0]), frac(v2[1])
                    wf = spec[a].f / spec[b].f
                    wo = spec[a].d - spec[b].d * spec[b].f / spec[a].f
                    if (fac, off) != (wf, wo):
                        bad_uc = (f'unit_conversion({a!r}, {b!r}) = ({fac}, {off}); converting from the first '
                                  f'argument to the second needs ({wf}, {wo})')
        out.count('pairs', n)
        r = [s for s in astx.walk_stmts(f_ic.node.body) if isinstance(s, ast.Return)][-1]
        if bad_ic:
            out.bad(f_ic, r, bad_ic, key='predicate-decides-conversion')
        else:
            out.ok(f_ic, r, f'is_compatible == conversion succeeds == equal power vectors on {n} ordered pairs')
        r = [s for s in astx.walk_stmts(f_uc.node.body) if isinstance(s, ast.Return)][-1]
        if bad_uc:
            out.bad(f_uc, r, bad_uc, key='conversion-direction')
        else:
            out.ok(f_uc, r, 'tuple converts from the first argument to the second on all compatible pairs')
    with guarded(out, f_cu):
        badc = None
        for x in AFF_X:
            for a, b in (('km', 'ft'), ('degC', 'degF'), ('hr', 's'), ('ft/s', 'm/hr'), ('degF', 'K')):
                sa, sb = spec_eval(a, lab.spec, PREFIXES), spec_eval(b, lab.spec, PREFIXES)
                want = (x + sa.d) * sa.f / sb.f - sb.d
                got = frac(lab.call('convert_units', Fl(x), a, b))
                if got != want and badc is None:
                    badc = f'convert_units({x}, {a!r}, {b!r}) = {got}; the unit definitions give {want}'
        r = [s for s in astx.walk_stmts(f_cu.node.body) if isinstance(s, ast.Return)][-1]
        if badc:
            out.bad(f_cu, r, badc, key='convert-value')
        else:
            out.ok(f_cu, r, 'value converted from old_units to new_units as the definitions imply (5 pairs x 4 values)')
        # a side without units leaves the value alone (documented contract of convert_units)
        k, v = attempt(lambda: (lab.call('convert_units', Fl(3), None, 'm'), lab.call('convert_units', Fl(3), 'm', None)))
        if k == 'ok' and all(isinstance(t, (int, Fl)) and frac(t) == 3 for t in v):
            out.ok(f_cu, f_cu.node, 'a missing unit on either side returns the value unchanged')
        else:
            out.bad(f_cu, f_cu.node, f'convert_units with a None unit gives {v}; the value must pass unchanged',
                    key='convert-none')
        k, v = attempt(lambda: lab.call('is_compatible', None, None))
        if not (k == 'ok' and v is True):
            out.bad(f_ic, f_ic.node, f'is_compatible(None, None) gives {v}', key='compatible-none')


# ================================================================================ C06.homo
HOMO = [('ft*lb', '__mul__'), ('lb*ft*hr', '__mul__'), ('ft*2', '__mul__'), ('2*ft', '__mul__'),
        ('0.5*hr', '__mul__'), ('ft/hr', '__div__'), ('N/sq', '__div__'), ('ft/2', '__div__'), ('hr/0.25', '__div__'),
        ('2/ft', '__rdiv__'), ('1/hr', '__rdiv__'), ('0.5/N', '__rdiv__'),
        ('ft**2', '__pow__'), ('hr**3', '__pow__'), ('ft**-2', '__pow__'), ('N**-1', '__pow__'),
        ('sq**0.5', '__pow__'), ('(ft**2*hr**4)**0.5', '__pow__'), ('(ft**3)**(1/3)', '__pow__'),
        ('(hr**2)**-0.5', '__pow__'), ('(N**2)**0.5', '__pow__'),
        ('ft*lb/hr**2', '__div__'), ('ft/hr/hr', '__div__'), ('ft/(hr*hr)', '__div__')]
HOMO_REJECT = [('ft**0.5', '__pow__'), ('ft**1.5', '__pow__'), ('sq**(1/3)', '__pow__')]


@rule('C06.homo', floor=24)
def homo(repo, out):
    """Products, quotients, scalar multiples and (inverse-)integer powers get the factor/powers implied by their parts."""
    lab = Lab(repo)
    for e, op in HOMO:
        fn = lab.fn('PhysicalUnit.' + op)
        with guarded(out, fn):
            want = spec_eval(e, lab.spec, PREFIXES)
            k, v = attempt(lambda: lab.find(e, True))
            if k == 'raise' or v is None:
                out.bad(fn, fn.node, f'the expression {e!r} is refused ({v}); expected {fmt(want.key())}',
                        key=f'expr:{e}')
                continue
            got = utuple(v)
            if got != want.key():
                diff = [nm for nm, g, w in zip(('factor', 'powers', 'offset'), got, want.key()) if g != w]
                out.bad(fn, fn.node, f'{e!r} evaluates to {fmt(got)}; its parts imply {fmt(want.key())} '
                        f'({", ".join(diff)} wrong)', key=f'expr:{e}')
            else:
                out.ok(fn, fn.node, f'{e!r} -> {fmt(got)}')
    for e, op in HOMO_REJECT:
        fn = lab.fn('PhysicalUnit.' + op)
        with guarded(out, fn):
            k, v = attempt(lambda: lab.find(e, True))
            if k == 'ok' and v is not None:
                out.bad(fn, fn.node, f'{e!r} has no unit with integer powers but is accepted as {fmt(utuple(v))}',
                        key=f'expr:{e}')
            else:
                out.count('refused', 1)


# ================================================================================ C06.prefix
PREFIX = ['km', 'mm', 'dm', 'dam', 'dalb', 'cm', 'Mhr', 'as', 'das', 'kft*lb', 'km/as', 'kN*mm', 'kx', 'x',
          'mK', 'ms', 'mm**2', 'daN/cm**2']


@rule('C06.prefix', floor=18)
def prefix(repo, out):
    """Prefixed names expand to prefix*unit (1- then 2-letter prefixes; unit names win); unknown names are refused."""
    fn = Lab(repo).fn('_find_unit')
    for e in PREFIX:
        lab = Lab(repo)      # fresh cache/table: every probe takes the expansion path itself
        with guarded(out, fn):
            want = spec_eval(e, lab.spec, PREFIXES)
            k, v = attempt(lambda: lab.find(e, True))
            if k == 'raise' or v is None:
                out.bad(fn, fn.node, f'{e!r} is refused ({v}); expected {fmt(want.key())}', key=f'expr:{e}')
            elif utuple(v) != want.key():
                out.bad(fn, fn.node, f'{e!r} resolves to {fmt(utuple(v))}; prefix and unit imply {fmt(want.key())}',
                        key=f'expr:{e}')
            else:
                out.ok(fn, fn.node, f'{e!r} -> {fmt(utuple(v))}')
    lab = Lab(repo)
    with guarded(out, fn):
        k1, v1 = attempt(lambda: lab.find('xq'))
        k2, v2 = attempt(lambda: lab.find('xq', True))
        k3, v3 = attempt(lambda: lab.find('qm*km', True))
        if not (k1 == 'ok' and v1 is None) or not (k2 == 'raise' and v2 == 'ValueError') or k3 != 'raise':
            out.bad(fn, fn.node, f'unknown unit name: _find_unit("xq") -> {v1}, with error=True -> {k2} {v2}; '
                    f'"qm*km" -> {k3} (None and ValueError expected)', key='unknown-name')
        else:
            out.count('unknown_refused', 3)


# ================================================================================ simplify family
def _simplify_check(lab, e):
    """Returns (status, detail): 'refused' | 'same' | 'unity' | ('diff', kind)."""
    k, u = attempt(lambda: lab.find(e, True))
    if k == 'raise' or u is None:
        return 'refused', str(u)
    t = utuple(u)
    k, s = attempt(lambda: lab.call('simplify_unit', e))
    if k == 'raise':
        return 'diff:raises', f'simplify_unit({e!r}) raises {s} although the expression is accepted'
    if s is None:
        if t == (Fr(1), tuple(Fr(0) for _ in t[1]), Fr(0)):
            return 'unity', 'None'
        return 'diff:none', f'simplify_unit({e!r}) is None but the unit is {fmt(t)}'
    if not isinstance(s, str):
        return 'diff:type', f'simplify_unit({e!r}) returns {type(s).__name__}'
    k, u2 = attempt(lambda: lab.find(s, True))
    if k == 'raise' or u2 is None:
        return 'diff:rejected', (f'simplify_unit({e!r}) = {s!r}, which the library itself refuses ({u2}); '
                                 f'the accepted input denotes {fmt(t)}')
    t2 = utuple(u2)
    if t2 != t:
        kind = [nm for nm, g, w in zip(('factor', 'powers', 'offset'), t2, t) if g != w][0]
        return f'diff:{kind}', (f'simplify_unit({e!r}) = {s!r} denotes {fmt(t2)} but the input denotes {fmt(t)}')
    return 'same', s


SIMPLIFY = ['ft*s/s', 'ft*lb/hr**2', 'm**3/s**3', 'm**-2*s', '1/s', '1/s**2', 'kg/m/s', '2*ft*2', 'ft/2', '2/ft',
            'km/as', 'as', 'N*m/N', 'kft*lb/kft', 'degC', 'degF', 'hr**-3', 'ft**2/ft', 'lb*ft**3/hr**2/K',
            '0.5*m', 'm/m', 'ft*hr/(hr*ft)', 'K']


@rule('C06.simplify', floor=23)
def simplify(repo, out):
    """simplify_unit(e) names a unit with the same factor, powers and offset as e (integer expressions)."""
    lab = Lab(repo)
    fn = lab.fn('simplify_unit')
    for e in SIMPLIFY:
        with guarded(out, fn):
            st, detail = _simplify_check(lab, e)
            if st == 'refused':
                out.bad(fn, fn.node, f'{e!r} is refused by the library ({detail})', key=f'expr:{e}')
            elif st.startswith('diff'):
                out.bad(fn, fn.node, detail, key=f'expr:{e}')
            else:
                out.ok(fn, fn.node, f'{e!r} -> {detail!r}')
    with guarded(out, fn):
        k1, v1 = attempt(lambda: lab.call('simplify_unit', None))
        k2, v2 = attempt(lambda: lab.call('simplify_unit', 'xq'))
        if not (k1 == 'ok' and v1 is None and k2 == 'raise' and v2 == 'ValueError'):
            out.bad(fn, fn.node, f'simplify_unit(None) -> {k1} {v1}; simplify_unit("xq") -> {k2} {v2} '
                    '(None and ValueError expected)', key='none-invalid')


FRACPOW = ['(m**2)**0.5', 'sq**0.5', '(ft*m)**0.5', '(hr**2)**-0.5', '(m**4)**0.5', '(m**2/s**4)**0.5',
           '(ft**6)**(1/3)', '(sq*hr**4)**0.5', '(m**4)**-0.5']


@rule('C06.fracpow', floor=4)
def fracpow(repo, out):
    """simplify_unit stays faithful for accepted expressions with inverse-integer (float) exponents."""
    lab = Lab(repo)
    fn = lab.fn('PhysicalUnit.__pow__')
    worst = {}
    for e in FRACPOW:
        with guarded(out, fn):
            st, detail = _simplify_check(lab, e)
            if st == 'refused':
                worst.setdefault('refused', (e, f'{e!r} is refused although every power is divisible'))
            elif st.startswith('diff'):
                worst.setdefault(st.split(':')[1], (e, detail))
            else:
                out.ok(fn, fn.node, f'{e!r} -> {detail!r}')
    for kind, (e, detail) in sorted(worst.items()):
        out.bad(fn, fn.node, detail + ('  [float exponents produced by the fractional-power branch reach '
                                       'PhysicalUnit.name(), which renders them as **2.0]' if kind == 'rejected' else ''),
                key=f'fractional-exponent:{kind}')


OFFSET = [('degC*m/m', '__mul__'), ('m*degC/m', '__mul__'), ('degC/m*m', '__div__'), ('m/(m/degC)', '__div__'),
          ('(degC**-1)**-1', '__pow__'), ('(degC**2)**0.5', '__pow__'), ('1/(1/degC)', '__rdiv__'),
          ('degF*hr/hr', '__mul__')]


SCALED_OFFSET = [('2*degC', 'degC', Fr(2), '__mul__'), ('degF*2', 'degF', Fr(2), '__mul__'),
                 ('0.5*degF', 'degF', Fr(1, 2), '__mul__'), ('kdegC', 'degC', Fr(1000), '__mul__'),
                 ('mdegF', 'degF', Fr(1, 1000), '__mul__'), ('dadegC', 'degC', Fr(10), '__mul__'),
                 ('degC/2', 'degC', Fr(1, 2), '__div__'), ('degF/0.25', 'degF', Fr(4), '__div__')]


@rule('C06.offset', floor=15)
def offset(repo, out):
    """An expression mentioning an offset unit is refused, or keeps offset under simplify_unit and x[p*U] == p*x[U]."""
    lab = Lab(repo)
    for e, op in OFFSET:
        fn = lab.fn('PhysicalUnit.' + op)
        with guarded(out, fn):
            st, detail = _simplify_check(lab, e)
            if st == 'refused':
                out.ok(fn, fn.node, f'{e!r} is refused')
            elif st.startswith('diff'):
                out.bad(fn, fn.node, detail + f'  [PhysicalUnit.{op} lets an offset unit into a composite: the '
                        'offset is dropped from the value but the name still mentions the offset unit]',
                        key=f'offset-operand:{e}')
            else:
                out.ok(fn, fn.node, f'{e!r} accepted and simplify_unit is faithful ({detail!r})')
    # number * offset unit, prefixed offset unit, offset unit / number: refused, or x [p*U] == p*x [U]
    for e, base, p, op in SCALED_OFFSET:
        lab = Lab(repo)
        fn = lab.fn('PhysicalUnit.' + op)
        with guarded(out, fn):
            st, detail = _simplify_check(lab, e)
            if st == 'refused':
                out.ok(fn, fn.node, f'{e!r} is refused')
                continue
            why = detail if st.startswith('diff') else None
            for x in AFF_X:
                if why:
                    break
                k, v = attempt(lambda: lab.call('convert_units', Fl(x), e, base))
                if k == 'raise':
                    why = f'{e!r} is accepted but convert_units({x}, {e!r}, {base!r}) raises {v}'
                elif frac(v) != p * x:
                    why = (f'{e!r} is accepted but convert_units({x}, {e!r}, {base!r}) = {frac(v)}; {x} [{e}] is '
                           f'{p}*{x} = {p * x} [{base}]: the zero shift of {base} must be divided by the number, '
                           f'the unit got {fmt(utuple(lab.find(e)))}')
            if why:
                out.bad(fn, fn.node, why + f'  [PhysicalUnit.{op} scales an offset unit by a number]',
                        key=f'offset-scaled:{e}')
            else:
                out.ok(fn, fn.node, f'{e!r} accepted with the zero shift rescaled: x [{e}] == {p}*x [{base}]')


# ================================================================================ C06.define
@rule('C06.define', floor=5)
def define(repo, out):
    """add_unit / add_offset_unit give a new unit the factor, powers and offset of its definition."""
    f_off, f_add = Lab(repo).fn('add_offset_unit'), Lab(repo).fn('add_unit')
    cases = [('off', ('degX', 'K', Fl(Fr(1, 2)), Fl(10)), SUnit(Fr(1, 2), (0, 0, 0, 1), 10)),
             ('off', ('degY', 'degR', Fl(Fr(1, 4)), Fl(Fr(-7, 2))), SUnit(Fr(1, 8), (0, 0, 0, 1), Fr(-7, 2))),
             ('add', ('yd', '3*ft'), SUnit(Fr(3, 4), (1, 0, 0, 0))),
             ('add', ('pdl', 'lb*ft/s**2'), SUnit(Fr(1, 8), (1, 1, -2, 0))),
             ('add', ('kyd', 'kft*3'), SUnit(Fr(750), (1, 0, 0, 0))),
             ('add', ('circ', '2*pi*m'), SUnit(2 * PI, (1, 0, 0, 0)))]
    for kind, args, want in cases:
        lab = Lab(repo)
        fn = f_off if kind == 'off' else f_add
        with guarded(out, fn):
            k, v = attempt(lambda: lab.call('add_offset_unit' if kind == 'off' else 'add_unit', *args))
            if k == 'raise':
                out.bad(fn, fn.node, f'defining {args[0]!r} as {args[1:]} raises {v}', key=f'def:{args[0]}')
                continue
            k, u = attempt(lambda: lab.find(args[0], True))
            if k == 'raise' or u is None:
                out.bad(fn, fn.node, f'{args[0]!r} is not found after its definition ({u})', key=f'def:{args[0]}')
            elif utuple(u) != want.key():
                out.bad(fn, fn.node, f'{args[0]!r} defined as {args[1:]} became {fmt(utuple(u))}; the definition '
                        f'means {fmt(want.key())}', key=f'def:{args[0]}')
            else:
                # and it is usable: simplify_unit names it and convert_units reaches the base unit
                st, detail = _simplify_check(lab, args[0])
                if st != 'same':
                    out.bad(fn, fn.node, detail, key=f'def:{args[0]}')
                else:
                    out.ok(fn, fn.node, f'{args[0]!r} -> {fmt(want.key())}')


# ================================================================================ C06.library
SI = {'Y': 24, 'Z': 21, 'E': 18, 'P': 15, 'T': 12, 'G': 9, 'M': 6, 'k': 3, 'h': 2, 'da': 1, 'd': -1, 'c': -2,
      'm': -3, 'u': -6, 'n': -9, 'p': -12, 'f': -15, 'a': -18, 'z': -21, 'y': -24, 'R': 27, 'Q': 30, 'r': -27,
      'q': -30}
IEC = {'Ki': 10, 'Mi': 20, 'Gi': 30, 'Ti': 40, 'Pi': 50, 'Ei': 60, 'Zi': 70, 'Yi': 80}


def read_ini(repo):
    cp = configparser.RawConfigParser()
    cp.optionxform = str
    try:
        text = repo.source(INI)
        repo.consulted[INI] = hashlib.sha256(text.encode()).hexdigest()[:16]
        cp.read_string(text)
    except configparser.Error as e:
        raise AnalysisError(f'{INI} is not a readable ini file: {e}')
    for sec in ('prefixes', 'base_units', 'units'):
        if not cp.has_section(sec):
            raise AnalysisError(f'{INI}: section [{sec}] vanished')
    return cp


def spec_library(cp):
    """Independent meaning of every definition of the ini file: name -> SUnit."""
    prefixes = {k: Fr(float(v.partition(',')[0])) for k, v in cp.items('prefixes')}
    bases = [n for _, n in cp.items('base_units')]
    table = {}
    for i, n in enumerate(bases):
        p = [0] * len(bases)
        p[i] = 1
        table[n] = SUnit(1, p)
    problems = {}
    for name, text in cp.items('units'):
        data = [t.strip() for t in text.split(',')]
        try:
            if len(data) == 2:
                u = spec_eval(data[0], table, prefixes)
                if not isinstance(u, SUnit):
                    raise SpecReject('definition is a pure number')
                table[name] = u       # (a plain alias of an offset unit keeps the offset)
            elif len(data) == 4:
                f, off = Fr(float(data[0])), Fr(float(data[2]))
                b = spec_eval(data[1], table, prefixes)
                # x_base = (x + off) * f ; x_K = (x_base + d_b) * s_b
                table[name] = SUnit(b.f * f, b.p, off + b.d / f)
            else:
                problems[name] = 'definition has neither 2 nor 4 fields'
        except (SpecReject, ValueError, ZeroDivisionError) as ex:
            problems[name] = str(ex)
    return prefixes, bases, table, problems


class _IniParser(NS):
    """Stand-in for configparser.ConfigParser inside the interpreted import_library."""


def _make_parser_factory(cp):
    def factory(interp, *a):
        ns = _IniParser()
        ns.read_file = native(lambda interp, fp: None)
        ns.readfp = ns.read_file
        ns.items = native(lambda interp, sec: [(k, v) for k, v in cp.items(sec)])
        ns.set = native(lambda interp, *a: None)
        return ns
    return native(factory)


@rule('C06.library', floor=300)
def library(repo, out):
    """Every unit of the shipped library gets, through import_library, the factor/powers/offset of its definition."""
    cp = read_ini(repo)
    prefixes, bases, table, problems = spec_library(cp)
    mod = repo.module(UNITS)
    fn = repo.func(UNITS, 'import_library')
    f_upd = repo.func(UNITS, '_update_library')
    for name, why in problems.items():
        out.unsure(INI, name, f'definition of {name!r} is outside the specification evaluator: {why}')
    it = Interp(mod, {'ConfigParser': _make_parser_factory(cp), 'eval': model_eval, 're': re, '_UNIT_CACHE': {},
                      'sys': NS(version_info=(3, 12)), 'get_close_matches': native(lambda interp, *a, **k: [])})
    it.MAX_STEPS = 3000000
    with guarded(out, fn):
        k, v = attempt(lambda: it.call_func('import_library', None))
        if k == 'raise':
            out.bad(fn, fn.node, f'import_library raises {v} on the shipped unit_library.ini', key='import-raises')
            return
        lib = it.globals.get('_UNIT_LIB')
        ut = getattr(lib, 'unit_table', None)
        if not isinstance(ut, dict):
            out.unsure(fn, fn.node, 'unit_table not found after the interpreted import')
            return
        # prefixes
        got_p = getattr(lib, 'prefixes', {})
        for pre, val in prefixes.items():
            exp = SI.get(pre, None)
            want = Fr(10) ** exp if exp is not None else (Fr(2) ** IEC[pre] if pre in IEC else None)
            g = got_p.get(pre)
            if g is None or frac(g) != val:
                out.bad(fn, fn.node, f'prefix {pre!r} is loaded as {g}, the file says {val}', key=f'prefix:{pre}')
            elif want is None:
                out.unsure(INI, pre, f'prefix {pre!r} is neither an SI nor an IEC prefix')
            elif Fr(float(want)) != val:
                out.bad(INI, pre, f'prefix {pre!r} = {float(val)!r} in the library; SI/IEC define {float(want)!r}',
                        key=f'prefix-value:{pre}')
            else:
                out.ok(INI, pre, f'prefix {pre} = {float(val)!r}')
        # units
        nbad = 0
        for name, want in table.items():
            u = ut.get(name)
            where = fn if name in bases else f_upd
            if u is None:
                out.bad(where, where.node, f'unit {name!r} of the shipped library is not defined after import',
                        key=f'unit:{name}')
                continue
            got = utuple(u)
            if got != want.key():
                nbad += 1
                out.bad(where, where.node, f'library unit {name!r} is loaded as {fmt(got)} but its definition '
                        f'means {fmt(want.key())}', key=f'unit:{name}')
            else:
                out.ok(where, name, fmt(got))
        extra = [n for n in ut if n not in table and n not in problems]
        out.count('units', len(table))
        out.count('interpreter_steps', it.steps)
        if extra:
            out.note(f'units defined by the loader but not by the specification: {extra[:8]}')
        # simplify_unit is faithful on every name of the shipped library
        class _L:
            find = staticmethod(lambda e, error=False: it.call_func('_find_unit', e, error))
            call = staticmethod(lambda f, *a: it.call_func(f, *a))
        f_simp = repo.func(UNITS, 'simplify_unit')
        for name in table:
            st, detail = _simplify_check(_L, name)
            if st == 'refused' or st.startswith('diff'):
                out.bad(f_simp, f_simp.node, detail if st != 'refused' else f'library unit {name!r} is refused',
                        key=f'simplify-unit:{name}')
            else:
                out.ok(f_simp, name, f'simplify_unit({name!r}) = {detail!r} names the same unit')
        # every offset unit of the shipped library converts to its base dimension as (x + offset) * factor
        for name, want in table.items():
            if want.d != 0:
                base = [b for b in bases if table[b].p == want.p]
                if not base:
                    continue
                x = Fr(17, 4)
                k, v = attempt(lambda: it.call_func('convert_units', Fl(x), name, base[0]))
                if k == 'ok' and frac(v) == (x + want.d) * want.f:
                    out.ok(f_upd, name, f'{x} {name} = {float((x + want.d) * want.f)} {base[0]}')
                else:
                    out.bad(f_upd, f_upd.node, f'convert_units({x}, {name!r}, {base[0]!r}) gives {v}; the library '
                            f'definition gives {(x + want.d) * want.f}', key=f'offset-unit:{name}')


# ================================================================================ C06.reload
def _variant_library(cp):
    """A second library: same file with one linear unit rescaled and one offset unit's zero moved."""
    cp2 = configparser.RawConfigParser()
    cp2.optionxform = str
    cp2.read_dict({sec: dict(cp.items(sec)) for sec in cp.sections()})
    lin = off = None
    rows = list(cp.items('units'))
    pref = {'ft': 0, 'degF': 0}
    for name, text in sorted(rows, key=lambda r: pref.get(r[0], 1)):
        data = [t.strip() for t in text.split(',')]
        if len(data) == 2 and lin is None and data[0] != name:
            lin = name
            cp2.set('units', name, f'7*({data[0]}), {data[1]}')
        elif len(data) == 4 and off is None:
            off = name
            cp2.set('units', name, f'{data[0]}, {data[1]}, {float(data[2]) + 40.0!r}, {data[3]}')
    if lin is None or off is None:
        raise AnalysisError('unit_library.ini has no linear/offset unit to vary')
    return cp2, lin, off


@rule('C06.reload', floor=5)
def reload_(repo, out):
    """After import_library every expression is resolved against the new library (no stale cached units)."""
    cp1 = read_ini(repo)
    cp2, lin, off = _variant_library(cp1)
    pre2, bases2, table2, problems2 = spec_library(cp2)
    fn = repo.func(UNITS, 'import_library')
    stage = {'cp': cp1}

    def factory(interp, *a):
        cp = stage['cp']
        ns = _IniParser()
        ns.read_file = native(lambda interp, fp: None)
        ns.readfp = ns.read_file
        ns.items = native(lambda interp, sec: [(k, v) for k, v in cp.items(sec)])
        ns.set = native(lambda interp, *a: None)
        return ns
    it = Interp(repo.module(UNITS), {'ConfigParser': native(factory), 'eval': model_eval, 're': re, '_UNIT_CACHE': {},
                                      'sys': NS(version_info=(3, 12)),
                                      'get_close_matches': native(lambda interp, *a, **k: [])})
    it.MAX_STEPS = 6000000
    b0 = bases2[0]
    probes = [lin, off, f'{lin}/{b0}', f'{lin}**2', f'{lin}*{b0}/{b0}', f'k{lin}']
    probes = [e for e in probes if e not in problems2]
    with guarded(out, fn):
        k, v = attempt(lambda: it.call_func('import_library', None))
        if k == 'raise':
            out.bad(fn, fn.node, f'import_library raises {v} on the shipped library', key='import-raises')
            return
        seen = {}
        for e in probes:                      # ordinary use of the first library: fills the expression cache
            k, u = attempt(lambda: it.call_func('_find_unit', e, True))
            seen[e] = utuple(u) if k == 'ok' and u is not None else None
        stage['cp'] = cp2
        k, v = attempt(lambda: it.call_func('import_library', None))
        if k == 'raise':
            out.bad(fn, fn.node, f'a second import_library (one unit rescaled) raises {v}', key='reimport-raises')
            return
        for e in probes:
            try:
                want = spec_eval(e, table2, pre2)
            except SpecReject:
                continue
            k, u = attempt(lambda: it.call_func('_find_unit', e, True))
            got = utuple(u) if k == 'ok' and u is not None else None
            if got != want.key():
                stale = ' (that is the unit of the previously loaded library)' if got == seen.get(e) else ''
                out.bad(fn, fn.node, f'after import_library of a library that defines {lin!r} and {off!r} differently, '
                        f'{e!r} resolves to {fmt(got)}{stale}; the loaded library implies {fmt(want.key())}: '
                        'cached expressions of the replaced library survive the import',
                        key=f'stale-after-import:{e.replace(lin, "LIN").replace(off, "OFF")}')
            else:
                out.ok(fn, e, f'{e!r} -> {fmt(got)} in the newly imported library')


# ================================================================================ C06.proto (thorough)
def _arith_roots(fnnode, name):
    """Maximal arithmetic expressions (BinOp trees) of the function that mention Name `name`."""
    roots = []
    for n in astx.walk(fnnode):
        if isinstance(n, ast.BinOp) and any(isinstance(x, ast.Name) and x.id == name for x in ast.walk(n)):
            par = getattr(n, '_parent', None)
            if not isinstance(par, (ast.BinOp, ast.UnaryOp)):
                roots.append(n)
    return roots


@rule('C06.proto', floor=13, tier='thorough')
def proto(repo, out):
    """Every consumer of unit_conversion unpacks (factor, offset) in that order and applies (x+offset)*factor."""
    sites = 0
    for rel in repo.shipped():
        if rel == UNITS or 'unit_conversion' not in repo.source(rel):
            continue
        m = repo.module(rel)
        for f in m.funcs.values():
            for call in astx.calls(f.node):
                if astx.callee_attr(call) != 'unit_conversion':
                    continue
                if astx.enclosing(call, (ast.FunctionDef, ast.AsyncFunctionDef, ast.Lambda)) is not f.node:
                    continue
                sites += 1
                st = astx.stmt_of(call)
                if not (isinstance(st, ast.Assign) and st.value is call and len(st.targets) == 1 and
                        isinstance(st.targets[0], ast.Tuple) and len(st.targets[0].elts) == 2):
                    out.unsure(f, st, 'result of unit_conversion is not unpacked into two targets here')
                    continue
                t_fac, t_off = st.targets[0].elts
                # meta['unit_scaler'], meta['unit_adder'] = ...   (keys are read back by name elsewhere)
                if isinstance(t_fac, ast.Subscript) and isinstance(t_off, ast.Subscript):
                    kf, ko = astx.const_str(t_fac.slice), astx.const_str(t_off.slice)
                    if (kf, ko) == ('unit_scaler', 'unit_adder') and astx.same(t_fac.value, t_off.value):
                        out.ok(f, st, "factor -> ['unit_scaler'], offset -> ['unit_adder']")
                    elif (kf, ko) == ('unit_adder', 'unit_scaler'):
                        out.bad(f, st, "the factor is stored under 'unit_adder' and the offset under 'unit_scaler': "
                                'unit_conversion returns (factor, offset)', key='unpack-order')
                    else:
                        out.unsure(f, st, 'unrecognised storage of the conversion tuple')
                    continue
                if not (isinstance(t_fac, ast.Name) and isinstance(t_off, ast.Name)):
                    out.unsure(f, st, 'unrecognised unpack targets')
                    continue
                fac, off = t_fac.id, t_off.id
                if off == '_':
                    roots = []
                else:
                    roots = _arith_roots(f.node, off)
                if fac == '_' and off != '_':
                    out.bad(f, st, 'the factor is discarded and the second element (the offset) is kept',
                            key='unpack-order')
                    continue
                verdict = None
                it = Interp(m)
                for r in roots:
                    free = sorted(astx.names(r) - {fac, off})
                    try:
                        vals = {}
                        for (sv, dv) in ((Fr(3, 7), Fr(5, 11)), (Fr(3, 7), Fr(0)), (Fr(13, 2), Fr(5, 11)),
                                         (Fr(13, 2), Fr(0)), (Fr(1), Fr(0))):
                            env = {n: Fl(Fr(101 + 7 * i, 13)) for i, n in enumerate(free)}
                            env[fac], env[off] = Fl(sv), Fl(dv)
                            vals[(sv, dv)] = frac(it.expr(r, env))
                    except (Unsupported, PyRaise, TypeError):
                        verdict = verdict or ('unsure', r, 'arithmetic on the offset outside the evaluated fragment')
                        continue
                    s1, s2, d = Fr(3, 7), Fr(13, 2), Fr(5, 11)
                    lin_off = vals[(s1, d)] - vals[(s1, 0)] == s1 * d and vals[(s2, d)] - vals[(s2, 0)] == s2 * d
                    lin_fac = vals[(s1, 0)] == s1 * vals[(1, 0)] and vals[(s2, 0)] == s2 * vals[(1, 0)]
                    if not (lin_off and lin_fac):
                        verdict = ('bad', r, f'`{astx.src(r)}` is not (x + {off}) * {fac}: unit_conversion returns '
                                   '(factor, offset) meant to be applied as (x + offset) * factor')
                        break
                if verdict and verdict[0] == 'bad':
                    out.bad(f, verdict[1], verdict[2], key='apply-form')
                elif verdict:
                    out.unsure(f, verdict[1], verdict[2])
                else:
                    how = f'{len(roots)} use(s) of the offset, all (x + offset) * factor' if roots else \
                        ('offset unused (derivative scaling)' if off == '_' else 'offset only stored/compared')
                    out.ok(f, st, f'({fac}, {off}) = unit_conversion(...): {how}')
    out.count('call_sites', sites)


# ================================================================================ self-test
_U = UNITS
selftest(
    'C06',
    # ---- pred
    Mutant('pred-guard-and-offset', _U,
           "        if self._powers != other._powers:\n            raise TypeError(f\"Units '{self.name()}' and '{other.name()}' are incompatible.\")\n\n        # let",
           "        if self._powers != other._powers and self._offset == other._offset:\n            raise TypeError(f\"Units '{self.name()}' and '{other.name()}' are incompatible.\")\n\n        # let",
           'C06.pred'),
    Mutant('pred-self-self', _U, "        return self._powers == other._powers", "        return self._powers == self._powers",
           ['C06.pred']),
    Mutant('pred-first-dim-only', _U, "        return self._powers == other._powers",
           "        return self._powers[0] == other._powers[0]", 'C06.pred'),
    Mutant('pred-guard-removed', _U,
           "        if self._powers != other._powers:\n            raise TypeError(f\"Units '{self.name()}' and '{other.name()}' are incompatible.\")\n\n        # let",
           "        # let", 'C06.pred'),
    # ---- affine
    Mutant('affine-factor-inverted', _U, "        factor = self._factor / other._factor", "        factor = other._factor / self._factor",
           'C06.affine'),
    Mutant('affine-offset-ratio-swapped', _U, "self._offset - (other._offset * other._factor / self._factor)",
           "self._offset - (other._offset * self._factor / other._factor)", 'C06.affine'),
    Mutant('affine-offset-sign', _U, "self._offset - (other._offset * other._factor / self._factor)",
           "self._offset + (other._offset * other._factor / self._factor)", 'C06.affine'),
    Mutant('affine-offset-unscaled', _U, "self._offset - (other._offset * other._factor / self._factor)",
           "self._offset - other._offset", 'C06.affine'),
    Mutant('affine-apply-order', _U, "    return (val + offset) * factor", "    return val * factor + offset", 'C06.affine'),
    Mutant('affine-tuple-swapped', _U, "        return (factor, offset)", "        return (offset, factor)", 'C06.affine'),
    # ---- route
    Mutant('route-conversion-reversed', _U,
           "    return _find_unit(old_units, error=True).conversion_tuple_to(_find_unit(new_units, error=True))",
           "    return _find_unit(new_units, error=True).conversion_tuple_to(_find_unit(old_units, error=True))",
           'C06.route'),
    Mutant('route-convert-reversed', _U, "    (factor, offset) = old_unit.conversion_tuple_to(new_unit)",
           "    (factor, offset) = new_unit.conversion_tuple_to(old_unit)", 'C06.route'),
    Mutant('route-compat-self', _U, "    return old_unit.is_compatible(new_unit)", "    return old_unit.is_compatible(old_unit)",
           'C06.route'),
    Mutant('route-none-and', _U, "    if not old_units or not new_units:  # one side has no units",
           "    if not old_units and not new_units:  # one side has no units", 'C06.route'),
    # ---- homo
    Mutant('homo-mul-powers-sub', _U, "[a + b for a, b in zip(self._powers, other._powers)]",
           "[a - b for a, b in zip(self._powers, other._powers)]", 'C06.homo'),
    Mutant('homo-div-factor-mul', _U, "                                self._factor / other._factor,\n                                [a - b",
           "                                self._factor * other._factor,\n                                [a - b", 'C06.homo'),
    Mutant('homo-div-powers-swapped', _U, "[a - b for (a, b) in zip(self._powers,\n                                                         other._powers)]",
           "[b - a for (a, b) in zip(self._powers,\n                                                         other._powers)]", 'C06.homo'),
    Mutant('homo-rdiv-factor', _U, "                            float(other) / self._factor,", "                            float(other) * self._factor,",
           'C06.homo'),
    Mutant('homo-rdiv-powers-kept', _U, "                            [-x for x in self._powers])", "                            [x for x in self._powers])",
           'C06.homo'),
    Mutant('homo-pow-factor-mul', _U, "pow(self._factor, power),", "self._factor * power,", 'C06.homo'),
    Mutant('homo-fracpow-factor', _U, "                    f = self._factor**power", "                    f = self._factor**rounded", 'C06.homo'),
    Mutant('homo-fracpow-powers-mul', _U, "                    p = [x // rounded for x in self._powers]",
           "                    p = [x * rounded for x in self._powers]", 'C06.homo'),
    Mutant('homo-fracpow-no-divisibility', _U, "                if all([x % rounded == 0 for x in self._powers]):",
           "                if any([x % rounded == 0 for x in self._powers]):", 'C06.homo'),
    Mutant('homo-scalar-div-mul', _U, "                                self._factor / float(other), self._powers)",
           "                                self._factor * float(other), self._powers)", 'C06.homo'),
    Mutant('homo-truediv-alias-lost', _U, "    __truediv__ = __div__   # for python 3", "    __floordiv__ = __div__   # for python 3",
           'C06.homo'),
    # ---- prefix
    Mutant('prefix-wrong-letter', _U, "add_unit(item, prefixes[item[0]] * unit_table[base_unit])",
           "add_unit(item, prefixes[item[1]] * unit_table[base_unit])", 'C06.prefix'),
    Mutant('prefix-two-letter-base', _U, "add_unit(item, prefixes[item[0:2]] * unit_table[item[2:]])",
           "add_unit(item, prefixes[item[0:2]] * unit_table[item[1:]])", 'C06.prefix'),
    Mutant('prefix-divides', _U, "add_unit(item, prefixes[item[0]] * unit_table[base_unit])",
           "add_unit(item, unit_table[base_unit] / prefixes[item[0]])", 'C06.prefix'),
    Mutant('prefix-two-letter-first', _U,
           "                        if (item[0] in prefixes and base_unit in unit_table):\n                            add_unit(item, prefixes[item[0]] * unit_table[base_unit])\n\n                        # check for double letter prefix before unit\n                        elif (item[0:2] in prefixes and item[2:] in unit_table):\n                            add_unit(item, prefixes[item[0:2]] * unit_table[item[2:]])",
           "                        if (item[0:2] in prefixes and item[3:] in unit_table):\n                            add_unit(item, prefixes[item[0:2]] * unit_table[item[3:]])\n\n                        elif (item[0] in prefixes and base_unit in unit_table):\n                            add_unit(item, prefixes[item[0]] * unit_table[base_unit])",
           'C06.prefix'),
    Mutant('prefix-as-mangling', _U, "                    item = re.sub(reg1, 'as_', item)\n", "", 'C06.prefix'),
    Mutant('prefix-unknown-accepted', _U, "                            return None\n\n                unit = eval(name",
           "                            continue\n\n                unit = eval(name", ['C06.prefix']),
    # ---- simplify
    Mutant('simplify-names-sub-adds', _U, "            sum_dict[k] = sum_dict[k] - v\n        return sum_dict\n\n    def __rsub__",
           "            sum_dict[k] = sum_dict[k] + v\n        return sum_dict\n\n    def __rsub__", 'C06.simplify'),
    Mutant('simplify-denominator-sign', _U, "                    denom = denom + '**' + str(-power)\n            elif power > 0:\n                num = num + '*' + unit",
           "                    denom = denom + '**' + str(power)\n            elif power > 0:\n                num = num + '*' + unit", 'C06.simplify', nth=1),
    Mutant('simplify-exponent-guard', _U, "                if power < -1:\n                    denom = denom + '**' + str(-power)\n            elif power > 0:\n                num = num + '*' + unit\n                if power > 1:\n                    num = num + '**' + str(power)\n        if len(num) == 0:",
           "                if power < -2:\n                    denom = denom + '**' + str(-power)\n            elif power > 0:\n                num = num + '*' + unit\n                if power > 1:\n                    num = num + '**' + str(power)\n        if len(num) == 0:", 'C06.simplify'),
    Mutant('simplify-num-denom-swapped', _U, "            num = num[1:]\n        return num + denom", "            num = num[1:]\n        return denom + num",
           'C06.simplify'),
    Mutant('simplify-pow-names-unscaled', _U, "            return PhysicalUnit(power * self._names, pow(self._factor, power),",
           "            return PhysicalUnit(self._names, pow(self._factor, power),", 'C06.simplify'),
    Mutant('simplify-rdiv-names', _U, "        return PhysicalUnit({str(other): 1} - self._names,", "        return PhysicalUnit({str(other): 1} + self._names,",
           'C06.simplify'),
    Mutant('simplify-unity-dropped', _U, "    if new_str == '1':", "    if new_str == '':", 'C06.simplify'),
    Mutant('simplify-scalar-name-lost', _U, "            return PhysicalUnit(self._names + {str(other): 1},\n                                self._factor * other,",
           "            return PhysicalUnit(self._names,\n                                self._factor * other,", 'C06.simplify'),
    Mutant('simplify-names-add-overwrites', _U, "        for k, v in other.items():\n            sum_dict[k] = sum_dict[k] + v\n        return sum_dict\n\n    def __sub__",
           "        for k, v in other.items():\n            sum_dict[k] = v\n        return sum_dict\n\n    def __sub__", 'C06.simplify'),
    Mutant('simplify-missing-name-one', _U, "        except KeyError:\n            return 0", "        except KeyError:\n            return 1", 'C06.simplify'),
    Mutant('simplify-set-name-zero', _U, "        self._names[name] = 1", "        self._names[name] = 0", ['C06.simplify', 'C06.define']),
    # ---- fracpow
    Mutant('fracpow-names-times', _U, "names = NumberDict((k, v // rounded) for k, v in self._names.items())",
           "names = NumberDict((k, v * rounded) for k, v in self._names.items())", 'C06.fracpow'),
    # the defect fixed by 5e5066e: true division leaves float exponents that name() renders as **2.0
    Mutant('fracpow-prefix-true-division', _U, "names = NumberDict((k, v // rounded) for k, v in self._names.items())",
           "names = self._names / rounded", 'C06.fracpow',
           also=[(_U, "                    p = [x // rounded for x in self._powers]",
                  "                    p = [x / rounded for x in self._powers]")]),
    Mutant('fracpow-prefix-float-powers', _U, "                    p = [x // rounded for x in self._powers]",
           "                    p = [x / rounded for x in self._powers]", 'C06.fracpow'),
    Mutant('fracpow-fallback-factor-lost', _U, "                        if f != 1.:\n                            names[str(f)] = 1",
           "                        if f == 1.:\n                            names[str(f)] = 1", 'C06.fracpow'),
    Mutant('fracpow-names-divisibility', _U, "                    if all([x % rounded == 0 for x in self._names.values()]):",
           "                    if any([x % rounded != 0 for x in self._names.values()]):", 'C06.fracpow'),
    # ---- offset
    Mutant('offset-mul-guard-dropped', _U,
           "        if self._offset != 0 or (isinstance(other, PhysicalUnit) and\n                                 other._offset != 0):\n            raise TypeError(f\"Can't multiply units",
           "        if False:\n            raise TypeError(f\"Can't multiply units", 'C06.offset'),
    Mutant('offset-div-other-unchecked', _U,
           "        if self._offset != 0 or (isinstance(other, PhysicalUnit) and\n                                 other._offset != 0):\n            raise TypeError(f\"Can't divide units",
           "        if self._offset != 0:\n            raise TypeError(f\"Can't divide units", 'C06.offset'),
    Mutant('offset-pow-guard-dropped', _U, "        if self._offset != 0:\n            raise TypeError(f\"Can't exponentiate unit",
           "        if self._offset != 0 and power == 1:\n            raise TypeError(f\"Can't exponentiate unit", 'C06.offset'),
    Mutant('offset-mul-and', _U,
           "        if self._offset != 0 or (isinstance(other, PhysicalUnit) and\n                                 other._offset != 0):\n            raise TypeError(f\"Can't multiply units",
           "        if self._offset != 0 and (isinstance(other, PhysicalUnit) and\n                                 other._offset != 0):\n            raise TypeError(f\"Can't multiply units", 'C06.offset'),
    # the defect fixed by 7abd247: number / offset-unit accepted
    Mutant('offset-prefix-rdiv-unguarded', _U,
           "        if self._offset != 0:\n            raise TypeError(f\"Can't divide by unit",
           "        if False:\n            raise TypeError(f\"Can't divide by unit", 'C06.offset'),
    # round-2 seed 1: offset guard only on the unit*unit branch -> number*offset-unit multiplies the zero shift
    Mutant('offset-seed2-scalar-branch-unguarded', _U,
           "        if self._offset != 0 or (isinstance(other, PhysicalUnit) and\n                                 other._offset != 0):\n            raise TypeError(f\"Can't multiply units: either '{self.name()}' or '{other.name()}' \"\n                            \"has a non-zero offset.\")\n        if isinstance(other, PhysicalUnit):\n",
           "        if isinstance(other, PhysicalUnit):\n            if self._offset != 0 or other._offset != 0:\n                raise TypeError(f\"Can't multiply units: either '{self.name()}' or \"\n                                f\"'{other.name()}' has a non-zero offset.\")\n",
           'C06.offset'),
    Mutant('offset-scalar-div-unguarded', _U,
           "        if self._offset != 0 or (isinstance(other, PhysicalUnit) and\n                                 other._offset != 0):\n            raise TypeError(f\"Can't divide units",
           "        if isinstance(other, PhysicalUnit) and (self._offset != 0 or other._offset != 0):\n            raise TypeError(f\"Can't divide units",
           'C06.offset'),
    # round-2 seed 3: import_library rebinds a local instead of the module-level expression cache
    Mutant('reload-seed2-cache-not-global', _U, "    global _UNIT_CACHE\n    _UNIT_CACHE = {}\n", "    _UNIT_CACHE = {}\n", 'C06.reload'),
    Mutant('reload-cache-never-reset', _U, "    global _UNIT_CACHE\n    _UNIT_CACHE = {}\n", "", 'C06.reload'),
    # ---- define / library
    Mutant('define-offset-factor-div', _U, "    unit = PhysicalUnit(baseunit._names, baseunit._factor * factor,",
           "    unit = PhysicalUnit(baseunit._names, baseunit._factor / factor,", ['C06.define', 'C06.library']),
    Mutant('define-offset-dropped', _U, "                        baseunit._powers, offset)", "                        baseunit._powers)",
           ['C06.define', 'C06.library']),
    Mutant('library-fields-swapped', _U, "            factor, baseunit, offset, comment = data\n            try:",
           "            offset, baseunit, factor, comment = data\n            try:", 'C06.library'),
    Mutant('library-base-power', _U, "        powers[i] = 1\n", "        powers[i] = 2\n", 'C06.library'),
    Mutant('library-powers-aliased', _U, "        powers = list(base_list)\n", "        powers = base_list\n", 'C06.library'),
    Mutant('library-prefix-comment', _U, "        factor, comma, comment = factor.partition(',')", "        comment, comma, factor = factor.partition(',')",
           'C06.library'),
    # ---- proto (thorough)
    Mutant('proto-swapped-unpack', 'openmdao/recorders/case.py', "                scale, offset = unit_conversion(base_units, simp_units)",
           "                offset, scale = unit_conversion(base_units, simp_units)", 'C06.proto'),
    Mutant('proto-apply-after-scale', 'openmdao/core/conn_graph.py', "                return (val + offset) * scale", "                return val * scale + offset",
           'C06.proto'),
    Mutant('proto-keys-swapped', 'openmdao/core/system.py', "meta['unit_scaler'], meta['unit_adder'] = unit_conversion(var_units, units)",
           "meta['unit_adder'], meta['unit_scaler'] = unit_conversion(var_units, units)", 'C06.proto'),
    Mutant('proto-group-adder', 'openmdao/core/group.py', "                    a0 = (ref0 + offset) * factor", "                    a0 = ref0 * factor + offset",
           'C06.proto'),
    Mutant('proto-derivative-keeps-offset', 'openmdao/core/total_jac.py', "                scaler, _ = unit_conversion(native_units, requested_units)\n                if scaler != 1.0:\n                    self._resp_unit_scalers[vname] = scaler",
           "                _, scaler = unit_conversion(native_units, requested_units)\n                if scaler != 1.0:\n                    self._resp_unit_scalers[vname] = scaler", 'C06.proto'),
    # ---- twins
    Twin('twin-offset-algebra', _U, "        offset = self._offset - (other._offset * other._factor / self._factor)",
         "        offset = (self._offset * self._factor - other._offset * other._factor) / self._factor"),
    Twin('twin-guard-flipped', _U,
         "        if self._powers != other._powers:\n            raise TypeError(f\"Units '{self.name()}' and '{other.name()}' are incompatible.\")\n\n        # let",
         "        if other._powers == self._powers:\n            pass\n        else:\n            raise TypeError(f\"Units '{self.name()}' and '{other.name()}' are incompatible.\")\n\n        # let"),
    Twin('twin-guard-uses-predicate', _U,
         "        if self._powers != other._powers:\n            raise TypeError(f\"Units '{self.name()}' and '{other.name()}' are incompatible.\")\n\n        # let",
         "        if not self.is_compatible(other):\n            raise TypeError(f\"Units '{self.name()}' and '{other.name()}' are incompatible.\")\n\n        # let"),
    Twin('twin-mul-temporaries', _U,
         "            return PhysicalUnit(self._names + other._names,\n                                self._factor * other._factor,\n                                [a + b for a, b in zip(self._powers, other._powers)])",
         "            new_powers = [q + p for p, q in zip(self._powers, other._powers)]\n            new_factor = other._factor * self._factor\n            return PhysicalUnit(self._names + other._names, new_factor, new_powers)"),
    Twin('twin-convert-expanded', _U, "    return (val + offset) * factor", "    shifted = offset + val\n    return factor * shifted"),
    Twin('twin-name-fstring', _U, "                    denom = denom + '**' + str(-power)\n            elif power > 0:\n                num = num + '*' + unit",
         "                    denom += f'**{-power}'\n            elif power > 0:\n                num = num + '*' + unit", nth=1),
    Twin('twin-prefix-slices', _U, "                        elif (item[0:2] in prefixes and item[2:] in unit_table):\n                            add_unit(item, prefixes[item[0:2]] * unit_table[item[2:]])",
         "                        elif (item[:2] in prefixes and item[2:] in unit_table):\n                            pre2, rest = item[:2], item[2:]\n                            add_unit(item, unit_table[rest] * prefixes[pre2])"),
    Twin('twin-name-join', _U,
         "        num = ''\n        denom = ''\n        for unit, power in self._names.items():\n            if power < 0:\n                denom = denom + '/' + unit\n                if power < -1:\n                    denom = denom + '**' + str(-power)\n            elif power > 0:\n                num = num + '*' + unit\n                if power > 1:\n                    num = num + '**' + str(power)\n        if len(num) == 0:\n            num = '1'\n        else:\n            num = num[1:]\n        return num + denom",
         "        tops = []\n        bottoms = []\n        for unit, power in self._names.items():\n            if power > 0:\n                tops.append(unit if power == 1 else unit + '**' + str(power))\n            elif power < 0:\n                bottoms.append(unit if power == -1 else f'{unit}**{-power}')\n        text = '*'.join(tops) if tops else '1'\n        for b in bottoms:\n            text += '/' + b\n        return text"),
    Twin('twin-numberdict-generator', _U, "        new = NumberDict()\n        for key, value in self.items():\n            new[key] = other * value\n        return new",
         "        return NumberDict((key, other * value) for key, value in self.items())"),
    Twin('twin-pow-operator', _U, "pow(self._factor, power),", "self._factor ** power,"),
    Twin('twin-compat-symmetric', _U, "    return old_unit.is_compatible(new_unit)", "    return new_unit.is_compatible(old_unit)"),
    Twin('twin-rdiv-reciprocal', _U, "                            float(other) / self._factor,", "                            float(other) * (1.0 / self._factor),"),
    Twin('twin-early-identity', _U, "        factor = self._factor / other._factor\n", "        if self is other:\n            return (1.0, 0.0)\n        factor = self._factor / other._factor\n"),
    Twin('twin-reload-cache-cleared-in-place', _U, "    global _UNIT_CACHE\n    _UNIT_CACHE = {}\n", "    _UNIT_CACHE.clear()\n"),
    Twin('twin-mul-guard-split', _U,
         "        if self._offset != 0 or (isinstance(other, PhysicalUnit) and\n                                 other._offset != 0):\n            raise TypeError(f\"Can't multiply units: either '{self.name()}' or '{other.name()}' \"\n                            \"has a non-zero offset.\")\n",
         "        if self._offset != 0:\n            raise TypeError(f\"Can't multiply units: '{self.name()}' has a non-zero offset.\")\n        if isinstance(other, PhysicalUnit) and other._offset != 0:\n            raise TypeError(f\"Can't multiply units: '{other.name()}' has a non-zero offset.\")\n"),
    Twin('twin-proto-commuted', 'openmdao/core/conn_graph.py', "                return (val + offset) * scale", "                return scale * (offset + val)"),
)
