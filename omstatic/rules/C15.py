"""C15 -- table interpolation is exact on nodes, reproduces its polynomial degree, raises exactly outside.

Two kinds of rules:

* structural (SIGN / BOOL / ORDER / GATE) rules on the bounds check of ``InterpND._interpolate``, the
  semi-structured bracket, the hand-over of the ``extrapolate`` flag and the method table;
* exact rules: the AST of every slinear / lagrange2 / lagrange3 table class (general N-D recursion,
  fixed 1D/2D/3D scalar path, fixed vectorised path, the three bracket searches, InterpND._interpolate
  itself) is interpreted by ``omstatic.lib_c15`` over *exact rationals* on small tables with negative
  and zero coordinates.  The property is then read off literally: node values, reproduction of random
  tensor-product polynomials of the method's degree, equality of general and fixed-dimension variants on
  generic data, OutOfBoundsError exactly outside.  No OpenMDAO module is imported or run by CPython.
"""
import ast
import contextlib
import gc
import itertools
import random
from collections import deque
from fractions import Fraction as F

from .. import astx, cfg as cfgm
from .. import lib_c15 as X
from ..core import AnalysisError
from ..engine import rule, describe, selftest, Mutant, Twin

D = 'openmdao/components/interp_util/'
INTERP = D + 'interp.py'
ALGO = D + 'interp_algorithm.py'
SEMI = D + 'interp_semi.py'
SLIN = D + 'interp_slinear.py'
LAG2 = D + 'interp_lagrange2.py'
LAG3 = D + 'interp_lagrange3.py'
MMS = 'openmdao/components/meta_model_structured_comp.py'
MMSS = 'openmdao/components/meta_model_semi_structured_comp.py'
SCAN = [INTERP, ALGO, SEMI, SLIN, LAG2, LAG3, D + 'interp_akima.py', D + 'interp_cubic.py',
        D + 'interp_scipy.py', D + 'interp_bsplines.py', MMS, MMSS]

describe('C15',
         'Two kinds of rules.  STRUCTURAL: (eps) the tolerance of every out-of-bounds comparison is provably >= 0 '
         'whatever the sign of the grid (finding F5), (bounds) the bounds test of InterpND._interpolate pairs '
         'grid[i][0] with a strict `<` and grid[i][-1] with a strict `>` for the enumerate index of the column '
         'being tested, is or-joined, raises on every path, tests every axis and runs whenever extrapolate is '
         'False; the semi-structured search raises exactly beyond the first/last coordinate when the flag is off; '
         '(order) no table evaluation precedes the bounds loop and callers go through _interpolate; (propagate) '
         'the extrapolate flag travels unchanged from both meta-model components to the object that takes the '
         'bounds decision and OutOfBoundsError is never swallowed; (methods) every nD-<method> key maps to a '
         'class of that dimension and stencil size.  EXACT: the ASTs of InterpND (constructor, interpolate, '
         '_interpolate), InterpNDSemi, MetaModelStructuredComp.compute, the three bracket searches and all 15 '
         'slinear / lagrange2 / lagrange3 table classes (general N-D recursion, fixed 1D/2D/3D scalar and '
         'vectorised paths, semi-structured) are interpreted by omstatic.lib_c15 over exact rationals on small '
         'tables with all-negative, zero-ended and mixed-sign grids, and the property is read off literally: '
         'table value at every node, exact reproduction of random multilinear / tensor-quadratic / tensor-cubic '
         'polynomials, slinear equal to the multilinear interpolant of the enclosing cell, general and fixed '
         'variants equal on generic data, every search exhaustive on 1-D tables of k..k+4 points from every '
         'reachable cached index, no index leaving (or wrapping around) the table, an error exactly outside, and '
         'the same answer whatever was asked before.  No OpenMDAO module is imported or run by CPython.  Not '
         'decided: akima, cubic, scipy and bspline values, derivatives, training-data gradients, rounding.',
         ['exact rational arithmetic stands for float arithmetic (rounding and the 1e-14 relative tolerance band '
          'just outside the grid are not exercised)',
          'tables of k..k+4 points per axis and 1 to 3 axes are representative (all index guards compare with '
          'constants <= 3)',
          'numpy/python semantics are those modelled in omstatic/lib_c15.py (basic, integer-array and boolean '
          'indexing, broadcasting, einsum, searchsorted, where, any, dict/set protocol); anything else that is '
          'needed for a checked value is reported as undecided, never as a violation',
          'a computed negative index into the grid or the table is counted as leaving the table (numpy would wrap '
          'around silently); literal negative indices such as grid[-1] are accepted',
          'random interpretation: a wrong formula escapes only if its error -- linear in the table values, which '
          'are drawn from 41 integers, and rational in the grid -- vanishes at every one of the >= 10 pseudo-random '
          'sample points of an aspect; a correct formula never fails (no false alarm is possible from sampling)',
          'only code of the package openmdao.components is interpreted; OptionsDictionary and AnalysisError are '
          'opaque'])


# =========================================================================================== helpers
class Ctx:
    """CFG + reaching definitions of one function, with a few resolution helpers."""

    def __init__(self, fn):
        self.fn = fn
        self.g = cfgm.build(fn)
        self.rd = cfgm.ReachingDefs(self.g)

    def at(self, expr):
        st = astx.stmt_of(expr)
        ns = self.g.nodes_of(st)
        if not ns:
            raise AnalysisError(f'{self.fn.ident}: statement at line {getattr(st, "lineno", 0)} is unreachable')
        return ns[0]

    def unique_def(self, name, at):
        """(value expr, def node) when exactly one plain assignment of *name* reaches *at*."""
        ds = self.rd.defs(at, name)
        if len(ds) != 1:
            return None
        d = next(iter(ds))
        if d.kind == 'stmt' and isinstance(d.ast, ast.Assign) and len(d.ast.targets) == 1 and \
                isinstance(d.ast.targets[0], ast.Name) and d.ast.targets[0].id == name:
            return d.ast.value, d
        if d.kind == 'stmt' and isinstance(d.ast, ast.Assign) and len(d.ast.targets) == 1:
            # lower, upper = axis[0], axis[-1]
            t, v = d.ast.targets[0], d.ast.value
            if isinstance(t, (ast.Tuple, ast.List)) and isinstance(v, (ast.Tuple, ast.List)) and \
                    len(t.elts) == len(v.elts) and all(isinstance(x, ast.Name) for x in t.elts):
                ids = [x.id for x in t.elts]
                if ids.count(name) == 1 and not (astx.names(v) & set(ids)):
                    return v.elts[ids.index(name)], d
        return None

    def is_param(self, name, at):
        return self.rd.defs(at, name) == {self.g.entry}

    def gridish(self, e, at, depth=0):
        """True if *e* denotes the table coordinates (or one axis / one coordinate of them)."""
        if depth > 6:
            return False
        if isinstance(e, ast.Name):
            u = self.unique_def(e.id, at)
            if u is not None:
                return self.gridish(u[0], u[1], depth + 1)
            return e.id == 'grid' and self.is_param(e.id, at)
        if isinstance(e, ast.Attribute):
            return e.attr == 'grid' or self.gridish(e.value, at, depth)
        if isinstance(e, ast.Subscript):
            return self.gridish(e.value, at, depth)
        return False

    def idx_kind(self, i, base, at, depth=0):
        """Which coordinate of `base` the index *i* addresses: ('first', off) counts from the low end,
        ('last', off) from the high end (off <= 0); None when not recognised."""
        if depth > 4:
            return None
        if isinstance(i, ast.Constant) and isinstance(i.value, int) and not isinstance(i.value, bool):
            return ('first', i.value) if i.value >= 0 else ('last', i.value + 1)
        if isinstance(i, ast.UnaryOp) and isinstance(i.op, ast.USub) and isinstance(i.operand, ast.Constant) \
                and isinstance(i.operand.value, int) and i.operand.value > 0:
            return ('last', 1 - i.operand.value)
        if isinstance(i, ast.Call) and astx.call_name(i) == 'len' and len(i.args) == 1:
            arg = i.args[0]
            if astx.same(arg, base) or (self.gridish(arg, at) and self.gridish(base, at) and
                                        self._same_axis(arg, base, at)):
                return ('last', 1)
            return None
        if isinstance(i, ast.BinOp) and isinstance(i.op, (ast.Add, ast.Sub)) and isinstance(i.right, ast.Constant) \
                and isinstance(i.right.value, int) and not isinstance(i.right.value, bool):
            k = self.idx_kind(i.left, base, at, depth + 1)
            if k is None:
                return None
            c = i.right.value if isinstance(i.op, ast.Add) else -i.right.value
            if k[0] == 'first' and k[1] + c < 0:
                return ('last', k[1] + c + 1)
            return (k[0], k[1] + c)
        if isinstance(i, ast.Name):
            u = self.unique_def(i.id, at)
            if u is not None:
                return self.idx_kind(u[0], base, u[1], depth + 1)
        return None

    def _same_axis(self, a, b, at):
        return astx.same(self.expand(a, at), self.expand(b, at))

    def expand(self, e, at, depth=0):
        """Substitute uniquely defined local names (for comparisons of access expressions only)."""
        if depth > 4:
            return e
        if isinstance(e, ast.Name):
            u = self.unique_def(e.id, at)
            if u is not None:
                return self.expand(u[0], u[1], depth + 1)
            return e
        if isinstance(e, ast.Subscript):
            return ast.Subscript(value=self.expand(e.value, at, depth), slice=self.expand(e.slice, at, depth),
                                 ctx=ast.Load())
        if isinstance(e, ast.Attribute):
            return ast.Attribute(value=self.expand(e.value, at, depth), attr=e.attr, ctx=ast.Load())
        return e


NEG, ZERO, POS = '-', '0', '+'
TOP = frozenset('-0+')
NONNEG = frozenset('0+')
_ABS = {'abs', 'np.abs', 'numpy.abs', 'np.absolute', 'numpy.absolute', 'np.fabs', 'numpy.fabs', 'math.fabs'}


def _neg(s):
    return frozenset({NEG: POS, POS: NEG, ZERO: ZERO}[x] for x in s)


def _mul(a, b):
    out = set()
    for x in a:
        for y in b:
            out.add(ZERO if ZERO in (x, y) else POS if x == y else NEG)
    return frozenset(out)


def _addsign(a, b):
    out = set()
    for x in a:
        for y in b:
            if x == ZERO:
                out.add(y)
            elif y == ZERO or x == y:
                out.add(x)
            else:
                out.update(TOP)
    return frozenset(out)


def _coord(ctx, e, at, depth=0):
    """(expanded axis expression, position) when e is one coordinate `axis[k]` of the grid, else None."""
    if depth > 4:
        return None
    if isinstance(e, ast.Name):
        u = ctx.unique_def(e.id, at)
        return _coord(ctx, u[0], u[1], depth + 1) if u is not None else None
    if isinstance(e, ast.Subscript) and ctx.gridish(e, at):
        k = ctx.idx_kind(e.slice, e.value, at)
        if k is not None:
            return ctx.expand(e.value, at), k
    return None


def sign_of(ctx, e, at, depth=0):
    """(set of possible signs | None if outside the fragment, expression responsible for a '-')."""
    if depth > 8:
        return None, e
    if isinstance(e, ast.Constant):
        v = e.value
        if isinstance(v, (int, float)) and not isinstance(v, bool):
            return frozenset(POS if v > 0 else NEG if v < 0 else ZERO), e
        return None, e
    if isinstance(e, ast.UnaryOp) and isinstance(e.op, (ast.USub, ast.UAdd)):
        s, c = sign_of(ctx, e.operand, at, depth + 1)
        if s is None:
            return None, c
        return (_neg(s) if isinstance(e.op, ast.USub) else s), (e if NEG in _neg(s) else c)
    if isinstance(e, ast.BinOp):
        if isinstance(e.op, ast.Pow) and isinstance(e.right, ast.Constant) and isinstance(e.right.value, int) \
                and e.right.value % 2 == 0:
            return NONNEG, e
        if isinstance(e.op, ast.Sub):
            la, ra = _coord(ctx, e.left, at), _coord(ctx, e.right, at)
            if la is not None and ra is not None and astx.same(la[0], ra[0]):
                (_, ka), (_, kb) = la, ra
                # the grid is strictly increasing (checked by InterpND.__init__) and has >= 2 points
                if ka[0] == kb[0] and ka[1] != kb[1]:
                    return (frozenset(POS) if ka[1] > kb[1] else frozenset(NEG)), e
                if ka == kb:
                    return frozenset(ZERO), e
                if ka[0] == 'last' and kb[0] == 'first':
                    return (frozenset(POS) if (ka[1], kb[1]) == (0, 0) else NONNEG), e
                if ka[0] == 'first' and kb[0] == 'last':
                    return (frozenset(NEG) if (ka[1], kb[1]) == (0, 0) else frozenset((NEG, ZERO))), e
        a, ca = sign_of(ctx, e.left, at, depth + 1)
        b, cb = sign_of(ctx, e.right, at, depth + 1)
        if a is None:
            return None, ca
        if b is None:
            return None, cb
        if isinstance(e.op, (ast.Mult, ast.Div)):
            s = _mul(a, b)
            if isinstance(e.op, ast.Div):
                s = s - {ZERO} if ZERO not in a else s
        elif isinstance(e.op, ast.Add):
            s = _addsign(a, b)
        elif isinstance(e.op, ast.Sub):
            s = _addsign(a, _neg(b))
        else:
            return None, e
        culprit = ca if a == TOP else cb if b == TOP else e
        return s, culprit
    if isinstance(e, ast.Call):
        nm = astx.call_name(e)
        if nm in _ABS and len(e.args) == 1:
            return NONNEG, e
        if nm in ('np.sqrt', 'numpy.sqrt', 'math.sqrt', 'len') and len(e.args) == 1:
            return NONNEG, e
        if nm in ('float', 'np.float64', 'numpy.float64') and len(e.args) == 1:
            return sign_of(ctx, e.args[0], at, depth + 1)
        if nm in ('max', 'np.maximum', 'numpy.maximum') and len(e.args) >= 2 and not e.keywords:
            ss = [sign_of(ctx, a, at, depth + 1) for a in e.args]
            known = [s for s, _ in ss if s is not None]
            if any(s <= frozenset(POS) for s in known):
                return frozenset(POS), e
            if any(s <= NONNEG for s in known):
                return NONNEG, e
            if len(known) != len(ss):
                return None, e
            u = frozenset().union(*known)
            return u, next(c for s, c in ss if NEG in s) if NEG in u else e
        if nm in ('min', 'np.minimum', 'numpy.minimum') and len(e.args) >= 2 and not e.keywords:
            ss = [sign_of(ctx, a, at, depth + 1) for a in e.args]
            if any(s is None for s, _ in ss):
                bad = [c for s, c in ss if s is not None and NEG in s]
                if bad:
                    return TOP, bad[0]
                return None, e
            u = frozenset().union(*[s for s, _ in ss])
            return u, next((c for s, c in ss if NEG in s), e)
        return None, e
    if isinstance(e, ast.Name):
        ds = ctx.rd.defs(at, e.id)
        if not ds:
            return None, e
        out = set()
        culprit = e
        for d in ds:
            if d.kind == 'stmt' and isinstance(d.ast, ast.Assign) and len(d.ast.targets) == 1 and \
                    isinstance(d.ast.targets[0], ast.Name):
                s, c = sign_of(ctx, d.ast.value, d, depth + 1)
                if s is None:
                    return None, c
                if NEG in s:
                    culprit = c
                out |= s
            elif ctx.gridish(e, at):
                return TOP, e
            else:
                return None, e
        return frozenset(out), culprit
    if isinstance(e, (ast.Subscript, ast.Attribute)):
        if ctx.gridish(e, at):
            return TOP, e       # a table coordinate: any sign (the property quantifies over negative grids)
        return None, e
    return None, e


_CMPS = (ast.Lt, ast.LtE, ast.Gt, ast.GtE)
_FLIP = {ast.Lt: ast.Gt, ast.LtE: ast.GtE, ast.Gt: ast.Lt, ast.GtE: ast.LtE}
_COMPLEMENT = {ast.Lt: ast.GtE, ast.LtE: ast.Gt, ast.Gt: ast.LtE, ast.GtE: ast.Lt}


class BTest:
    """One comparison `point OP grid_end (+|-) tol` of an out-of-bounds test."""

    def __init__(self, cmp, kind, strict, point, end, end_at, sgn, tol, tol_at):
        self.cmp, self.kind, self.strict, self.point = cmp, kind, strict, point
        self.end, self.end_at, self.sgn, self.tol, self.tol_at = end, end_at, sgn, tol, tol_at
        self.neg = False        # True: written as the complementary in-bounds comparison (all(), min() >= ...)
        self.reduced = False    # True: the batch is reduced with min()/max() before the comparison
        self.wrong_red = None   # (reduction, side) when the minimum is compared with the upper end or vice versa


def _decomp(ctx, b, at, depth=0):
    """bound expression -> (end subscript, its node, sign of tol, tol expr, its node) or None / 'odd'."""
    if depth > 4:
        return None
    if isinstance(b, ast.Name):
        u = ctx.unique_def(b.id, at)
        if u is None:
            return None
        return _decomp(ctx, u[0], u[1], depth + 1)
    if isinstance(b, ast.Subscript) and ctx.gridish(b, at):
        return b, at, 0, None, at
    if isinstance(b, ast.BinOp) and isinstance(b.op, (ast.Add, ast.Sub)):
        l = _decomp(ctx, b.left, at, depth + 1)
        r = _decomp(ctx, b.right, at, depth + 1)
        if l and l != 'odd' and l[3] is None and not r:
            return l[0], l[1], (1 if isinstance(b.op, ast.Add) else -1), b.right, at
        if r and r != 'odd' and r[3] is None and not l and isinstance(b.op, ast.Add):
            return r[0], r[1], 1, b.left, at
        if l or r:
            return 'odd'
    return None


def _has_grid(ctx, e, at, depth=0):
    if depth > 4:
        return False
    for n in astx.walk(e):
        if isinstance(n, ast.Subscript) and ctx.gridish(n, at):
            return True
        if isinstance(n, ast.Name):
            u = ctx.unique_def(n.id, at)
            if u is not None and not isinstance(u[0], ast.Name) and _has_grid(ctx, u[0], u[1], depth + 1):
                return True
    return False


def bounds_tests(ctx, test, at):
    """BTests (and unrecognised grid comparisons) inside an `if` test."""
    good, odd = [], []
    for c in astx.walk(test):
        if not (isinstance(c, ast.Compare) and len(c.ops) == 1 and type(c.ops[0]) in _CMPS):
            continue
        l, r = c.left, c.comparators[0]
        gl, gr = _has_grid(ctx, l, at), _has_grid(ctx, r, at)
        if not gl and not gr:
            continue
        if gl and gr:
            odd.append((c, 'both sides refer to the grid'))
            continue
        op = type(c.ops[0])
        point, bound = (l, r) if gr else (r, l)
        if gl:
            op = _FLIP[op]
        neg = _reducer(c) == 'all'
        if neg:
            op = _COMPLEMENT[op]        # all(p >= lo) == not any(p < lo)
        red, inner = _minmax(point)
        d = _decomp(ctx, bound, at)
        if d is None or d == 'odd':
            odd.append((c, f'bound `{astx.src(bound)}` is not of the form grid_end, grid_end + tol or grid_end - tol'))
            continue
        end, end_at, sgn, tol, tol_at = d
        wrong_red = None
        if red is not None and not neg:
            # min(p) < lo == any(p < lo), max(p) > hi == any(p > hi); min(p) >= lo / max(p) <= hi are their negations.
            # Which end is meant is read from the bound, the reduction must then be the matching one.
            ek = ctx.idx_kind(end.slice, end.value, end_at)
            side = 'low' if ek == ('first', 0) else 'high' if ek == ('last', 0) else \
                ('low' if op in (ast.Lt, ast.LtE) else 'high')
            if red != ('min' if side == 'low' else 'max'):
                wrong_red = (red, side)
            elif (op in (ast.Lt, ast.LtE)) != (side == 'low'):
                neg = True
                op = _COMPLEMENT[op]
            point = inner
        bt = BTest(c, 'low' if op in (ast.Lt, ast.LtE) else 'high', op in (ast.Lt, ast.Gt), point,
                   end, end_at, sgn, tol, tol_at)
        bt.neg = neg
        bt.reduced = red is not None
        bt.wrong_red = wrong_red
        good.append(bt)
    return good, odd


def _minmax(e):
    """('min'|'max', array expression) when e is np.min(a) / np.amax(a) / a.min() / min(a) ..., else (None, e)."""
    if isinstance(e, ast.Call) and not e.keywords:
        nm = astx.callee_attr(e)
        kind = {'min': 'min', 'amin': 'min', 'nanmin': 'min', 'max': 'max', 'amax': 'max', 'nanmax': 'max'}.get(nm)
        if kind:
            if len(e.args) == 1 and (isinstance(e.func, ast.Name) or astx.path(e.func.value) in ('np', 'numpy')):
                return kind, e.args[0]
            if not e.args and isinstance(e.func, ast.Attribute):
                return kind, e.func.value
    return None, e


def _reducer(c):
    """'any' / 'all' when expression c is the argument of (np.)any/all(...) or the receiver of .any()/.all()."""
    while isinstance(getattr(c, '_parent', None), ast.BinOp) and isinstance(c._parent.op, (ast.BitOr, ast.BitAnd)):
        c = c._parent
    p = getattr(c, '_parent', None)
    if isinstance(p, ast.Call) and c in p.args and astx.callee_attr(p) in ('any', 'all'):
        return astx.callee_attr(p)
    if isinstance(p, ast.Attribute) and p.attr in ('any', 'all') and isinstance(getattr(p, '_parent', None), ast.Call) \
            and not p._parent.args:
        return p.attr
    return None


def oob_formula(test, good):
    """The `if` test as a boolean function of L ("some point below the lower end") and H ("some point above the
    upper end"): returns f(L, H) -> bool, or None when the test is not built from the recognised comparisons
    with not / and / or / any / all / elementwise | only."""
    by_id = {id(bt.cmp): bt for bt in good}

    def build(e, elementwise=False):
        if isinstance(e, ast.BoolOp) and not elementwise:
            subs = [build(v) for v in e.values]
            if any(f is None for f in subs):
                return None
            if isinstance(e.op, ast.And):
                return lambda L, H: all(f(L, H) for f in subs)
            return lambda L, H: any(f(L, H) for f in subs)
        if isinstance(e, ast.UnaryOp) and isinstance(e.op, ast.Not) and not elementwise:
            f = build(e.operand)
            return None if f is None else (lambda L, H: not f(L, H))
        if isinstance(e, ast.Call) and not elementwise:
            arg = None
            if astx.callee_attr(e) in ('any', 'all'):
                if len(e.args) == 1 and not e.keywords:
                    arg = e.args[0]
                elif not e.args and isinstance(e.func, ast.Attribute):
                    arg = e.func.value
            if arg is None:
                return None
            if astx.callee_attr(e) == 'any':
                return build(arg, elementwise='any')
            f = build(arg, elementwise='all')
            return f
        if isinstance(e, ast.BinOp) and isinstance(e.op, (ast.BitOr, ast.BitAnd)) and elementwise:
            # any(a | b) == any(a) or any(b);  all(a & b) == all(a) and all(b)
            if (elementwise == 'any') != isinstance(e.op, ast.BitOr):
                return None
            a, b = build(e.left, elementwise), build(e.right, elementwise)
            if a is None or b is None:
                return None
            if elementwise == 'any':
                return lambda L, H: a(L, H) or b(L, H)
            return lambda L, H: a(L, H) and b(L, H)
        if isinstance(e, ast.Compare) and id(e) in by_id:
            bt = by_id[id(e)]
            low = bt.kind == 'low'
            if elementwise == 'all':
                if not bt.neg:
                    return None
                return (lambda L, H: not L) if low else (lambda L, H: not H)
            if bt.neg:
                if not bt.reduced:
                    return None
                return (lambda L, H: not L) if low else (lambda L, H: not H)
            return (lambda L, H: L) if low else (lambda L, H: H)
        return None
    return build(test)


def raise_side(test, good):
    """('true'|'false', None) = the branch of the `if` taken exactly when a point is out of bounds;
    (None, reason) when the test is something else; (None, None) when it is not recognised."""
    f = oob_formula(test, good)
    if f is None:
        return None, None
    kinds = {bt.kind for bt in good}
    table = {(L, H): bool(f(L, H)) for L in (False, True) for H in (False, True)
             if (L <= ('low' in kinds)) and (H <= ('high' in kinds))}
    if all(v == (L or H) for (L, H), v in table.items()):
        return 'true', None
    if all(v == (not (L or H)) for (L, H), v in table.items()):
        return 'false', None
    if all(v == (L and H) for (L, H), v in table.items()) or all(v == (not (L and H)) for (L, H), v in table.items()):
        return None, ('the lower and upper tests are combined so that a point only counts as out of bounds when it is '
                      'below the lower end and above the upper end at once')
    return None, 'the combination of the lower and upper tests is not "below the lower end or above the upper end"'


def _is_oob_raise(st):
    if not isinstance(st, ast.Raise) or st.exc is None:
        return False
    e = st.exc.func if isinstance(st.exc, ast.Call) else st.exc
    return (astx.path(e) or '').split('.')[-1] == 'OutOfBoundsError'


def guarded_raises(fn):
    """[(raise stmt, [(If stmt, 'body'|'orelse')] innermost first)] for every raise OutOfBoundsError."""
    out = []
    for st in astx.walk_stmts(fn.node.body):
        if _is_oob_raise(st):
            chain = []
            cur = st
            for a in astx.ancestors(st):
                if a is fn.node:
                    break
                if isinstance(a, ast.If):
                    chain.append((a, 'body' if cur in a.body else 'orelse'))
                cur = a
            out.append((st, chain))
    return out


def slack_verdict(ctx, bt):
    """('ok'|'bad'|'unsure', message) for the tolerance of one bounds comparison."""
    if bt.tol is None:
        return 'ok', 'no tolerance (exact comparison with the grid end)', frozenset(ZERO)
    s, culprit = sign_of(ctx, bt.tol, bt.tol_at)
    if s is None:
        return 'unsure', f'sign of tolerance `{astx.src(bt.tol)}` not decidable (`{astx.src(culprit)}`)', None
    eff = s if (bt.sgn > 0) == (bt.kind == 'high') else _neg(s)
    if NEG in eff:
        how = 'added to' if bt.sgn > 0 else 'subtracted from'
        if s <= NONNEG:
            why = (f'tolerance `{astx.src(bt.tol)}` is {how} the {"lower" if bt.kind == "low" else "upper"} '
                   f'end: the accepted interval shrinks and in-bounds boundary points are rejected')
        else:
            why = (f'tolerance `{astx.src(bt.tol)}` can be negative because `{astx.src(culprit)}` has the sign '
                   f'of a grid coordinate: on a grid with negative coordinates the accepted interval shrinks '
                   f'and in-bounds boundary points are rejected')
        return 'bad', why, eff
    return 'ok', f'tolerance `{astx.src(bt.tol)}` is >= 0 for every grid', eff


def flag_value(test, val):
    """Truth value of an `if` test over the extrapolate flag when the flag has value *val* (None: unknown)."""
    if isinstance(test, (ast.Attribute, ast.Name)):
        p = astx.path(test) or ''
        if p.split('.')[-1] == 'extrapolate':
            return val
        return None
    if isinstance(test, ast.Subscript) and astx.const_str(test.slice) == 'extrapolate':
        return val
    if isinstance(test, ast.UnaryOp) and isinstance(test.op, ast.Not):
        v = flag_value(test.operand, val)
        return None if v is None else not v
    if isinstance(test, ast.Compare) and len(test.ops) == 1 and isinstance(test.comparators[0], ast.Constant) \
            and isinstance(test.comparators[0].value, bool):
        v = flag_value(test.left, val)
        if v is None:
            return None
        k = test.comparators[0].value
        if isinstance(test.ops[0], (ast.Is, ast.Eq)):
            return v == k
        if isinstance(test.ops[0], (ast.IsNot, ast.NotEq)):
            return v != k
        return None
    if isinstance(test, ast.BoolOp):
        vs = [flag_value(v, val) for v in test.values]
        if isinstance(test.op, ast.And):
            if any(v is False for v in vs):
                return False
            return None if any(v is None for v in vs) else True
        if any(v is True for v in vs):
            return True
        return None if any(v is None for v in vs) else False
    return None


def _mentions_flag(e):
    return astx.mentions(e, 'extrapolate')


# ================================================================================== C15.eps (SIGN)
@rule('C15.eps', floor=4)
def eps(repo, out):
    """Every out-of-bounds comparison `x < lo - t` / `x > hi + t` has a tolerance t >= 0 for every grid sign."""
    seen_anchor = 0
    anchor = bounds_site(repo)[0]
    for rel in SCAN:
        if not repo.exists(rel):
            continue
        if 'OutOfBoundsError' not in repo.source(rel):
            continue
        for fn in repo.module(rel).funcs.values():
            if not any(_is_oob_raise(st) for st in astx.walk_stmts(fn.node.body)):
                continue
            ctx = Ctx(fn)
            for ifst, good, odd in _bounds_ifs(ctx):
                ends = [bt for bt in good if bt.tol is not None or
                        ctx.idx_kind(bt.end.slice, bt.end.value, bt.end_at) in (('first', 0), ('last', 0))]
                if not ends:
                    continue        # a comparison of the search itself (grid[low]), not an out-of-bounds decision
                for c, why in odd:
                    out.unsure(fn, c, why)
                for bt in ends:
                    v, why, _ = slack_verdict(ctx, bt)
                    if v == 'unsure':
                        out.unsure(fn, bt.cmp, why)
                        continue
                    if v == 'ok':
                        out.ok(fn, bt.cmp, why)
                    else:
                        out.bad(fn, bt.cmp, why, key=f'tolerance-{bt.kind}')
                    if (rel, fn.qualname) == (anchor.rel, anchor.qualname):
                        seen_anchor += 1
    if seen_anchor < 2:
        raise AnalysisError('the two bounds comparisons of InterpND._interpolate were not recognised')


# ============================================================================== C15.bounds (BOOL)
def _reduced(c):
    """True if the elementwise comparison c (possibly combined with | or &) is reduced by any()/all()."""
    e = c
    if isinstance(c, ast.Compare) and (_minmax(c.left)[0] or _minmax(c.comparators[0])[0]):
        return True
    while isinstance(getattr(e, '_parent', None), ast.BinOp) and isinstance(e._parent.op, (ast.BitOr, ast.BitAnd)):
        e = e._parent
    return _reducer(e) is not None


def _walk_flag_false(g, starts, stop=()):
    """Nodes reachable on normal edges when the extrapolate flag is False (flag tests take one branch only)."""
    seen = set(starts)
    dq = deque(starts)
    stop = set(stop)
    while dq:
        n = dq.popleft()
        if n in stop:
            continue
        allowed = None
        if n.kind == 'test' and isinstance(n.ast, ast.If) and _mentions_flag(n.ast.test):
            v = flag_value(n.ast.test, False)
            if v is not None:
                allowed = 'true' if v else 'false'
        for m, lab in g.succ[n]:
            if lab == 'exc' or m in seen:
                continue
            if allowed is not None and lab in ('true', 'false') and lab != allowed:
                continue
            seen.add(m)
            dq.append(m)
    return seen


def _escapes(ctx, ifst, side='true'):
    """A node showing that the out-of-bounds side of *ifst* can continue normally when the flag is off (it
    reaches the function exit or the header of an enclosing loop, i.e. the next axis / search step), or None."""
    g = ctx.g
    stops = set()
    for a in astx.ancestors(ifst):
        if a is ctx.fn.node:
            break
        if isinstance(a, (ast.For, ast.While)):
            stops.update(g.nodes_of(a))
    for t in g.nodes_of(ifst):
        starts = [m for m, lab in g.succ[t] if lab == side]
        for n in _walk_flag_false(g, starts, stop=stops):
            if n is g.exit or n in stops:
                return n
    return None


def _bounds_ifs(ctx):
    """[(If, recognised BTests, unrecognised grid comparisons)] of a function."""
    res = []
    for st in astx.walk_stmts(ctx.fn.node.body):
        if isinstance(st, ast.If):
            at = ctx.g.nodes_of(st)
            if not at:
                continue
            good, odd = bounds_tests(ctx, st.test, at[0])
            if good or odd:
                res.append((st, good, odd))
    return res


def _flag_guard(out, fn, stmt, what):
    """The statement runs whenever the extrapolate flag is False (judged on its enclosing ifs)."""
    verdict = True
    cur = stmt
    for a in astx.ancestors(stmt):
        if a is fn.node:
            break
        if isinstance(a, ast.If) and _mentions_flag(a.test):
            want = cur in a.body
            v = flag_value(a.test, False)
            if v is None:
                out.unsure(fn, a, f'guard of {what} over the extrapolate flag not recognised')
                return None
            if v != want:
                out.bad(fn, a, f'{what} is skipped when extrapolate is False (it sits in the '
                        f'{"true" if want else "else"} branch of `{astx.src(a.test)}`): out-of-bounds points '
                        'are extrapolated silently', key='flag-guard')
                verdict = False
        cur = a
    return verdict


def bounds_site(repo):
    """(function holding the bounds loop, its Ctx, the statement of InterpND._interpolate that reaches it).

    The loop lives in InterpND._interpolate itself, or in a method of InterpND that _interpolate calls with its
    points argument (`self._check_bounds(xi)`); in that case the third item is the calling statement."""
    top = repo.func(INTERP, 'InterpND._interpolate')
    ctx = Ctx(top)
    if any(astx.enclosing(i_, (ast.For,)) is not None for i_, g_, o_ in _bounds_ifs(ctx) if g_ or o_):
        return top, ctx, None
    xi = top.node.args.args[1].arg if len(top.node.args.args) > 1 else None
    mod = repo.module(INTERP)
    for st in astx.walk_stmts(top.node.body):
        if not isinstance(st, (ast.Expr, ast.Assign)):
            continue
        c = st.value
        if isinstance(c, ast.Call) and isinstance(c.func, ast.Attribute) and astx.path(c.func.value) == 'self':
            h = mod.funcs.get(f'InterpND.{c.func.attr}')
            if h is None or len(h.node.args.args) < 2:
                continue
            hctx = Ctx(h)
            if not any(astx.enclosing(i_, (ast.For,)) is not None for i_, g_, o_ in _bounds_ifs(hctx) if g_ or o_):
                continue
            hp = h.node.args.args[1].arg
            passed = c.args[0] if c.args else astx.kwarg(c, hp)
            if passed is None or astx.path(passed) != xi:
                raise AnalysisError(f'{h.qualname} is not called with the points `{xi}` of _interpolate')
            return h, hctx, st
    raise AnalysisError('no comparison of the requested points with the grid ends found inside a loop of '
                        'InterpND._interpolate or of a method it calls with its points')


@rule('C15.bounds', floor=9)
def bounds(repo, out):
    """Bounds test: lower end with `<`, upper end with `>`, same axis as the tested column, or-joined, raising."""
    # ------------------------------------------------------------------ InterpND._interpolate
    fn, ctx, call_st = bounds_site(repo)
    g = ctx.g
    xi = fn.node.args.args[1].arg if len(fn.node.args.args) > 1 else None
    cands = [(i_, g_, o_) for i_, g_, o_ in _bounds_ifs(ctx) if astx.enclosing(i_, (ast.For,)) is not None]
    if not cands:
        raise AnalysisError('no comparison of the requested points with the grid ends found inside a loop of '
                            'InterpND._interpolate')
    if len(cands) > 1:
        raise AnalysisError('more than one bounds test in InterpND._interpolate')
    ifst, good, odd = cands[0]
    # (1) the loop walks the columns of xi together with their axis number
    loop = astx.enclosing(ifst, (ast.For,))
    col_ok = False
    ivar = pvar = None
    if loop is not None and isinstance(loop.iter, ast.Call) and astx.call_name(loop.iter) == 'enumerate' and \
            len(loop.iter.args) == 1 and isinstance(loop.target, ast.Tuple) and len(loop.target.elts) == 2 and \
            all(isinstance(e, ast.Name) for e in loop.target.elts):
        ivar, pvar = (e.id for e in loop.target.elts)
        src_ = loop.iter.args[0]
        base = None
        if isinstance(src_, ast.Attribute) and src_.attr == 'T':
            base = src_.value
        elif isinstance(src_, ast.Call) and astx.callee_attr(src_) == 'transpose':
            base = src_.args[0] if src_.args else astx.receiver(src_)
        if base is not None and astx.path(base) == xi:
            col_ok = True
            out.ok(fn, loop, 'bounds loop enumerates the columns (one per table axis) of the requested points')
        elif astx.path(src_) == xi:
            out.bad(fn, loop, f'bounds loop enumerates the rows of `{xi}` (one per requested point) but indexes '
                    'self.grid with the row number: points are compared with the wrong axis', key='columns')
        else:
            out.unsure(fn, loop, 'iterable of the bounds loop not recognised')
    else:
        out.unsure(fn, ifst, 'bounds test is not inside `for i, p in enumerate(xi.T)`')
        loop = None
    # (2) pairing of ends, axis, point, connective
    for c, why in odd:
        out.unsure(fn, c, why)
    if not odd and col_ok:
        problems = []
        kinds = {bt.kind for bt in good}
        for bt in good:
            ek = ctx.idx_kind(bt.end.slice, bt.end.value, bt.end_at)
            want = ('first', 0) if bt.kind == 'low' else ('last', 0)
            if ek is None:
                out.unsure(fn, bt.cmp, f'index `{astx.src(bt.end.slice)}` of the grid end not recognised')
                problems = None
                break
            if ek != want:
                problems.append((bt.cmp, f'a point is rejected when it is {"below" if bt.kind == "low" else "above"} '
                                 f'`{astx.src(bt.end)}`, which is not the {want[0]} grid coordinate of the axis', 'end'))
            if bt.wrong_red:
                red, side = bt.wrong_red
                problems.append((bt.cmp, f'the {"maximum" if red == "max" else "minimum"} of the requested coordinates is '
                                 f'compared with the {"lower" if side == "low" else "upper"} end `{astx.src(bt.end)}`: a '
                                 f'batch is only rejected when all of its points lie {"below" if side == "low" else "above"} '
                                 'the grid, a single outlier among in-bounds points is extrapolated silently', 'reduction'))
            axis = ctx.expand(bt.end.value, bt.end_at)
            if not (isinstance(axis, ast.Subscript) and astx.path(axis.value) == 'self.grid' and
                    isinstance(axis.slice, ast.Name) and axis.slice.id == ivar):
                problems.append((bt.cmp, f'column {ivar} of the points is compared with `{astx.src(axis)}` instead of '
                                 f'self.grid[{ivar}]', 'axis'))
            if not _reduced(bt.cmp):
                out.unsure(fn, bt.cmp, 'elementwise comparison is not reduced with any() / all()')
                problems = None
                break
            if not (isinstance(bt.point, ast.Name) and bt.point.id == pvar):
                if isinstance(bt.point, ast.Name):
                    problems.append((bt.cmp, f'`{bt.point.id}` is tested instead of the column `{pvar}`', 'point'))
                else:
                    out.unsure(fn, bt.cmp, f'tested quantity `{astx.src(bt.point)}` not recognised')
                    problems = None
                    break
        if problems is not None:
            if kinds != {'low', 'high'}:
                missing = ({'low', 'high'} - kinds).pop()
                problems.append((ifst, f'no test against the {"lower" if missing == "low" else "upper"} end of the '
                                 'grid: points beyond it are not rejected', 'missing-' + missing))
            # connective: the raising branch is taken exactly when a point is below the lower or above the upper end
            side, why_ = raise_side(ifst.test, good)
            if side is None and why_ is None:
                out.unsure(fn, ifst, 'structure of the bounds test (not/and/or/any/all over the two comparisons) not '
                           'recognised')
                problems = None
            elif side is None:
                problems.append((ifst, why_, 'connective'))
        if problems is not None:
            for node, why, key in problems:
                out.bad(fn, node, why, key=key)
            if not problems:
                out.ok(fn, ifst, f'rejects {pvar} < self.grid[{ivar}][0] - tol or {pvar} > self.grid[{ivar}][-1] + tol')
        # (3) strictness
        for bt in good:
            v, _, eff = slack_verdict(ctx, bt)
            if v == 'unsure':
                continue
            if not bt.strict and eff is not None and ZERO in eff:
                out.bad(fn, bt.cmp, f'non-strict comparison `{astx.src(bt.cmp)}`: when the tolerance is 0 (grid end '
                        'at coordinate 0) the boundary point itself is rejected', key='strict-' + bt.kind)
            else:
                out.ok(fn, bt.cmp, 'boundary point is accepted')
    # (4) the true branch raises on every path, and nothing leaves the loop before every axis was tested
    side = raise_side(ifst.test, good)[0] if (good and not odd) else None
    w = _escapes(ctx, ifst, side) if side else None
    region = set()
    for t_ in g.nodes_of(ifst):
        region |= _walk_flag_false(g, [m for m, lab in g.succ[t_] if lab == side]) if side else set()
    oob = [n.ast for n in region if n.kind == 'stmt' and _is_oob_raise(n.ast)]
    if side is None:
        pass            # already reported above (connective wrong or not recognised)
    elif w is not None:
        out.bad(fn, ifst, f'out-of-bounds branch can continue normally (reaches `{w.text()[:60]}`): no error is '
                'raised for a point outside the grid', key='raises')
    elif not oob:
        out.unsure(fn, ifst, 'out-of-bounds branch does not raise OutOfBoundsError itself')
    else:
        out.ok(fn, oob[0], 'out-of-bounds branch ends in raise OutOfBoundsError on every path')
    if loop is not None:
        hdrs = g.nodes_of(loop)
        body_entry = [m for h in hdrs for m, lab in g.succ[h] if lab == 'true']
        left = [n for n in _walk_flag_false(g, body_entry, stop=hdrs)
                if n not in hdrs and (n is g.exit or (n.kind not in ('entry', 'raise', 'join')
                                                      and not g.inside(n, loop, 'body')))]
        if left:
            out.bad(fn, loop, f'the bounds loop can be left before all axes were tested (reaches '
                    f'`{left[0].text()[:60]}` without returning to the loop header): the remaining coordinates are '
                    'never compared with their grid', key='all-axes')
        else:
            out.ok(fn, loop, 'every axis is tested: the loop is only left by exhaustion or by the raise')
    # (5) runs whenever the flag is off
    top = repo.func(INTERP, 'InterpND._interpolate')
    if loop is not None and _flag_guard(out, fn, loop, 'the bounds check') and \
            (call_st is None or _flag_guard(out, top, call_st, f'the call of {fn.qualname}')):
        out.ok(top if call_st is not None else fn, call_st if call_st is not None else loop,
               'bounds check runs whenever self.extrapolate is False')
    # ------------------------------------------------------------------ semi-structured bracket
    fs = repo.func(ALGO, 'InterpAlgorithmSemi.bracket')
    cs = Ctx(fs)
    xs = fs.node.args.args[1].arg
    n = 0
    ENDS = {('first', 0): 'low', ('last', 0): 'high'}
    for ifst2, good2, odd2 in _bounds_ifs(cs):
        raises = [r for r in astx.walk_stmts(ifst2.body) if _is_oob_raise(r)]
        kinds = [(bt, cs.idx_kind(bt.end.slice, bt.end.value, bt.end_at)) for bt in good2]
        if not raises and not any(ek in ENDS and ENDS[ek] == bt.kind for bt, ek in kinds):
            continue        # a comparison of the search itself, not an out-of-bounds decision
        for c, why in odd2:
            out.unsure(fs, c, why)
        okk = True
        for bt, ek in kinds:
            want = ('first', 0) if bt.kind == 'low' else ('last', 0)
            if ek is None:
                out.unsure(fs, bt.cmp, f'index `{astx.src(bt.end.slice)}` not recognised')
                okk = None
                break
            if ek != want:
                out.bad(fs, bt.cmp, f'x counts as out of bounds when it is {"below" if bt.kind == "low" else "above"} '
                        f'`{astx.src(bt.end)}`, which is not the {want[0]} coordinate', key='semi-end-' + bt.kind)
                okk = False
            if not (isinstance(bt.point, ast.Name) and bt.point.id == xs):
                out.unsure(fs, bt.cmp, 'tested quantity not recognised')
                okk = None
                break
            v, why, eff = slack_verdict(cs, bt)
            if v == 'bad':
                out.bad(fs, bt.cmp, why, key='semi-tolerance-' + bt.kind)
                okk = False
            elif v == 'ok' and not bt.strict and ZERO in eff:
                out.bad(fs, bt.cmp, f'non-strict `{astx.src(bt.cmp)}`: the boundary node itself counts as out of bounds',
                        key='semi-strict-' + bt.kind)
                okk = False
        if okk is None or odd2:
            continue
        side = good2[0].kind
        rs = raise_side(ifst2.test, good2)[0]
        if rs != 'true':
            out.unsure(fs, ifst2, 'out-of-bounds decision is not a plain comparison with the grid end')
            continue
        w = _escapes(cs, ifst2, rs)
        if w is not None:
            out.bad(fs, ifst2, f'with extrapolate False a point {"below" if side == "low" else "above"} the grid does '
                    f'not raise: the branch continues normally to `{w.text()[:50]}`', key='semi-raise-' + side)
            okk = False
        elif not raises:
            out.unsure(fs, ifst2, 'branch does not return but raises something else than OutOfBoundsError')
            continue
        # ... and only then: with the flag on the same branch must not raise
        for r in raises:
            guards = [a for a in astx.ancestors(r) if isinstance(a, ast.If) and a is not ifst2 and
                      astx.in_body(a, ifst2, 'body') and _mentions_flag(a.test)]
            if not guards:
                out.bad(fs, r, 'OutOfBoundsError is raised regardless of the extrapolate flag', key='semi-flag-' + side)
                okk = False
        if okk:
            n += 1
            out.ok(fs, ifst2, f'raises exactly when extrapolate is False and `{astx.src(ifst2.test)}`')
    out.count('semi_bracket_tests', n)
    if n < 2:
        sides = {bt.kind for i_, g_, o_ in _bounds_ifs(cs) for bt in g_
                 if cs.idx_kind(bt.end.slice, bt.end.value, bt.end_at) in ENDS}
        for side in ('low', 'high'):
            if side not in sides:
                out.bad(fs, fs.node, f'no test of x against the {"first" if side == "low" else "last"} grid coordinate: '
                        f'a point {"below" if side == "low" else "above"} the grid never raises', key='semi-raise-' + side)


# ============================================================================== C15.order (ORDER)
def _flag_paths(ctx, targets, avoid):
    """A path entry -> target along edges that are feasible when the extrapolate flag is False."""
    g = ctx.g
    avoid = set(avoid)
    targets = set(targets)
    par = {g.entry: None}
    dq = deque([g.entry])
    while dq:
        n = dq.popleft()
        if n in targets:
            p = []
            while n is not None:
                p.append(n)
                n = par[n]
            return p[::-1]
        allowed = None
        if n.kind == 'test' and isinstance(n.ast, ast.If) and _mentions_flag(n.ast.test):
            v = flag_value(n.ast.test, False)
            if v is not None:
                allowed = 'true' if v else 'false'
        for m, lab in g.succ[n]:
            if lab == 'exc' or m in avoid or m in par:
                continue
            if allowed is not None and lab in ('true', 'false') and lab != allowed:
                continue
            par[m] = n
            dq.append(m)
    return None


@rule('C15.order', floor=4)
def order(repo, out):
    """With extrapolate off, no table is evaluated before the bounds loop; callers go through _interpolate."""
    fn = repo.func(INTERP, 'InterpND._interpolate')
    ctx = Ctx(fn)
    g = ctx.g
    loops = []
    bfn, bctx, call_st = bounds_site(repo)
    if call_st is not None:
        loops.extend(g.nodes_of(call_st))      # the bounds loop runs inside this call
        hg = bctx.g
        hl = [n for i_, g_, _o in _bounds_ifs(bctx) if g_ for lp in [astx.enclosing(i_, (ast.For,))] if lp is not None
              for n in hg.nodes_of(lp)]
        # ... on every path through the helper
        if not hl or hg.path([hg.entry], [hg.exit], avoid=hl, labels=cfgm.noexc) is not None:
            out.bad(bfn, bfn.node, f'{bfn.qualname} can return without entering its bounds loop', key='helper-skips-loop')
    for ifst, good, _ in ([] if call_st is not None else _bounds_ifs(ctx)):
        lp = astx.enclosing(ifst, (ast.For,))
        if lp is not None and good:
            loops.extend(g.nodes_of(lp))
    if not loops:
        raise AnalysisError('bounds loop of InterpND._interpolate not found')
    evals = g.calling('evaluate', 'evaluate_vectorized', 'interpolate', 'interpolate_vectorized')
    if not evals:
        raise AnalysisError('no table evaluation found in InterpND._interpolate')
    for ev in evals:
        w = _flag_paths(ctx, [ev], loops)
        if w is None:
            out.ok(fn, ev.ast, 'reached only after the bounds loop when extrapolate is False')
        else:
            out.bad(fn, ev.ast, 'table evaluated without passing the bounds check although extrapolate is False: '
                    + g.fmt_path(w), key='evaluate-before-check')
    # public entry point and the component use the checked path
    for rel, qn, recv in ((INTERP, 'InterpND.interpolate', 'self'), (MMS, 'MetaModelStructuredComp.compute', None)):
        f2 = repo.func(rel, qn)
        g2 = cfgm.build(f2)
        direct = [n for n in g2.calling('evaluate', 'evaluate_vectorized', 'interpolate_vectorized')]
        via = g2.calling('_interpolate') + (g2.calling('interpolate') if recv is None else [])
        if direct:
            out.bad(f2, direct[0].ast, 'evaluates the table directly, bypassing the bounds check of '
                    'InterpND._interpolate', key='bypass')
        elif not via:
            out.bad(f2, f2.node, 'does not call InterpND._interpolate any more: no bounds check on this path',
                    key='bypass')
        else:
            out.ok(f2, via[0].ast, 'interpolates through InterpND._interpolate (bounds check included)')


# ========================================================================== C15.propagate (GATE)
def _param_default(fn, name):
    a = fn.node.args
    params = [p.arg for p in a.args]
    if name not in params:
        return 'absent'
    k = params.index(name) - (len(params) - len(a.defaults))
    if k < 0:
        return 'required'
    d = a.defaults[k]
    return d.value if isinstance(d, ast.Constant) else 'unknown'


def _cannot_carry_flag(repo, fn, e):
    """True if the mapping expression *e* (used as **e) cannot contain the key 'extrapolate'."""
    def binds(f, name):
        return f.node.args.kwarg is not None and f.node.args.kwarg.arg == name and \
            'extrapolate' in [p.arg for p in f.node.args.args]
    if isinstance(e, ast.Name):
        return binds(fn, e.id)          # the function's own **kwargs, and it has a named extrapolate parameter
    p = astx.path(e)
    if p and p.startswith('self.') and fn.cls is not None:
        init = repo.module(fn.rel).funcs.get(f'{fn.cls.name}.__init__')
        if init is None:
            return False
        stores = [st for st in astx.walk_stmts(init.node.body) if isinstance(st, ast.Assign) and
                  any(astx.path(t) == p for t in st.targets)]
        return bool(stores) and all(isinstance(st.value, ast.Name) and binds(init, st.value.id) for st in stores)
    return False


def _check_flag_kw(out, fn, call, accepted, callee_default, what):
    kw = astx.kwarg(call, 'extrapolate')
    if kw is None:
        if any(k.arg is None for k in call.keywords):
            star = [k.value for k in call.keywords if k.arg is None]
            # **kwargs can only carry the flag if the function that received them does not bind it itself
            if not all(_cannot_carry_flag(out.repo, fn, e) for e in star):
                out.unsure(fn, call, f'extrapolate may travel inside **{astx.src(star[0])}')
                return
        if callee_default is False:
            out.ok(fn, call, f'{what}: flag not forwarded but the callee defaults to raising (extrapolate=False)')
        else:
            out.bad(fn, call, f'{what}: the extrapolate flag is not forwarded and the callee defaults to '
                    f'extrapolate={callee_default!r}: with extrapolate=False no OutOfBoundsError is ever raised and '
                    'points outside the grid are extrapolated silently', key='flag-dropped')
        return
    if isinstance(kw, ast.Name) and astx.path(kw) not in accepted:
        c_ = Ctx(fn)
        u = c_.unique_def(kw.id, c_.at(call))
        if u is not None:
            kw = u[0]
    p = astx.path(kw)
    if p in accepted or (isinstance(kw, ast.Subscript) and astx.path(kw.value) == 'self.options' and
                         astx.const_str(kw.slice) == 'extrapolate' and "self.options['extrapolate']" in accepted):
        out.ok(fn, call, f'{what}: extrapolate={astx.src(kw)}')
    elif isinstance(kw, ast.Constant):
        if kw.value is False:
            out.ok(fn, call, f'{what}: always raises out of bounds (extrapolate=False)')
        else:
            out.bad(fn, call, f'{what}: extrapolate is hard-wired to {kw.value!r}: the caller\'s extrapolate=False '
                    'is ignored', key='flag-dropped')
    elif isinstance(kw, ast.UnaryOp) and isinstance(kw.op, ast.Not) and astx.path(kw.operand) in accepted:
        out.bad(fn, call, f'{what}: the extrapolate flag is inverted', key='flag-dropped')
    else:
        out.unsure(fn, call, f'{what}: value `{astx.src(kw)}` of extrapolate not recognised')


def _handler_raises(out, fn):
    """Every `except OutOfBoundsError` handler ends in a raise on all paths."""
    g = cfgm.build(fn)
    n = 0
    for hn in [x for x in g.nodes if x.kind == 'except']:
        h = hn.ast
        t = h.type
        names = [astx.path(e) for e in (t.elts if isinstance(t, ast.Tuple) else [t])] if t is not None else ['*']
        if not any(nm and nm.split('.')[-1] in ('OutOfBoundsError', 'Exception', 'BaseException', '*')
                   for nm in names):
            continue
        n += 1
        leak = None
        for x in g.reach([hn], labels=cfgm.noexc):
            if x is g.exit:
                leak = x
                break
            if x.kind in ('entry', 'raise', 'join', 'except'):
                continue
            cur = x.ast
            inside = False
            while cur is not None:
                if cur is h:
                    inside = True
                    break
                cur = getattr(cur, '_parent', None)
            if not inside:
                leak = x
                break
        if leak is None:
            out.ok(fn, h, 'OutOfBoundsError is re-raised (as AnalysisError) on every path')
        else:
            out.bad(fn, h, f'the handler of {", ".join(x or "?" for x in names)} can complete normally: an '
                    'out-of-bounds point yields a stale or missing output instead of an error', key='swallowed')
    return n


@rule('C15.propagate', floor=11)
def propagate(repo, out):
    """The component's extrapolate option reaches the object that decides; OutOfBoundsError is never swallowed."""
    nd_init = repo.func(INTERP, 'InterpND.__init__')
    semi_init = repo.func(SEMI, 'InterpNDSemi.__init__')
    algo_semi = repo.func(ALGO, 'InterpAlgorithmSemi.__init__')
    # component -> interpolator object
    for rel, qn, cls, init in ((MMS, 'MetaModelStructuredComp._setup_var_data', 'InterpND', nd_init),
                               (MMSS, 'MetaModelSemiStructuredComp._setup_var_data', 'InterpNDSemi', semi_init)):
        fn = repo.func(rel, qn)
        calls = [c for c in astx.calls(fn.node) if astx.call_name(c) == cls]
        if not calls:
            raise AnalysisError(f'{fn.ident}: construction of {cls} not found')
        for c in calls:
            _check_flag_kw(out, fn, c, {"self.options['extrapolate']"}, _param_default(init, 'extrapolate'),
                           f'{cls}(...)')
    # interpolator object stores the flag unchanged
    for init in (nd_init, semi_init):
        stores = [st for st in astx.walk_stmts(init.node.body) if isinstance(st, ast.Assign) and
                  any(astx.path(t) == 'self.extrapolate' for t in st.targets)]
        if not stores:
            out.bad(init, init.node, 'self.extrapolate is never stored: the bounds decision reads a missing attribute',
                    key='flag-store')
        for st in stores:
            if astx.path(st.value) == 'extrapolate':
                out.ok(init, st, 'flag stored unchanged')
            elif isinstance(st.value, ast.Constant) or (isinstance(st.value, ast.UnaryOp) and
                                                        astx.path(st.value.operand) == 'extrapolate'):
                out.bad(init, st, f'self.extrapolate = {astx.src(st.value)} does not keep the caller\'s flag',
                        key='flag-store')
            else:
                out.unsure(init, st, 'stored value of the flag not recognised')
    # semi-structured: the decision is taken inside the table objects (InterpAlgorithmSemi.bracket)
    dflt = _param_default(algo_semi, 'extrapolate')
    n_sites = 0
    for qn in ('InterpNDSemi.__init__', 'InterpNDSemi._interpolate'):
        fn = repo.func(SEMI, qn)
        ctx = Ctx(fn)
        for c in astx.calls(fn.node):
            if not isinstance(c.func, ast.Name):
                continue
            u = ctx.unique_def(c.func.id, ctx.at(c))
            if u is None:
                continue
            v = u[0]
            is_table_cls = (isinstance(v, ast.Subscript) and astx.path(v.value) == 'INTERP_METHODS') or \
                astx.path(v) == 'self._interp'
            if not is_table_cls:
                continue
            n_sites += 1
            _check_flag_kw(out, fn, c, {'self.extrapolate', 'extrapolate'}, dflt,
                           f'table object built in {qn}')
    if n_sites < 2:
        raise AnalysisError('table constructions of InterpNDSemi not recognised')
    st_ = [st for st in astx.walk_stmts(algo_semi.node.body) if isinstance(st, ast.Assign) and
           any(astx.path(t) == 'self.extrapolate' for t in st.targets)]
    for st in st_:
        if astx.path(st.value) == 'extrapolate':
            out.ok(algo_semi, st, 'flag stored unchanged in every (sub)table')
        else:
            out.bad(algo_semi, st, f'self.extrapolate = {astx.src(st.value)} does not keep the flag', key='flag-store')
    # sub-tables inherit the flag
    for c in astx.calls(algo_semi.node):
        if isinstance(c.func, ast.Name) and c.func.id == 'interp':
            _check_flag_kw(out, algo_semi, c, {'extrapolate', 'self.extrapolate'}, dflt, 'sub-table')
    # components never swallow the error
    for rel, qn in ((MMS, 'MetaModelStructuredComp.compute'), (MMSS, 'MetaModelSemiStructuredComp.compute')):
        fn = repo.func(rel, qn)
        if _handler_raises(out, fn) == 0:
            out.ok(fn, fn.node, 'no handler for OutOfBoundsError: the error propagates')


# ============================================================================ C15.methods (TABLE)
class MethodTable(dict):
    """INTERP_METHODS literal: key -> (rel, class name), resolved lazily through the imports of interp.py."""

    def __init__(self, repo, rel=INTERP):
        super().__init__()
        self.repo = repo
        self.rel = rel
        m = self.m = repo.module(rel)
        self.lit = None
        for st in m.tree.body:
            if isinstance(st, ast.Assign) and any(isinstance(t, ast.Name) and t.id == 'INTERP_METHODS'
                                                  for t in st.targets):
                self.lit = st
        if self.lit is None or not isinstance(self.lit.value, ast.Dict):
            raise AnalysisError(f'INTERP_METHODS of {rel} is not a dict literal any more')
        self.names = {}
        for k, v in zip(self.lit.value.keys, self.lit.value.values):
            ks = astx.const_str(k)
            if ks is None or not isinstance(v, ast.Name):
                raise AnalysisError(f'INTERP_METHODS entry `{astx.src(k)}: {astx.src(v)}` not recognised')
            self.names[ks] = v.id

    def __contains__(self, key):
        return key in self.names

    def keys(self):
        return self.names.keys()

    def __missing__(self, key):
        if key not in self.names:
            raise KeyError(key)
        nm = self.names[key]
        imp = self.m.imports.get(nm)
        if imp and imp[1]:
            rel = imp[0].replace('.', '/') + '.py'
            if self.repo.exists(rel) and imp[1] in self.repo.module(rel).classes:
                self[key] = (rel, imp[1])
                return self[key]
        if nm in self.m.classes:
            self[key] = (self.rel, nm)
            return self[key]
        raise AnalysisError(f'class {nm} of INTERP_METHODS[{key!r}] cannot be resolved')


def method_table(repo):
    t = MethodTable(repo)
    return t, t.lit


def _const_attr(repo, rel, cls, attr):
    """Constant assigned to self.<attr> in the __init__ of class (rel, cls), else None."""
    f = repo.module(rel).funcs.get(f'{cls}.__init__')
    if f is None:
        return None
    vals = [st.value.value for st in astx.walk_stmts(f.node.body) if isinstance(st, ast.Assign) and
            any(astx.path(t) == f'self.{attr}' for t in st.targets) and isinstance(st.value, ast.Constant)]
    return vals[-1] if vals else None


@rule('C15.methods', floor=11)
def methods(repo, out):
    """Every 'nD-<m>' key maps to a class of dimension n with the stencil size of method <m>; every offered
    table method is defined."""
    tab, lit = method_table(repo)
    m = repo.module(INTERP)
    where = (INTERP, '<module>')
    for key in sorted(tab.keys()):
        if len(key) > 3 and key[0].isdigit() and key[1:3] == 'D-':
            rel, cls = tab[key]
            n, base = int(key[0]), key[3:]
            if base not in tab:
                out.bad(where, lit, f"'{key}' has no general counterpart '{base}' in INTERP_METHODS", key=f'table-{key}')
                continue
            brel, bcls = tab[base]
            dim = _const_attr(repo, rel, cls, 'dim')
            k, bk = _const_attr(repo, rel, cls, 'k'), _const_attr(repo, brel, bcls, 'k')
            if dim is None or k is None or bk is None:
                out.unsure(where, lit, f'self.dim / self.k of {cls} or {bcls} is not a constant')
                continue
            if dim != n:
                out.bad(where, lit, f"'{key}' maps to {cls}, which interpolates {dim}-dimensional tables",
                        key=f'table-{key}')
            elif k != bk:
                out.bad(where, lit, f"'{key}' maps to {cls} ({k}-point stencil) but '{base}' is {bcls} ({bk}-point "
                        'stencil): the fixed-dimension variant is a different method', key=f'table-{key}')
            else:
                out.ok(where, lit, f"'{key}' -> {cls}: dim {dim}, {k}-point stencil like '{base}' ({bcls})")
    # every selectable table method exists
    for st in m.tree.body:
        if isinstance(st, ast.Assign) and any(isinstance(t, ast.Name) and t.id == 'TABLE_METHODS' for t in st.targets) \
                and isinstance(st.value, (ast.List, ast.Tuple)):
            names = [astx.const_str(e) for e in st.value.elts]
            missing = [x for x in names if x not in tab]
            if missing:
                out.bad(where, st, f'TABLE_METHODS offers {missing} which INTERP_METHODS does not define',
                        key='table-methods')
            else:
                out.ok(where, st, f'all {len(names)} TABLE_METHODS are keys of INTERP_METHODS')


# ============================================================================= C15.rebuild (ONCE)
@rule('C15.rebuild', floor=2)
def rebuild(repo, out):
    """Every setup builds every interpolation table anew from the current options (method, extrapolate, training
    data): no output is skipped because a table from an earlier setup is still stored."""
    for rel, qn, cls in ((MMS, 'MetaModelStructuredComp._setup_var_data', 'InterpND'),
                         (MMSS, 'MetaModelSemiStructuredComp._setup_var_data', 'InterpNDSemi')):
        fn = repo.func(rel, qn)
        g = cfgm.build(fn)
        sites = [n for n in g.nodes if n.kind == 'stmt' and any(astx.call_name(c) == cls for c in n.calls())]
        if not sites:
            raise AnalysisError(f'{fn.ident}: construction of {cls} not found')
        for site in sites:
            st = site.ast
            stored = isinstance(st, ast.Assign) and any(
                (astx.path(t) or '').startswith('self.interps') for t in st.targets)
            if not stored:
                out.unsure(fn, st, f'{cls} object is not stored in self.interps by this statement')
                continue
            loop = astx.enclosing(st, (ast.For,))
            if loop is None:
                out.ok(fn, st, 'all tables are built by one unconditional statement')
                continue
            hdrs = g.nodes_of(loop)
            entry_ = [m for h in hdrs for m, lab in g.succ[h] if lab == 'true']
            w = g.path(entry_, hdrs, avoid=g.nodes_of(st), labels=cfgm.noexc)
            if w is None:
                out.ok(fn, st, f'every iteration over {astx.src(loop.iter)} builds its {cls} from the current options')
                continue
            tests = [n for n in w if n.kind == 'test']
            stale = [n for n in tests if astx.mentions(n.ast.test, 'interps')]
            if stale:
                out.bad(fn, stale[0].ast, f'an output whose table already exists in self.interps is skipped '
                        f'(`{astx.src(stale[0].ast.test)}`): after a second setup() the {cls} of the first setup is '
                        'still used, so a changed method / extrapolate option / training table is silently ignored',
                        key='stale-table')
            else:
                out.unsure(fn, loop, 'an iteration can finish without building its table: ' + g.fmt_path(w))


# =========================================================================== C15.zeroguard (GUARD)
def _strip(e, mask=None):
    """Expression with np.atleast_*() wrappers, `[mask]` selections and a trailing `** 2` removed."""
    while True:
        if isinstance(e, ast.Call) and (astx.call_name(e) or '').split('.')[-1] in ('atleast_1d', 'atleast_2d') \
                and len(e.args) == 1:
            e = e.args[0]
        elif isinstance(e, ast.BinOp) and isinstance(e.op, ast.Pow) and isinstance(e.right, ast.Constant):
            e = e.left
        else:
            break

    class T(ast.NodeTransformer):
        def visit_Subscript(self, n):
            self.generic_visit(n)
            if mask is not None and isinstance(n.slice, ast.Name) and n.slice.id == mask:
                return n.value
            return n
    # re-parse instead of deepcopy: the nodes carry `_parent` links into the whole module
    return T().visit(ast.parse(ast.unparse(e), mode='eval').body)


_DUMP_SRC = {}


def inline_helper(repo, fn, e, depth=0):
    """If e calls a helper of the same module (or a method of the same class through self.) whose body is a single
    `return <expr>`, return <expr> with the parameters replaced by the arguments (recursively); else e."""
    if depth > 3 or not isinstance(e, ast.Call) or any(isinstance(a, ast.Starred) for a in e.args) or \
            any(k.arg is None for k in e.keywords):
        return e
    mod = repo.module(fn.rel)
    target = None
    if isinstance(e.func, ast.Name):
        target = mod.funcs.get(e.func.id)
        skip = 0
    elif isinstance(e.func, ast.Attribute) and astx.path(e.func.value) == 'self' and fn.cls is not None:
        target = mod.funcs.get(f'{fn.cls.name}.{e.func.attr}')
        skip = 1
    if target is None:
        return e
    body = astx.strip_doc(target.node.body)
    a = target.node.args
    if len(body) != 1 or not isinstance(body[0], ast.Return) or body[0].value is None or a.vararg or a.kwarg or \
            a.kwonlyargs or a.posonlyargs:
        return e
    params = [x.arg for x in a.args][skip:]
    if len(e.args) > len(params):
        return e
    binding = dict(zip(params, e.args))
    for k in e.keywords:
        if k.arg not in params or k.arg in binding:
            return e
        binding[k.arg] = k.value
    defaults = dict(zip(params[len(params) - len(a.defaults):], a.defaults)) if a.defaults else {}
    for p_ in params:
        if p_ not in binding:
            if p_ not in defaults:
                return e
            binding[p_] = defaults[p_]
    # only parameters (and module-level names such as np) may occur in the returned expression
    free = astx.names(body[0].value) - set(params)
    if any(n_ not in mod.imports and n_ not in mod.funcs and n_ not in dir(__builtins__) and
           n_ not in ('abs', 'len', 'max', 'min') for n_ in free):
        return e

    class Sub(ast.NodeTransformer):
        def visit_Name(self, n):
            if n.id in binding:
                return ast.parse(ast.unparse(binding[n.id]), mode='eval').body
            return n
    new = Sub().visit(ast.parse(ast.unparse(body[0].value), mode='eval').body)
    for n in ast.walk(new):
        for ch in ast.iter_child_nodes(n):
            ch._parent = n
    return inline_helper(repo, target, new, depth + 1) if isinstance(new, ast.Call) else new


def _guard_expr(test):
    """E when test is `E > eps` / `E >= eps` (eps: a name or option called eps), else None."""
    if isinstance(test, ast.Compare) and len(test.ops) == 1:
        l, r = test.left, test.comparators[0]
        if isinstance(test.ops[0], (ast.Gt, ast.GtE)) and astx.mentions(r, 'eps') and not astx.mentions(l, 'eps'):
            return _strip(l)
        if isinstance(test.ops[0], (ast.Lt, ast.LtE)) and astx.mentions(l, 'eps') and not astx.mentions(r, 'eps'):
            return _strip(r)
    return None


class LexDefs:
    """Cheap stand-in for reaching definitions in very long straight-line numeric functions: the definitions of
    a name that matter at a statement are the last assignment before it in source order plus, when that one
    sits in a branch the statement is not part of, the last assignment in the sibling branch."""

    def __init__(self, fn):
        self.assigns = {}
        for st in astx.walk_stmts(fn.node.body):
            if isinstance(st, (ast.Assign, ast.AugAssign, ast.AnnAssign)):
                for t in astx.assigned_targets(st):
                    if isinstance(t, ast.Name):
                        self.assigns.setdefault(t.id, []).append(st)

    @staticmethod
    def _pos(n):
        return (n.lineno, n.col_offset)

    def defs(self, st, name):
        prior = [a for a in self.assigns.get(name, []) if self._pos(a) < self._pos(st)]
        if not prior:
            return []
        last = prior[-1]
        out = [last]
        anc_st = {id(a) for a in astx.ancestors(st)}
        cur = last
        for a in astx.ancestors(last):
            if id(a) in anc_st:
                break
            if isinstance(a, ast.If):
                other = a.orelse if cur in a.body else a.body
                inside_ = {id(x) for o in other for x in ast.walk(o)}
                cands = [p_ for p_ in prior if id(p_) in inside_]
                if cands:
                    out.append(cands[-1])
            cur = a
        return out


def _denominators(ctx, e, at, mask, depth=0):
    """Canonical dumps of the denominators of the quotients that make up value e (names resolved one level)."""
    out = set()
    for n in astx.walk(e):
        if isinstance(n, ast.BinOp) and isinstance(n.op, ast.Div):
            d_ = _strip(n.right, mask)
            _DUMP_SRC[astx.dump(d_)] = ast.unparse(d_)
            out.add(astx.dump(d_))
    if not out and depth < 2:
        base = e
        if isinstance(base, ast.Subscript) and isinstance(base.slice, ast.Name) and base.slice.id == mask:
            base = base.value
        if isinstance(base, ast.Name):
            for d in ctx.defs(at, base.id):
                if isinstance(d, ast.Assign) and len(d.targets) == 1 and isinstance(d.targets[0], ast.Name):
                    out |= _denominators(ctx, d.value, d, mask, depth + 1)
    return out


@rule('C15.zeroguard', floor=22)
def zeroguard(repo, out):
    """Akima division safeguards: a quotient is only installed under the zero test of its own denominator."""
    rel = D + 'interp_akima.py'
    for fn in repo.module(rel).funcs.values():
        if 'eps' not in astx.names(fn.node):
            continue
        ctx = LexDefs(fn)
        # all zero tests of this function:  E > eps  (as an `if` or inside np.where)
        guards = {}         # dump(E) -> source
        masks = {}          # id(def node) -> (mask name, E)
        iftests = {}        # id(If) -> E
        for st in astx.walk_stmts(fn.node.body):
            if isinstance(st, ast.If):
                e = _guard_expr(inline_helper(repo, fn, st.test))
                if e is not None:
                    guards[astx.dump(e)] = astx.src(e)
                    iftests[id(st)] = e
            elif isinstance(st, ast.Assign) and len(st.targets) == 1 and isinstance(st.targets[0], ast.Name):
                v = st.value
                if isinstance(v, ast.Subscript):
                    v = v.value
                v = inline_helper(repo, fn, v)
                if isinstance(v, ast.Subscript):
                    v = v.value
                if isinstance(v, ast.Call) and (astx.call_name(v) or '').split('.')[-1] == 'where' and len(v.args) == 1:
                    e = _guard_expr(v.args[0])
                    if e is not None:
                        guards[astx.dump(e)] = astx.src(e)
                        masks[id(st)] = (st.targets[0].id, e)
        if not guards:
            continue

        def judge(st, e, mask):
            """st installs a value under the zero test of e."""
            at = st
            dens = _denominators(ctx, st.value, at, mask)
            if not dens:
                return
            want = astx.dump(e)
            # denominators that look like a weight sum (a + b of plain names), as the tested expression does
            dens_src = {}
            for d in dens:
                try:
                    node = ast.parse(_DUMP_SRC.get(d, ''), mode='eval').body if d in _DUMP_SRC else None
                except SyntaxError:
                    node = None
                dens_src[d] = _DUMP_SRC[d] if (node is not None and isinstance(node, ast.BinOp) and
                                               isinstance(node.op, ast.Add) and isinstance(node.left, ast.Name) and
                                               isinstance(node.right, ast.Name)) else None
            if want in dens:
                out.ok(fn, st, f'installed only where its denominator `{astx.src(e)}` exceeds eps')
                return
            other = [guards[d] for d in dens if d in guards] or [src_ for d, src_ in dens_src.items() if src_]
            if other:
                out.bad(fn, st, f'`{astx.src(st)}` installs a quotient with denominator `{other[0]}` under the zero test '
                        f'of `{astx.src(e)}`: where `{other[0]}` is 0 but `{astx.src(e)}` is not, 0/0 (NaN) is '
                        'returned, also at grid nodes; where it is the other way round the safeguard value is skipped',
                        key='zero-guard-mismatch')
        for st in astx.walk_stmts(fn.node.body):
            if not isinstance(st, ast.Assign):
                continue
            # (i) masked store  T[jj] = ...
            done = False
            for t in st.targets:
                if isinstance(t, ast.Subscript) and isinstance(t.slice, ast.Name):
                    ds = ctx.defs(st, t.slice.id)
                    ms = {masks[id(d)] for d in ds if id(d) in masks} if ds else set()
                    if len(ms) == 1 and len(ds) == 1:
                        mname, e = next(iter(ms))
                        # a value selected with a different mask is a mismatch of its own
                        sel = [n for n in astx.walk(st.value) if isinstance(n, ast.Subscript) and
                               isinstance(n.slice, ast.Name) and n.slice.id != mname and
                               any(id(d) in masks for d in ctx.defs(st, n.slice.id))]
                        if sel:
                            out.bad(fn, st, f'stores under mask `{mname}` values selected with mask `{sel[0].slice.id}`',
                                    key='zero-guard-mismatch')
                        else:
                            judge(st, e, mname)
                        done = True
            if done:
                continue
            # (ii) assignment directly inside `if E > eps:`
            par = getattr(st, '_parent', None)
            cur = st
            while isinstance(par, ast.If) and id(par) not in iftests and cur in par.body:
                cur, par = par, getattr(par, '_parent', None)      # nested `if compute_local_train:`
            if isinstance(par, ast.If) and cur in par.body and id(par) in iftests:
                judge(st, iftests[id(par)], None)


# ========================================================================== C15.cachekey (SLOT)
def _names_no_dtype(e):
    """Names read by expression e, ignoring `.dtype` look-ups (they never depend on the cell)."""
    out = set()
    todo = [e]
    while todo:
        n = todo.pop()
        if isinstance(n, ast.Attribute) and n.attr == 'dtype':
            continue
        if isinstance(n, ast.Name):
            out.add(n.id)
        if isinstance(n, (ast.Lambda, ast.FunctionDef)):
            continue
        todo.extend(ast.iter_child_nodes(n))
    return out


def _index_tainted(fn, idx_param):
    """Local names whose value depends on the interval index: by data flow or by an `if` on the index."""
    t = {idx_param}
    changed = True
    while changed:
        changed = False
        for st in astx.walk_stmts(fn.node.body):
            if not isinstance(st, (ast.Assign, ast.AugAssign, ast.AnnAssign)):
                continue
            tg = {x.id for tt in astx.assigned_targets(st) for x in astx.walk(tt) if isinstance(x, ast.Name)
                  and isinstance(x.ctx, ast.Store)}
            if tg <= t:
                continue
            dep = st.value is not None and bool(_names_no_dtype(st.value) & t)
            if not dep:
                for a in astx.ancestors(st):
                    if a is fn.node:
                        break
                    if isinstance(a, (ast.If, ast.While)) and _names_no_dtype(a.test) & t:
                        dep = True
                        break
            if dep:
                t |= tg
                changed = True
    return t


def _raw_cover(ctx, e, at, idx_param, depth=0):
    """Which components of the unclamped interval index e is made of: 'all', a frozenset of positions, or
    None when e is not (only) the index as handed in."""
    if depth > 5:
        return None
    if isinstance(e, ast.Name):
        ds = ctx.rd.defs(at, e.id)
        if ds == {ctx.g.entry}:
            return 'all' if e.id == idx_param else None
        if len(ds) != 1:
            return None         # re-assigned on some path: the clamped index
        d = next(iter(ds))
        if d.kind != 'stmt' or not isinstance(d.ast, ast.Assign) or len(d.ast.targets) != 1:
            return None
        for a in astx.ancestors(d.ast):
            if a is ctx.fn.node:
                break
            if isinstance(a, (ast.If, ast.While, ast.For)):
                return None     # conditional definition
        tgt = d.ast.targets[0]
        src_ = _raw_cover(ctx, d.ast.value, d, idx_param, depth + 1)
        if isinstance(tgt, ast.Name):
            return src_
        if isinstance(tgt, (ast.Tuple, ast.List)) and all(isinstance(x, ast.Name) for x in tgt.elts) and src_ == 'all':
            return frozenset([[x.id for x in tgt.elts].index(e.id)])      # i_x, i_y = idx
        return None
    if isinstance(e, ast.Call) and astx.call_name(e) in ('tuple', 'list') and len(e.args) == 1 and not e.keywords:
        return _raw_cover(ctx, e.args[0], at, idx_param, depth + 1)
    if isinstance(e, ast.Subscript) and isinstance(e.slice, ast.Constant) and isinstance(e.slice.value, int):
        c = _raw_cover(ctx, e.value, at, idx_param, depth + 1)
        return frozenset([e.slice.value]) if c == 'all' and e.slice.value >= 0 else None
    if isinstance(e, (ast.Tuple, ast.List)) and e.elts:
        cs = [_raw_cover(ctx, x, at, idx_param, depth + 1) for x in e.elts]
        if any(c is None for c in cs):
            return None
        if any(c == 'all' for c in cs):
            return 'all'
        return frozenset().union(*cs)
    return None


def _key_names(ctx, e, at, depth=0):
    """Names the cache key is built from (a name defined once as a tuple of names stands for those names)."""
    out = set()
    for n in astx.walk(e):
        if isinstance(n, ast.Name):
            out.add(n.id)
            u = ctx.unique_def(n.id, at)
            if u is not None and depth < 3 and isinstance(u[0], (ast.Tuple, ast.List, ast.Name)):
                out |= _key_names(ctx, u[0], u[1], depth + 1)
    return out


@rule('C15.cachekey', floor=10)
def cachekey(repo, out):
    """Single-point coefficient caches (`if key not in self.coeffs: self.coeffs[key] = ...`): the key determines
    everything the cached coefficients are computed from."""
    for rel in SCAN:
        if not repo.exists(rel) or 'self.coeffs' not in repo.source(rel):
            continue
        for fn in repo.module(rel).funcs.values():
            if fn.cls is None or len(fn.node.args.args) < 3:
                continue
            sites = []
            for st in astx.walk_stmts(fn.node.body):
                if isinstance(st, ast.If) and isinstance(st.test, ast.Compare) and len(st.test.ops) == 1 and \
                        isinstance(st.test.ops[0], ast.NotIn) and astx.path(st.test.comparators[0]) == 'self.coeffs':
                    sites.append(st)
            if not sites:
                continue
            ctx = Ctx(fn)
            idx_param = fn.node.args.args[2].arg
            taint = _index_tainted(fn, idx_param)
            for st in sites:
                key = st.test.left
                stores = [s_ for s_ in astx.walk_stmts(st.body) if isinstance(s_, ast.Assign) and
                          any(isinstance(t, ast.Subscript) and astx.path(t.value) == 'self.coeffs' for t in s_.targets)]
                if len(stores) != 1 or st.orelse:
                    out.unsure(fn, st, 'cache fill is not a single `self.coeffs[key] = value` statement')
                    continue
                store = stores[0]
                skey = next(t for t in store.targets if isinstance(t, ast.Subscript)).slice
                at_test = ctx.g.nodes_of(st)[0]
                at_store = ctx.at(store)
                problems = []
                if not astx.same(skey, key):
                    problems.append(f'the entry is stored under `{astx.src(skey)}` but looked up under `{astx.src(key)}`')
                # every read of the cache in this function uses the tested key, unchanged in between
                for n in astx.walk(fn.node):
                    if isinstance(n, ast.Subscript) and isinstance(n.ctx, ast.Load) and \
                            astx.path(n.value) == 'self.coeffs' and not astx.in_body(n, st, 'body'):
                        if not astx.same(n.slice, key):
                            problems.append(f'the cache is read with `{astx.src(n.slice)}` but filled under `{astx.src(key)}`')
                        else:
                            at_load = ctx.at(n)
                            for nm in astx.names(key):
                                if ctx.rd.defs(at_load, nm) - ctx.rd.defs(at_test, nm) - ctx.rd.defs(at_store, nm):
                                    problems.append(f'`{nm}` is re-assigned between the cache test and the read '
                                                    f'`{astx.src(n)}`')
                if problems:
                    out.bad(fn, st, '; '.join(problems) + ': a query can receive the coefficients of another cell',
                            key='cache-key-mismatch')
                    continue
                cover = _raw_cover(ctx, key, at_test, idx_param)
                if cover is not None:
                    dim = _const_attr(repo, rel, fn.cls.name, 'dim')
                    if cover == 'all' or (isinstance(dim, int) and cover >= frozenset(range(dim))):
                        out.ok(fn, st, f'key `{astx.src(key)}` is the raw interval index: one entry per distinct query '
                               'index')
                    elif isinstance(dim, int):
                        out.bad(fn, st, f'the cache key `{astx.src(key)}` holds only component(s) {sorted(cover)} of the '
                                f'{dim}-dimensional interval index: cells that differ in another axis share one entry',
                                key='cache-key-partial')
                    else:
                        out.unsure(fn, st, 'self.dim is not a constant: cannot tell whether the key covers every axis')
                    continue
                # key is (built from) the clamped index: the cached value must be a function of the key alone
                knames = _key_names(ctx, key, at_test)
                bad = []
                for nm in sorted(_names_no_dtype(store.value) - {'self'}):
                    if nm not in taint:
                        continue            # does not depend on the cell at all (dtype, table sizes)
                    if nm in knames and ctx.rd.defs(at_store, nm) == ctx.rd.defs(at_test, nm):
                        continue            # part of the key
                    bad.append(nm)
                if bad:
                    defs = []
                    for nm in bad:
                        vals = sorted({astx.src(d.ast) for d in ctx.rd.defs(at_store, nm) if d.kind == 'stmt'})
                        defs.append(f'`{nm}` ({"; ".join(vals)[:120]})')
                    out.bad(fn, st, f'the cache key `{astx.src(key)}` is the clamped interval index, but the cached value '
                            f'`{astx.src(store.value)}` also depends on {", ".join(defs)}, which differs between queries '
                            'that are clamped to the same cell (e.g. an extrapolated query and an in-bounds query of the '
                            'first/last cell): whichever comes first decides what the other one gets',
                            key='cache-key-clamped')
                else:
                    out.ok(fn, st, f'cached value `{astx.src(store.value)}` depends on the cell only through the key '
                           f'`{astx.src(key)}`')


# ===================================================================================== exact rules
class Bench:
    """Builds interpolators inside the evaluator (through their own constructors) and queries them."""

    def __init__(self, repo):
        self.repo = repo
        self.m = X.Machine(repo)
        self.tab, _ = method_table(repo)
        self.semi = MethodTable(repo, SEMI)

    def interp_nd(self, key, grids, values, extrapolate=False):
        """InterpND(method=key, points=grids, values=values, extrapolate=...) -- __init__ is interpreted too."""
        nd = self.m.instantiate(INTERP, 'InterpND', [], dict(method=key, points=tuple(grids), values=values,
                                                               extrapolate=extrapolate))
        t = nd.attrs.get('table')
        want = self.tab[key]
        if not isinstance(t, X.Obj) or t.cls_key != want:
            raise X.Fault(f"InterpND(method={key!r}) built a table of class "
                          f"{t.cls_key[1] if isinstance(t, X.Obj) else t!r}, INTERP_METHODS says {want[1]}")
        return nd

    def interp_semi(self, key, points, values, extrapolate=False):
        return self.m.instantiate(SEMI, 'InterpNDSemi', [points, values], dict(method=key, extrapolate=extrapolate))

    def ask(self, nd, pts):
        """One call of <interpolator>._interpolate with all points; returns list of exact values."""
        d = len(pts[0])
        xi = X.Arr([c for p in pts for c in p], (len(pts), d))
        r = self.m.call_method(nd, '_interpolate', xi)
        if not isinstance(r, X.Arr) or r.size != len(pts):
            raise X.Fault('_interpolate does not return one value per requested point')
        return list(r.data)


def scalar(v):
    if isinstance(v, X.Arr) and v.size == 1:
        v = v.data[0]
    if v is X.JUNK:
        raise X.Fault('the result is read from uninitialised memory (a cell of an np.empty array that was never '
                      'assigned)')
    if X.isunk(v) or isinstance(v, X.Arr):
        raise X.Unsupported('the interpolated value could not be computed exactly')
    return v


GRID_KINDS = ('neg', 'zero_end', 'mixed', 'pos')


def mk_grid(rng, n, kind):
    """Strictly increasing coordinates; the kinds cover all-negative grids and grids ending at 0."""
    if kind == 'neg':
        pts = sorted(rng.sample(range(-16, 0), n))
    elif kind == 'zero_end':
        pts = sorted(rng.sample(range(-16, 0), n - 1)) + [0]
    elif kind == 'pos':
        pts = sorted(rng.sample(range(1, 17), n))
    else:
        lo = (n - 1) // 2
        pts = sorted(rng.sample(range(-12, 0), max(lo, 1))) + [0] + sorted(rng.sample(range(1, 13), n))
        pts = pts[:n]
    return [F(p) for p in pts]


class Poly:
    """Random tensor-product polynomial of degree `deg` in each of `d` variables."""

    def __init__(self, rng, d, deg):
        self.terms = {e: F(rng.randint(-4, 4)) for e in itertools.product(range(deg + 1), repeat=d)}
        top = tuple([deg] * d)
        if self.terms[top] == 0:
            self.terms[top] = F(3)

    def __call__(self, pt):
        s = F(0)
        for e, c in self.terms.items():
            t = c
            for x, k in zip(pt, e):
                t *= x ** k
            s += t
        return s


def inside(rng, g, c):
    return g[c] + (g[c + 1] - g[c]) * F(rng.randint(1, 4), 5)


def _some(rng, n):
    """Indices 0..n-1: all of them when few, else both ends and one in between."""
    if n <= 3:
        return list(range(n))
    return [0, rng.randrange(1, n - 1), n - 1]


def mk_points(rng, grids):
    """(node index tuples, points inside cells, points on boundary faces) of a small table."""
    d = len(grids)
    ns = [len(g) for g in grids]
    full = d == 1
    nodes = set(itertools.product(*[(0, n - 1) for n in ns]))
    for a in range(d):
        base = [rng.randrange(n) for n in ns]
        for i in (range(ns[a]) if full else _some(rng, ns[a])):
            t = list(base)
            t[a] = i
            nodes.add(tuple(t))
    inner = []
    for a in range(d):
        cells = range(ns[a] - 1) if full else _some(rng, ns[a] - 1) if d == 2 else sorted({0, ns[a] - 2})
        for c in cells:
            p = [inside(rng, grids[b], rng.randrange(ns[b] - 1)) for b in range(d)]
            p[a] = inside(rng, grids[a], c)
            inner.append(tuple(p))
    faces = []
    for a in range(d):
        for end in (0, -1):
            p = [inside(rng, grids[b], rng.randrange(ns[b] - 1)) for b in range(d)]
            p[a] = grids[a][end]
            faces.append(tuple(p))
    return sorted(nodes), inner, faces


def multilinear_ref(grids, values, pt):
    """Specification of slinear: multilinear interpolation in the grid cell that contains *pt* (exact)."""
    cells = []
    for g, x in zip(grids, pt):
        j = max(i for i in range(len(g) - 1) if g[i] <= x)
        cells.append((j, (x - g[j]) / (g[j + 1] - g[j])))
    ns = [len(g) for g in grids]
    tot = F(0)
    for corner in itertools.product((0, 1), repeat=len(grids)):
        w = F(1)
        off = 0
        for (j, t), c, n in zip(cells, corner, ns):
            w *= t if c else (1 - t)
            off = off * n + j + c
        tot += w * values.data[off]
    return tot


def fmt_pt(p):
    return '(' + ', '.join(str(c) for c in p) + ')'


def fmt_grid(grids):
    return ' x '.join('[' + ', '.join(str(c) for c in g) + ']' for g in grids)


class Verdicts:
    """Collects the outcome of the exact checks per (class, aspect) and reports once each."""

    def __init__(self, repo, out, pin_to_class=False):
        self.repo, self.out = repo, out
        self.pin = pin_to_class
        self.fail = {}
        self.und = {}
        self.okc = {}

    def cls_where(self, rel, cls):
        return (rel, cls), self.repo.module(rel).classes[cls]

    def good(self, rel, cls, aspect, n=1):
        self.okc[(rel, cls, aspect)] = self.okc.get((rel, cls, aspect), 0) + n

    def bad(self, rel, cls, aspect, why, ex=None):
        self.fail.setdefault((rel, cls, aspect), (why, ex))

    def unsure(self, rel, cls, aspect, why, ex=None):
        self.und.setdefault((rel, cls, aspect), (why, ex))

    def flush(self):
        for (rel, cls, aspect), (why, ex) in self.fail.items():
            w, node = self.cls_where(rel, cls)
            f = getattr(ex, 'func', None) if ex is not None else None
            nd = getattr(ex, 'node', None) if ex is not None else None
            if f is not None and not self.pin:
                self.out.bad(f, nd if nd is not None else f.node, f'{cls}: {why}', key=f'{aspect}-{cls}')
            else:
                if f is not None:
                    why += f' [in {f.qualname}, line {getattr(nd, "lineno", f.node.lineno)}]'
                self.out.bad(w, node, why, key=f'{aspect}-{cls}')
        for (rel, cls, aspect), (why, ex) in self.und.items():
            if (rel, cls, aspect) in self.fail:
                continue
            w, node = self.cls_where(rel, cls)
            f = getattr(ex, 'func', None) if ex is not None else None
            nd = getattr(ex, 'node', None) if ex is not None else None
            self.out.unsure(f if f is not None else w, nd if nd is not None else node, f'{cls}: {aspect}: {why}')
        for (rel, cls, aspect), n in self.okc.items():
            if (rel, cls, aspect) in self.fail or (rel, cls, aspect) in self.und:
                continue
            w, node = self.cls_where(rel, cls)
            self.out.ok(w, node, f'{aspect}: {n} exact evaluations agree')
            self.out.count('evaluations', n)


def guarded(v, rel, cls, aspect, ctxmsg, thunk):
    """Run thunk; map evaluator exceptions to verdicts.  Returns the value or None."""
    try:
        return thunk()
    except X.Fault as ex:
        v.bad(rel, cls, aspect, f'{ctxmsg}: {ex.why} at `{astx.src(ex.node)[:70]}`' if ex.node is not None
              else f'{ctxmsg}: {ex.why}', ex)
    except X.Raised as ex:
        v.bad(rel, cls, aspect, f'{ctxmsg}: raises {ex.name} for an in-bounds point', ex)
    except X.Unsupported as ex:
        v.unsure(rel, cls, aspect, f'{ctxmsg}: {ex.why}' +
                 (f' at `{astx.src(ex.node)[:70]}`' if getattr(ex, 'node', None) is not None else ''), ex)
    return None


@contextlib.contextmanager
def quiet_gc():
    """The evaluator allocates millions of short-lived rationals; keep the cyclic collector from
    re-traversing the (large, cyclic, immortal) parsed ASTs on each of its passes."""
    was = gc.isenabled()
    gc.disable()
    try:
        yield
    finally:
        if was:
            gc.enable()


_TRAMP = []


def roomy(f):
    """Call f() with ~120 kB of contiguous interpreter frame stack below it.

    CPython >= 3.11 keeps Python frames in 16 kB chunks that are mmap'ed when a call crosses the end of
    the current chunk and munmap'ed as soon as that call returns.  The evaluator is a deeply recursive
    Python program; wherever its hot recursion happens to straddle a chunk boundary every single call
    costs two system calls (observed: 7500 mmap/munmap pairs, 5 s of system time, depending only on how
    deep the caller's stack is).  A frame with 17000 (unused) local slots forces one 256 kB chunk; all
    frames of the evaluation then live in the rest of that chunk.
    """
    if not _TRAMP:
        ns = {}
        src = 'def tramp(f):\n    ' + '='.join(f'v{i}' for i in range(17000)) + ' = None\n    return f()\n'
        exec(compile(src, '<c15-roomy-stack>', 'exec'), ns)
        _TRAMP.append(ns['tramp'])
    with quiet_gc():
        return _TRAMP[0](f)


def run_family(repo, out, fam, deg, seed, deep=False):
    """Exact checks of one method family (general class + fixed 1D/2D/3D classes).

    quick: one table per dimension (two in 1-D); in 3-D the polynomial sweep and the out-of-bounds sweep are left
    to the deep variant (node values, cell interpolant and agreement with the general class remain, and the
    bounds check is the same code for every dimension).  deep: more tables per dimension, all sweeps."""
    roomy(lambda: _run_family(repo, out, fam, deg, seed, deep))


def _run_family(repo, out, fam, deg, seed, deep):
    b = Bench(repo)
    v = Verdicts(repo, out)
    rng = random.Random(seed)
    if fam not in b.tab:
        raise AnalysisError(f"INTERP_METHODS has no '{fam}'")
    # stencil size as the code states it
    probe = guarded(v, *b.tab[fam], 'construct', 'probe table',
                    lambda: b.interp_nd(fam, [X.Arr([F(i) for i in range(9)], (9,))],
                                        X.Arr([F(i) for i in range(9)], (9,))))
    if probe is None:
        v.flush()
        return
    k = probe.attrs['table'].attrs.get('k')
    if not isinstance(k, int) or not 2 <= k <= 5:
        raise AnalysisError(f'{b.tab[fam][1]}.k = {k!r} is not a small integer')
    sizes = {1: [(k,), (k + 3,)], 2: [(k + 2, k + 1)], 3: [(k, k + 2, k + 1)]}
    if deep:
        sizes = {1: [(k,), (k + 3,), (k + 1,)], 2: [(k + 2, k + 1), (k + 1, k), (k + 2, k + 3)], 3: [(k, k + 2, k + 1), (k + 1, k, k + 2)]}
    # every dimension has cells whose corner coordinates are all non-zero (a zero coordinate makes whole terms of
    # the coefficient formulas vanish and would hide a wrong one); grids ending at 0 give tolerance 0
    kinds = {1: [('neg',), ('zero_end',), ('mixed',)], 2: [('zero_end', 'neg'), ('neg', 'zero_end'), ('pos', 'mixed')],
             3: [('neg', 'zero_end', 'pos'), ('mixed', 'neg', 'zero_end')]}
    for d in (1, 2, 3):
        fkey = f'{d}D-{fam}'
        keys = [fam] + ([fkey] if fkey in b.tab else [])
        for ns, kd in zip(sizes[d], kinds[d]):
            grids = [mk_grid(rng, n, kk) for n, kk in zip(ns, kd)]
            garr = [X.Arr(list(g), (len(g),)) for g in grids]
            shape = tuple(ns)
            generic = X.Arr([F(rng.randint(-20, 20)) for _ in range(X._size(shape))], shape)
            f = Poly(rng, d, deg)
            pvals = X.Arr([f(tuple(grids[a][i] for a, i in enumerate(idx)))
                           for idx in itertools.product(*[range(n) for n in ns])], shape)
            nodes, inner, faces = mk_points(rng, grids)
            node_pts = [tuple(grids[a][i] for a, i in enumerate(idx)) for idx in nodes]
            node_val = []
            for idx in nodes:
                off = 0
                for i, n in zip(idx, ns):
                    off = off * n + i
                node_val.append(generic.data[off])
            gtxt = fmt_grid(grids)
            results = {}
            for key in keys:
                rel, cls = b.tab[key]
                modes = ['single', 'batch'] if (key != fam or d == 1) else ['single']
                for mode in modes:
                    tag = f'{key} ({mode} call{"s" if mode == "single" else ""}) on grid {gtxt}'

                    def query(vals, pts, mode=mode, key=key):
                        nd = b.interp_nd(key, garr, vals.copy(), extrapolate=False)
                        if mode == 'batch':
                            return [scalar(x) for x in b.ask(nd, pts)]
                        order_ = list(range(len(pts)))
                        random.Random(len(pts)).shuffle(order_)
                        res = [None] * len(pts)
                        for j in order_:
                            res[j] = scalar(b.ask(nd, [pts[j]])[0])
                        return res
                    # (a) node values on generic data
                    r = guarded(v, rel, cls, 'nodes', tag, lambda: query(generic, node_pts))
                    if r is not None:
                        bad = [(p, x, w) for p, x, w in zip(node_pts, r, node_val) if x != w]
                        if bad:
                            p, x, w = bad[0]
                            v.bad(rel, cls, 'nodes', f'{tag}: at grid node {fmt_pt(p)} the result is {x}, the table '
                                  f'value is {w} ({len(bad)} of {len(r)} nodes wrong)')
                        else:
                            v.good(rel, cls, 'nodes', len(r))
                    # (b) reproduction of a random polynomial of the method's degree
                    pts = inner + faces + node_pts[:2]
                    r = guarded(v, rel, cls, 'degree', tag, lambda: query(pvals, pts)) if (deep or d < 3) else None
                    if r is not None:
                        bad = [(p, x, f(p)) for p, x in zip(pts, r) if x != f(p)]
                        if bad:
                            p, x, w = bad[0]
                            v.bad(rel, cls, 'degree', f'{tag}: a tensor-product polynomial of degree {deg} per axis is '
                                  f'not reproduced: at {fmt_pt(p)} the result is {x}, exact value {w} '
                                  f'({len(bad)} of {len(r)} points wrong)')
                        else:
                            v.good(rel, cls, 'degree', len(r))
                    # (c) generic data inside cells, for the comparison between variants
                    r = guarded(v, rel, cls, 'agree', tag, lambda: query(generic, inner))
                    if r is not None:
                        results[(key, mode)] = r
                        if deg == 1:
                            # slinear has a specification of its own: the multilinear interpolant of the cell
                            wrong = [(p, x, multilinear_ref(grids, generic, p)) for p, x in zip(inner, r)
                                     if x != multilinear_ref(grids, generic, p)]
                            if wrong:
                                p, x, w = wrong[0]
                                v.bad(rel, cls, 'cell', f'{tag}: at {fmt_pt(p)} the result is {x}, multilinear '
                                      f'interpolation in the grid cell containing the point gives {w} '
                                      f'({len(wrong)} of {len(r)} points wrong)')
                            else:
                                v.good(rel, cls, 'cell', len(r))
                    # (d) points outside the grid raise, axis by axis
                    for a in (range(d) if (deep or d < 3) else ()):
                        for off, side in ((-1, 'below'), (1, 'above')):
                            p = [inside(rng, grids[c], 0) for c in range(d)]
                            p[a] = (grids[a][0] - F(1, 5)) if off < 0 else (grids[a][-1] + F(1, 5))
                            others = [inner[0]] if mode == 'batch' else []
                            try:
                                nd = b.interp_nd(key, garr, generic.copy(), extrapolate=False)
                                b.ask(nd, others + [tuple(p)])
                                v.bad(rel, cls, 'outside', f'{tag}: point {fmt_pt(p)} is {side} the grid on axis {a} '
                                      'but no OutOfBoundsError is raised with extrapolate=False')
                            except X.Raised:
                                v.good(rel, cls, 'outside')     # "an error is raised": any exception type
                            except X.Fault as ex:
                                v.bad(rel, cls, 'outside', f'{tag}: point {fmt_pt(p)} outside the grid: {ex.why}', ex)
                            except X.Unsupported as ex:
                                v.unsure(rel, cls, 'outside', f'{tag}: {ex.why}', ex)
            # general == fixed (all modes) on generic data
            ref = results.get((fam, 'single'))
            if ref is not None:
                for (key, mode), r in results.items():
                    if key == fam:
                        continue
                    rel, cls = b.tab[key]
                    diff = [(p, x, w) for p, x, w in zip(inner, r, ref) if x != w]
                    if diff:
                        p, x, w = diff[0]
                        v.bad(rel, cls, 'agree', f"'{key}' ({mode}) and '{fam}' disagree on generic data, grid {gtxt}: "
                              f'at {fmt_pt(p)} {x} vs {w} ({len(diff)} of {len(r)} points differ)')
                    else:
                        v.good(rel, cls, 'agree', len(r))
    v.flush()


@rule('C15.exact_slinear', floor=17)
def exact_slinear(repo, out):
    """slinear, 1D/2D/3D-slinear: node values, multilinear reproduction, cell interpolant, variants agree, raises
    exactly outside."""
    run_family(repo, out, 'slinear', 1, 1501)


@rule('C15.exact_lagrange2', floor=13)
def exact_lagrange2(repo, out):
    """lagrange2, 1D/2D/3D-lagrange2: node values, tensor-quadratic reproduction, variants agree, raises outside."""
    run_family(repo, out, 'lagrange2', 2, 1502)


@rule('C15.exact_lagrange3', floor=13)
def exact_lagrange3(repo, out):
    """lagrange3, 1D/2D/3D-lagrange3: node values, tensor-cubic reproduction, variants agree, raises outside."""
    run_family(repo, out, 'lagrange3', 3, 1503)


@rule('C15.exact_slinear_deep', floor=19, tier='thorough')
def exact_slinear_deep(repo, out):
    """As C15.exact_slinear with more tables per dimension (other sizes, mixed-sign grids) and every sweep in 3-D."""
    run_family(repo, out, 'slinear', 1, 2501, deep=True)


@rule('C15.exact_lagrange2_deep', floor=15, tier='thorough')
def exact_lagrange2_deep(repo, out):
    """As C15.exact_lagrange2 with more tables per dimension and every sweep in 3-D."""
    run_family(repo, out, 'lagrange2', 2, 2502, deep=True)


@rule('C15.exact_lagrange3_deep', floor=15, tier='thorough')
def exact_lagrange3_deep(repo, out):
    """As C15.exact_lagrange3 with more tables per dimension and every sweep in 3-D."""
    run_family(repo, out, 'lagrange3', 3, 2503, deep=True)


# ------------------------------------------------------------------------------- bracket searches
@rule('C15.bracket', floor=3)
def bracket(repo, out):
    """Each bracket search, from every reachable cached index on 1-D tables of k and k+3 points, finds a cell whose
    interpolant is exact (general, fixed scalar and fixed vectorised search)."""
    roomy(lambda: _bracket(repo, out, (0, 3)))


@rule('C15.bracket_deep', floor=3, tier='thorough')
def bracket_deep(repo, out):
    """As C15.bracket on tables of k..k+5 points (the doubling phase of the search takes more than two steps)."""
    roomy(lambda: _bracket(repo, out, (0, 1, 2, 3, 4, 5)))


FAMILIES = (('slinear', 1), ('lagrange2', 2), ('lagrange3', 3))


def _bracket(repo, out, nsizes):
    b = Bench(repo)
    v = Verdicts(repo, out)
    rng = random.Random(1504)
    # classes that share one search implementation are examined once (through their cheapest member)
    groups = {}
    for fam, deg in FAMILIES:
        for key in (fam, f'1D-{fam}', f'2D-{fam}', f'3D-{fam}'):
            if key not in b.tab:
                continue
            rel, cls = b.tab[key]
            fs = [repo.lookup(rel, cls, nm) for nm in ('bracket', '_bracket_dim', 'evaluate', 'evaluate_vectorized')]
            ident = tuple(f.ident if f is not None else None for f in fs)
            groups.setdefault(ident, []).append((key, deg))
    for ident, members in groups.items():
        usable = [(key, deg) for key, deg in members if key[:3] not in ('2D-', '3D-')]
        if not usable:
            rel, cls = b.tab[members[0][0]]
            v.unsure(rel, cls, 'bracket', f'search {ident[0]} is only used by multi-dimensional classes')
            continue
        key, deg = usable[0]
        rel, cls = b.tab[key]
        k0 = _const_attr(repo, rel, cls, 'k')
        if not isinstance(k0, int):
            v.unsure(rel, cls, 'bracket', 'self.k is not a constant')
            continue
        fixed = key.startswith('1D-')
        users = ', '.join(k_ for k_, _ in members)
        for n in (k0 + i_ for i_ in nsizes):
            g = mk_grid(rng, n, GRID_KINDS[n % 4])
            if deg == 1:
                # generic data: a wrong cell shows (polynomial data would be reproduced from any cell)
                vals = X.Arr([F(rng.randint(-20, 20)) for _ in g], (n,))

                def f(pt, vals=vals, g=g):
                    return multilinear_ref([g], vals, pt)
            else:
                f = Poly(rng, 1, deg)
                vals = X.Arr([f((x,)) for x in g], (n,))
            qs = []
            for i in range(n):
                qs.append(g[i])
                if i + 1 < n:
                    qs.append(inside(rng, g, i))
            tag = f'{ident[1] or ident[0]} (used by {users}; examined through {key}) on grid {fmt_grid([g])}'

            def run():
                cnt = 0
                nd = b.interp_nd(key, [X.Arr(list(g), (n,))], vals.copy(), extrapolate=False)
                tab_ = nd.attrs['table']
                for x0 in qs:          # x0 positions the cached index, x1 is then searched from there
                    r = scalar(b.ask(nd, [(x0,)])[0])
                    if r != f((x0,)):
                        raise X.Fault(f'query at {x0} returns {r} instead of {f((x0,))}')
                    li = tab_.attrs.get('last_index')
                    snap = list(li) if isinstance(li, list) else li
                    for x1 in qs:
                        tab_.attrs['last_index'] = list(snap) if isinstance(snap, list) else snap
                        r = scalar(b.ask(nd, [(x1,)])[0])
                        if r != f((x1,)):
                            raise X.Fault(f'after a query at {x0} (cached index {snap}) the query at {x1} returns '
                                          f'{r} instead of {f((x1,))}: the search selected a wrong cell')
                        cnt += 1
                return cnt
            c = guarded(v, rel, cls, 'bracket', tag, run)
            if c:
                v.good(rel, cls, 'bracket', c)
            if fixed:
                def runv():
                    nd = b.interp_nd(key, [X.Arr(list(g), (n,))], vals.copy(), extrapolate=False)
                    r = [scalar(x) for x in b.ask(nd, [(x,) for x in qs])]
                    for x, y in zip(qs, r):
                        if y != f((x,)):
                            raise X.Fault(f'vectorised query at {x} returns {y} instead of {f((x,))}')
                    return len(r)
                c = guarded(v, rel, cls, 'bracket-vectorised', tag, runv)
                if c:
                    v.good(rel, cls, 'bracket-vectorised', c)
    v.flush()


# ------------------------------------------------------------------------ history independence
@rule('C15.history', floor=18)
def history(repo, out):
    """A table answers an in-bounds query identically whatever was asked before (batch <-> single point)."""
    roomy(lambda: _history(repo, out))


def _history(repo, out):
    b = Bench(repo)
    v = Verdicts(repo, out, pin_to_class=True)
    rng = random.Random(1505)
    for fam, deg in FAMILIES:
        for d in (1, 2, 3):
            key = f'{d}D-{fam}'
            if key not in b.tab:
                continue
            rel, cls = b.tab[key]
            k0 = _const_attr(repo, rel, cls, 'k')
            if not isinstance(k0, int):
                v.unsure(rel, cls, 'history', 'self.k is not a constant')
                continue
            ns = [k0 + 1] * d
            grids = [mk_grid(rng, n, GRID_KINDS[(a + d) % 4]) for a, n in enumerate(ns)]
            garr = [X.Arr(list(g), (len(g),)) for g in grids]
            vals = X.Arr([F(rng.randint(-20, 20)) for _ in range(X._size(ns))], tuple(ns))
            pts = [tuple(inside(rng, g, rng.randrange(len(g) - 1)) for g in grids) for _ in range(3)]
            tag = f'{key} on grid {fmt_grid(grids)}'
            fresh = guarded(v, rel, cls, 'single-then-batch', tag,
                            lambda: [scalar(b.ask(b.interp_nd(key, garr, vals.copy()), [p])[0]) for p in pts])
            if fresh is None:
                continue
            for aspect, first, second in (('batch-then-single', pts, [pts[2]]), ('single-then-batch', [pts[0]], pts)):
                def run(first=first, second=second):
                    nd = b.interp_nd(key, garr, vals.copy())
                    b.ask(nd, first)
                    return [scalar(x) for x in b.ask(nd, second)]
                r = guarded(v, rel, cls, aspect, f'{tag}: query of {len(second)} point(s) after a query of '
                            f'{len(first)} point(s) on the same InterpND', run)
                if r is None:
                    continue
                want = [fresh[pts.index(p)] for p in second]
                if r != want:
                    v.bad(rel, cls, aspect, f'{tag}: the answer depends on the previous query: {r} vs {want}')
                else:
                    v.good(rel, cls, aspect, len(r))
    v.flush()


# ------------------------------------------------------------------------------- semi-structured
@rule('C15.exact_semi', floor=14)
def exact_semi(repo, out):
    """InterpNDSemi with slinear / lagrange2 / lagrange3 on 1-D and 2-D semi-structured tables: value at every
    data point, reproduction of random polynomials of the method's degree, search from every cached index,
    OutOfBoundsError exactly outside when extrapolate is False."""
    roomy(lambda: _exact_semi(repo, out, False))


@rule('C15.exact_semi_deep', floor=14, tier='thorough')
def exact_semi_deep(repo, out):
    """As C15.exact_semi with two 1-D tables per method and the search on tables of k..k+4 points."""
    roomy(lambda: _exact_semi(repo, out, True))


def _semi_points(rng, k):
    """A 2-D semi-structured table: k+1 x-nodes, each with its own k or k+1 y-nodes over one common y-range."""
    xs = mk_grid(rng, k + 1, 'mixed')
    ylo, yhi = F(-9), F(8)
    rows = []
    for i, x in enumerate(xs):
        inner = sorted(rng.sample(range(-8, 8), k - 2 + (i % 2)))
        ys = [ylo] + [F(y) for y in inner] + [yhi]
        rows.append((x, ys))
    return xs, rows, ylo, yhi


def _exact_semi(repo, out, deep):
    b = Bench(repo)
    v = Verdicts(repo, out)
    rng = random.Random(1507)
    nds = (SEMI, 'InterpNDSemi')
    shown_outside = False
    searches = {}
    for fam, deg in FAMILIES:
        if fam not in b.semi:
            continue
        rel, cls = b.semi[fam]
        k = _const_attr(repo, rel, cls, 'k')
        if not isinstance(k, int):
            v.unsure(rel, cls, 'construct', 'self.k is not a constant')
            continue
        fb = repo.lookup(rel, cls, 'bracket')
        searches.setdefault(fb.ident if fb is not None else None, []).append((fam, deg, rel, cls, k))
        # ---------------- 1-D tables
        for n, kind in (((k, 'neg'), (k + 2, 'zero_end')) if deep else ((k + 1, 'zero_end'),)):
            g = mk_grid(rng, n, kind)
            garr = X.Arr(list(g), (n,))
            generic = X.Arr([F(rng.randint(-20, 20)) for _ in g], (n,))
            f = Poly(rng, 1, deg)
            pvals = X.Arr([f((x,)) for x in g], (n,))
            inner = [(inside(rng, g, c),) for c in range(n - 1)]
            tag = f"InterpNDSemi(method='{fam}') on the 1-D grid {fmt_grid([g])}"

            def q(vals, pts):
                nd = b.interp_semi(fam, garr, vals.copy(), extrapolate=False)
                order_ = list(range(len(pts)))
                random.Random(len(pts)).shuffle(order_)
                res = [None] * len(pts)
                for j in order_:
                    res[j] = scalar(b.ask(nd, [pts[j]])[0])
                return res
            r = guarded(v, rel, cls, 'nodes', tag, lambda: q(generic, [(x,) for x in g]))
            if r is not None:
                if r != list(generic.data):
                    j = next(i for i in range(n) if r[i] != generic.data[i])
                    v.bad(rel, cls, 'nodes', f'{tag}: at the data point {g[j]} the result is {r[j]}, the table value '
                          f'is {generic.data[j]}')
                else:
                    v.good(rel, cls, 'nodes', n)
            pts = inner + [(g[0],), (g[-1],)]
            r = guarded(v, rel, cls, 'degree', tag, lambda: q(pvals, pts))
            if r is not None:
                wrong = [(p_, x, f(p_)) for p_, x in zip(pts, r) if x != f(p_)]
                if wrong:
                    p_, x, w = wrong[0]
                    v.bad(rel, cls, 'degree', f'{tag}: a polynomial of degree {deg} is not reproduced: at {fmt_pt(p_)} '
                          f'the result is {x}, exact value {w}')
                else:
                    v.good(rel, cls, 'degree', len(r))
        # ---------------- a 2-D semi-structured table
        xs, rows, ylo, yhi = _semi_points(rng, k)
        coords, gen, pol = [], [], []
        f2 = Poly(rng, 2, deg)
        for x, ys in rows:
            for y in ys:
                coords += [x, y]
                gen.append(F(rng.randint(-20, 20)))
                pol.append(f2((x, y)))
        npt = len(gen)
        parr = X.Arr(coords, (npt, 2))
        tag = (f"InterpNDSemi(method='{fam}') on a 2-D semi-structured table, x nodes {fmt_grid([xs])}, "
               f'{"/".join(str(len(ys)) for _, ys in rows)} y nodes each over [{ylo}, {yhi}]')

        def q2(vals, pts):
            nd = b.interp_semi(fam, parr, X.Arr(list(vals), (npt,)), extrapolate=False)
            return [scalar(x) for x in b.ask(nd, pts)]
        data_pts = [(coords[2 * j], coords[2 * j + 1]) for j in range(npt)]
        r = guarded(v, rel, cls, 'nodes-2d', tag, lambda: q2(gen, data_pts))
        if r is not None:
            if r != gen:
                j = next(i for i in range(npt) if r[i] != gen[i])
                v.bad(rel, cls, 'nodes-2d', f'{tag}: at the data point {fmt_pt(data_pts[j])} the result is {r[j]}, the '
                      f'table value is {gen[j]}')
            else:
                v.good(rel, cls, 'nodes-2d', npt)
        pts = []
        for c in range(len(xs) - 1):
            pts.append((inside(rng, xs, c), ylo + (yhi - ylo) * F(rng.randint(1, 16), 17)))
        pts += [(xs[0], F(1, 2)), (xs[-1], F(-5, 2)), (inside(rng, xs, 0), ylo), (inside(rng, xs, 1), yhi)]
        r = guarded(v, rel, cls, 'degree-2d', tag, lambda: q2(pol, pts))
        if r is not None:
            wrong = [(p_, x, f2(p_)) for p_, x in zip(pts, r) if x != f2(p_)]
            if wrong:
                p_, x, w = wrong[0]
                v.bad(rel, cls, 'degree-2d', f'{tag}: a polynomial of degree {deg} per variable is not reproduced: at '
                      f'{fmt_pt(p_)} the result is {x}, exact value {w} ({len(wrong)} of {len(r)} points wrong)')
            else:
                v.good(rel, cls, 'degree-2d', len(r))
        # ---------------- outside raises (the decision is shared: shown once)
        if not shown_outside:
            shown_outside = True
            for axis, p_ in ((0, (xs[-1] + F(1, 2), F(0))), (0, (xs[0] - F(1, 2), F(0))), (1, (inside(rng, xs, 0), yhi + 1)),
                             (1, (inside(rng, xs, 0), ylo - 1))):
                try:
                    q2(gen, [p_])
                    v.bad(*nds, 'outside', f'{tag}: the point {fmt_pt(p_)} lies outside the table on axis {axis} but '
                          'InterpNDSemi(extrapolate=False) returns a value instead of raising OutOfBoundsError')
                except X.Raised:
                    v.good(*nds, 'outside')
                except X.Fault as ex:
                    v.bad(*nds, 'outside', f'{tag}: point {fmt_pt(p_)} outside the table: {ex.why}', ex)
                except X.Unsupported as ex:
                    v.unsure(*nds, 'outside', f'{tag}: {ex.why}', ex)
    # ---------------- the search of the semi-structured tables, from every cached index
    for ident, members in searches.items():
        fam, deg, rel, cls, k = members[0]
        users = ', '.join(m_[0] for m_ in members)
        for n in ((k, k + 1, k + 2, k + 3, k + 4) if deep else (k, k + 3)):
            g = mk_grid(rng, n, GRID_KINDS[n % 4])
            garr = X.Arr(list(g), (n,))
            if deg == 1:
                vals = X.Arr([F(rng.randint(-20, 20)) for _ in g], (n,))

                def f(pt, vals=vals, g=g):
                    return multilinear_ref([g], vals, pt)
            else:
                f = Poly(rng, 1, deg)
                vals = X.Arr([f((x,)) for x in g], (n,))
            qs = []
            for i in range(n):
                qs.append(g[i])
                if i + 1 < n:
                    qs.append(inside(rng, g, i))
            tag = f'{ident} (used by semi-structured {users}; examined through {fam}) on grid {fmt_grid([g])}'

            def run():
                nd = b.interp_semi(fam, garr, vals.copy(), extrapolate=False)
                tab_ = nd.attrs['table']
                cnt = 0
                for x0 in qs:
                    scalar(b.ask(nd, [(x0,)])[0])
                    snap = tab_.attrs.get('last_index')
                    for x1 in qs:
                        tab_.attrs['last_index'] = snap
                        r = scalar(b.ask(nd, [(x1,)])[0])
                        if r != f((x1,)):
                            raise X.Fault(f'after a query at {x0} (cached index {snap}) the query at {x1} returns {r} '
                                          f'instead of {f((x1,))}: the search selected a wrong cell')
                        cnt += 1
                return cnt
            c = guarded(v, rel, cls, 'bracket', tag, run)
            if c:
                v.good(rel, cls, 'bracket', c)
    v.flush()


# ------------------------------------------------------------------------------- entry points
@rule('C15.entry', floor=5)
def entry(repo, out):
    """InterpND.interpolate and MetaModelStructuredComp.compute pass every requested point, with its coordinates
    in table-axis order, to the checked evaluation, return one value per point in request order, and turn
    OutOfBoundsError into AnalysisError."""
    roomy(lambda: _entry(repo, out))


def _entry(repo, out):
    b = Bench(repo)
    v = Verdicts(repo, out)
    rng = random.Random(1506)
    nd_where = (INTERP, 'InterpND')
    comp_where = (MMS, 'MetaModelStructuredComp')
    compute_fn = repo.func(MMS, 'MetaModelStructuredComp.compute')
    g1 = mk_grid(rng, 5, 'neg')
    v1 = X.Arr([F(rng.randint(-20, 20)) for _ in g1], (5,))
    g2 = [mk_grid(rng, 3, 'zero_end'), mk_grid(rng, 4, 'mixed')]
    v2 = X.Arr([F(rng.randint(-20, 20)) for _ in range(12)], (3, 4))
    a1 = [X.Arr(list(g1), (5,))]
    a2 = [X.Arr(list(g), (len(g),)) for g in g2]

    def pts2(n):
        return [tuple(inside(rng, g, rng.randrange(len(g) - 1)) for g in g2) for _ in range(n)]

    # ---- InterpND.interpolate: the three documented array forms
    for key1, key2 in (('slinear', 'slinear'), ('1D-slinear', '2D-slinear')):
        if key1 not in b.tab or key2 not in b.tab:
            continue
        forms = []
        p1 = [inside(rng, g1, c) for c in (3, 0, 2)]
        forms.append(('1-D table, 1-D array of three points', key1, a1, v1, [g1], X.Arr(list(p1), (3,)),
                      [(x,) for x in p1]))
        q = pts2(1)
        forms.append(('2-D table, 1-D array holding one point', key2, a2, v2, g2, X.Arr(list(q[0]), (2,)), q))
        q = pts2(2)
        forms.append(('2-D table, 2x2 array of two points', key2, a2, v2, g2,
                      X.Arr([c for p in q for c in p], (2, 2)), q))
        q = pts2(3)
        forms.append(('2-D table, 3x2 array of three points', key2, a2, v2, g2,
                      X.Arr([c for p in q for c in p], (3, 2)), q))
        for what, key, garr, vals, grids, x, pts in forms:
            aspect = 'interpolate-' + ('general' if key in ('slinear',) else 'fixed')

            def run(key=key, garr=garr, vals=vals, x=x):
                nd = b.interp_nd(key, garr, vals.copy(), extrapolate=False)
                r = b.m.call_method(nd, 'interpolate', x)
                if not isinstance(r, X.Arr):
                    raise X.Fault(f'interpolate returns {type(r).__name__}, not an array')
                return [scalar(e) for e in r.data]
            r = guarded(v, *nd_where, aspect, f"InterpND.interpolate, method '{key}', {what}", run)
            if r is None:
                continue
            want = [multilinear_ref(grids, vals, p) for p in pts]
            if r != want:
                v.bad(*nd_where, aspect, f"InterpND.interpolate, method '{key}', {what}: points "
                      f'{", ".join(fmt_pt(p) for p in pts)} give {r}, expected {want} on grid {fmt_grid(grids)}')
            else:
                v.good(*nd_where, aspect, len(r))
    # ---- MetaModelStructuredComp.compute
    for key in ('slinear', '2D-slinear'):
        if key not in b.tab:
            continue
        for vec in (2, 3):
            pts = pts2(vec)
            aspect = f'compute-vec{vec}'

            def mk(points, key=key):
                comp = X.Obj(comp_where)
                nd = b.interp_nd(key, a2, v2.copy(), extrapolate=False)
                comp.attrs.update(options={'training_data_gradients': False, 'extrapolate': False, 'method': key,
                                           'vec_size': len(points)},
                                  pnames=['x', 'y'], interps={'f': nd}, pathname='comp', msginfo='STR', name='comp')
                inputs = {'x': X.Arr([p[0] for p in points], (len(points),)),
                          'y': X.Arr([p[1] for p in points], (len(points),))}
                outputs = {}
                # called directly: resolving it through the MRO would parse component.py and system.py
                b.m.call_func(compute_fn, [comp, inputs, outputs], {}, owner=comp_where)
                if 'f' not in outputs or not isinstance(outputs['f'], X.Arr):
                    raise X.Fault("compute did not store the output 'f'")
                return [scalar(e) for e in outputs['f'].data]
            tag = f"MetaModelStructuredComp.compute, method '{key}', vec_size {vec}, inputs x, y"
            r = guarded(v, *comp_where, aspect, tag, lambda: mk(pts))
            if r is not None:
                want = [multilinear_ref(g2, v2, p) for p in pts]
                if r != want:
                    v.bad(*comp_where, aspect, f'{tag}: points {", ".join(fmt_pt(p) for p in pts)} give {r}, expected '
                          f'{want} on grid {fmt_grid(g2)}')
                else:
                    v.good(*comp_where, aspect, len(r))
            # one coordinate outside: AnalysisError
            badpts = list(pts)
            badpts[-1] = (badpts[-1][0], g2[1][-1] + F(1, 3))
            try:
                mk(badpts)
                v.bad(*comp_where, 'compute-outside', f'{tag}: y = {badpts[-1][1]} is above the grid {fmt_grid(g2[1:])} '
                      'but compute returns normally')
            except X.Raised:
                v.good(*comp_where, 'compute-outside')      # "an error is raised": any exception type
            except X.Fault as ex:
                v.bad(*comp_where, 'compute-outside', f'{tag}: out-of-bounds input: {ex.why}', ex)
            except X.Unsupported as ex:
                v.unsure(*comp_where, 'compute-outside', f'{tag}: {ex.why}', ex)
    v.flush()


# ========================================================================================= self-test
_I, _A, _S = INTERP, ALGO, SLIN
_BT = 'if np.any(p < self.grid[i][0] - eps) or np.any(p > self.grid[i][-1] + eps):'
_EPS = 'eps = 1e-14 * abs(self.grid[i][-1])'
_BIS = '            if x < grid[low]:\n                high = low\n            else:\n                last_index = low'
_SEMI_LOW = ('                    if not self.extrapolate:\n'
             '                        msg = f"Extrapolation while evaluation dimension {self.idim}."\n'
             '                        raise OutOfBoundsError(msg, self.idim, x, grid[0], grid[-1])\n\n'
             '                    return last_index, -1')

_AK = D + 'interp_akima.py'
_AK_CACHE = ('        if query_idx not in self.coeffs:\n            self.coeffs[query_idx] = self.compute_coeffs(idx, extrap)\n'
             '        a, b, c, d = self.coeffs[query_idx]')
_AK_HELPER = ('def _safe_idx(denom, eps):\n    \"\"\"Entries that are safe to divide by.\"\"\"\n'
              '    return np.where(np.atleast_1d(denom) > eps)\n\n\n')
_CHECK_BODY = (
    '            for i, p in enumerate(xi.T):\n'
    '                if np.isnan(p).any():\n'
    '                    raise OutOfBoundsError("One of the requested xi contains a NaN",\n'
    '                                           i, np.nan, self.grid[i][0], self.grid[i][-1])\n'
    '\n'
    '                eps = 1e-14 * abs(self.grid[i][-1])\n'
    '                if np.any(p < self.grid[i][0] - eps) or np.any(p > self.grid[i][-1] + eps):\n'
    '                    p1 = np.where(self.grid[i][0] > p)[0]\n'
    '                    p2 = np.where(p > self.grid[i][-1])[0]\n'
    '                    # First violating entry is enough to direct the user.\n'
    '                    violated_idx = set(p1).union(p2).pop()\n'
    '                    value = p[violated_idx]\n'
    '                    raise OutOfBoundsError("One of the requested xi is out of bounds",\n'
    '                                           i, value, self.grid[i][0], self.grid[i][-1])\n')
_CHECK_BLOCK = '        if not self.extrapolate:\n' + _CHECK_BODY
_HELPER = ('    def _check_bounds(self, xi):\n'
           '        \"\"\"Raise if a coordinate lies outside of the grid.\"\"\"\n'
           '        for idim, pts in enumerate(xi.T):\n'
           '            dim_grid = self.grid[idim]\n'
           '            lower, upper = dim_grid[0], dim_grid[-1]\n'
           '            eps = 1e-14 * abs(upper)\n'
           '            if not (np.any(pts < lower - eps) or np.any(pts > upper + eps)):\n'
           '                continue\n'
           '            below = np.where(lower > pts)[0]\n'
           '            above = np.where(pts > upper)[0]\n'
           '            violated_idx = set(below).union(above).pop()\n'
           '            raise OutOfBoundsError("One of the requested xi is out of bounds",\n'
           '                                   idim, pts[violated_idx], lower, upper)\n\n')
_EVS = '    def _evaluate_spline(self, values):\n'


def _helper_edit(helper=_HELPER, call='            self._check_bounds(xi)\n'):
    return dict(old=_CHECK_BODY, new=call, also=[(_I, _EVS, helper + _EVS)])
_GUARD_BODY = (
    '            for i, p in enumerate(xi.T):\n'
    '                grid_i = self.grid[i]\n'
    '                lower = grid_i[0]\n'
    '                upper = grid_i[-1]\n'
    '\n'
    '                if np.isnan(p).any():\n'
    '                    raise OutOfBoundsError("One of the requested xi contains a NaN",\n'
    '                                           i, np.nan, lower, upper)\n'
    '\n'
    '                eps = 1e-14 * abs(upper)\n'
    '                if not (np.any(p < lower - eps) or np.any(p > upper + eps)):\n'
    '                    continue\n'
    '\n'
    '                p1 = np.where(lower > p)[0]\n'
    '                p2 = np.where(p > upper)[0]\n'
    '                violated_idx = set(p1).union(p2).pop()\n'
    '                value = p[violated_idx]\n'
    '                raise OutOfBoundsError("One of the requested xi is out of bounds",\n'
    '                                       i, value, lower, upper)\n')
_CHECK_BLOCK_FLIPPED = '        if self.extrapolate:\n            pass\n        else:\n' + _CHECK_BODY

selftest(
    'C15',

    # ---------------------------------------------------------------- C15.eps
    Mutant('eps-prefix-F5', _I, _EPS, 'eps = 1e-14 * self.grid[i][-1]', 'C15.eps'),
    Mutant('eps-added-to-lower', _I, 'np.any(p < self.grid[i][0] - eps)', 'np.any(p < self.grid[i][0] + eps)', 'C15.eps'),
    Mutant('eps-subtracted-from-upper', _I, 'np.any(p > self.grid[i][-1] + eps)', 'np.any(p > self.grid[i][-1] - eps)',
           'C15.eps'),
    Mutant('eps-negative-literal', _I, _EPS, 'eps = -1e-14 * abs(self.grid[i][-1])', 'C15.eps'),
    Mutant('eps-first-coordinate', _I, _EPS, 'eps = 1e-14 * self.grid[i][0]', 'C15.eps'),
    Mutant('eps-prefix-seen-by-evaluation', _I, _EPS, 'eps = 1e-14 * self.grid[i][-1]', 'C15.exact_slinear'),
    # ---------------------------------------------------------------- C15.bounds
    Mutant('bounds-and', _I, 'self.grid[i][0] - eps) or np.any(', 'self.grid[i][0] - eps) and np.any(', 'C15.bounds'),
    Mutant('bounds-second-node', _I, 'np.any(p < self.grid[i][0] - eps)', 'np.any(p < self.grid[i][1] - eps)', 'C15.bounds'),
    Mutant('bounds-second-last-node', _I, 'np.any(p > self.grid[i][-1] + eps)', 'np.any(p > self.grid[i][-2] + eps)',
           'C15.bounds'),
    Mutant('bounds-wrong-axis', _I, 'np.any(p > self.grid[i][-1] + eps)', 'np.any(p > self.grid[0][-1] + eps)', 'C15.bounds'),
    Mutant('bounds-rows', _I, 'for i, p in enumerate(xi.T):', 'for i, p in enumerate(xi):', 'C15.bounds'),
    Mutant('bounds-nonstrict', _I, 'np.any(p < self.grid[i][0] - eps)', 'np.any(p <= self.grid[i][0] - eps)', 'C15.bounds'),
    Mutant('bounds-swapped-ends', _I, _BT,
           'if np.any(p < self.grid[i][-1] - eps) or np.any(p > self.grid[i][0] + eps):', 'C15.bounds'),
    Mutant('bounds-flag-inverted', _I, '        if not self.extrapolate:\n            for i, p',
           '        if self.extrapolate:\n            for i, p', 'C15.bounds'),
    Mutant('bounds-no-raise', _I, '                    raise OutOfBoundsError("One of the requested xi is out of bounds",',
           '                    err = OutOfBoundsError("One of the requested xi is out of bounds",', 'C15.bounds'),
    Mutant('bounds-first-axis-only', _I,
           '                                           i, value, self.grid[i][0], self.grid[i][-1])\n',
           '                                           i, value, self.grid[i][0], self.grid[i][-1])\n                break\n',
           'C15.bounds'),
    Mutant('guard-clause-wrong-polarity', _I, _CHECK_BODY, _GUARD_BODY.replace(
        'if not (np.any(p < lower - eps) or np.any(p > upper + eps)):',
        'if np.any(p < lower - eps) or np.any(p > upper + eps):'), 'C15.bounds'),
    Mutant('guard-clause-demorgan-wrong', _I, _CHECK_BODY, _GUARD_BODY.replace(
        'if not (np.any(p < lower - eps) or np.any(p > upper + eps)):',
        'if not (np.any(p < lower - eps) and np.any(p > upper + eps)):'), 'C15.bounds'),
    Mutant('guard-clause-all-or', _I, _CHECK_BODY, _GUARD_BODY.replace(
        'if not (np.any(p < lower - eps) or np.any(p > upper + eps)):',
        'if np.all(p >= lower - eps) or np.all(p <= upper + eps):'), 'C15.bounds'),
    Mutant('guard-clause-signed-eps', _I, _CHECK_BODY, _GUARD_BODY.replace('eps = 1e-14 * abs(upper)', 'eps = 1e-14 * upper'),
           'C15.eps'),
    Mutant('guard-clause-swapped-ends', _I, _CHECK_BODY, _GUARD_BODY.replace('lower = grid_i[0]', 'lower = grid_i[-1]')
           .replace('upper = grid_i[-1]', 'upper = grid_i[0]'), 'C15.bounds'),
    Mutant('guard-clause-no-raise', _I, _CHECK_BODY, _GUARD_BODY.replace(
        '                raise OutOfBoundsError("One of the requested xi is out of bounds",',
        '                err = OutOfBoundsError("One of the requested xi is out of bounds",'), 'C15.bounds'),
    Mutant('guard-clause-evaluated', _I, _CHECK_BODY, _GUARD_BODY.replace('eps = 1e-14 * abs(upper)', 'eps = 1e-14 * upper'),
           'C15.exact_slinear'),
    Mutant('bounds-max-vs-lower-seed', _I, _BT,
           'if np.max(p) < self.grid[i][0] - eps or np.max(p) > self.grid[i][-1] + eps:', 'C15.bounds'),
    Mutant('bounds-min-vs-upper', _I, _BT,
           'if p.min() < self.grid[i][0] - eps or p.min() > self.grid[i][-1] + eps:', 'C15.bounds'),
    Mutant('bounds-max-vs-lower-seen-by-evaluation', _I, _BT,
           'if np.max(p) < self.grid[i][0] - eps or np.max(p) > self.grid[i][-1] + eps:', 'C15.exact_slinear'),
    Mutant('bounds-minmax-inbounds-or', _I, _CHECK_BODY, _GUARD_BODY.replace(
        'if not (np.any(p < lower - eps) or np.any(p > upper + eps)):',
        'if np.min(p) >= lower - eps or np.max(p) <= upper + eps:'), 'C15.bounds'),
    Mutant('zeroguard-helper-wrong-argument', _AK, '        jj2 = np.where(np.atleast_1d(w32 + w4) > eps)',
           '        jj2 = _safe_idx(w2 + w31, eps)', 'C15.zeroguard',
           also=[(_AK, 'class InterpAkima(InterpAlgorithm):', _AK_HELPER + 'class InterpAkima(InterpAlgorithm):')]),
    Mutant('helper-signed-eps', _I, expect='C15.eps', **_helper_edit(_HELPER.replace('abs(upper)', 'upper'))),
    Mutant('helper-swapped-ends', _I, expect='C15.bounds',
           **_helper_edit(_HELPER.replace('dim_grid[0], dim_grid[-1]', 'dim_grid[-1], dim_grid[0]'))),
    Mutant('helper-early-return', _I, expect='C15.order',
           **_helper_edit(_HELPER.replace('        for idim, pts', '        if xi.shape[0] > 1:\n            return\n        for idim, pts'))),
    Mutant('helper-called-when-flag-on', _I, '        if not self.extrapolate:\n' + _CHECK_BODY,
           '        if self.extrapolate:\n            self._check_bounds(xi)\n', ['C15.bounds', 'C15.order'],
           also=[(_I, _EVS, _HELPER + _EVS)]),
    Mutant('helper-first-axis-only', _I, expect='C15.bounds',
           **_helper_edit(_HELPER.replace('                continue\n', '                break\n'))),
    Mutant('helper-wrong-reduction-evaluated', _I, expect='C15.exact_slinear',
           **_helper_edit(_HELPER.replace('np.any(pts < lower - eps)', 'np.all(pts < lower - eps)'))),
    Mutant('bounds-upper-only', _I, _BT, 'if np.any(p > self.grid[i][-1] + eps):', 'C15.bounds'),
    Mutant('semi-nonstrict-low', _A, '                if x < grid[0]:\n                    if not self.extrapolate:',
           '                if x <= grid[0]:\n                    if not self.extrapolate:', 'C15.bounds'),
    Mutant('semi-flag-inverted', _A, '                if x > grid[highbound]:\n                    if not self.extrapolate:',
           '                if x > grid[highbound]:\n                    if self.extrapolate:', 'C15.bounds'),
    Mutant('semi-upper-second-last', _A, '                if x > grid[highbound]:\n                    if not self.extrapolate:',
           '                if x > grid[highbound - 1]:\n                    if not self.extrapolate:', 'C15.bounds'),
    Mutant('semi-no-raise-low', _A, '                        raise OutOfBoundsError(msg, self.idim, x, grid[0], grid[-1])',
           '                        err = OutOfBoundsError(msg, self.idim, x, grid[0], grid[-1])', 'C15.bounds'),
    Mutant('semi-unconditional-raise', _A, _SEMI_LOW,
           '                    msg = f"Extrapolation while evaluation dimension {self.idim}."\n'
           '                    raise OutOfBoundsError(msg, self.idim, x, grid[0], grid[-1])', 'C15.bounds'),
    # ---------------------------------------------------------------- C15.order
    Mutant('order-eval-first', _I, '        if not self.extrapolate:\n            for i, p in enumerate(xi.T):',
           '        first, _, _, _ = self.table.evaluate(xi[0, ...])\n        if not self.extrapolate:\n'
           '            for i, p in enumerate(xi.T):', 'C15.order'),
    Mutant('order-flag-inverted', _I, '        if not self.extrapolate:\n            for i, p',
           '        if self.extrapolate:\n            for i, p', 'C15.order'),
    Mutant('order-comp-bypass', MMS, 'val = interp._interpolate(pt)', 'val = interp.table.evaluate_vectorized(pt)[0]',
           'C15.order'),
    Mutant('order-public-bypass', _I, '        xnew = self._interpolate(x)', '        xnew = self.table.evaluate_vectorized(x)[0]',
           'C15.order'),
    # ---------------------------------------------------------------- C15.propagate
    Mutant('prop-hardwired', MMS, "extrapolate=self.options['extrapolate'])", 'extrapolate=True)', 'C15.propagate'),
    Mutant('prop-semi-comp-dropped', MMSS,
           "method=interp_method,\n                                              extrapolate=self.options['extrapolate'])",
           'method=interp_method)', 'C15.propagate'),
    Mutant('prop-semi-comp-inverted', MMSS, "extrapolate=self.options['extrapolate'])",
           "extrapolate=not self.options['extrapolate'])", 'C15.propagate'),
    Mutant('prop-store-const', _I, '        self.extrapolate = extrapolate', '        self.extrapolate = True', 'C15.propagate'),
    Mutant('prop-semi-rebuild-dropped', SEMI,
           'interp(self.grid, self.values, interp, extrapolate=self.extrapolate,\n',
           'interp(self.grid, self.values, interp,\n', 'C15.propagate'),
    Mutant('prop-subtable-dropped', _A, 'idim=idim + 1, extrapolate=extrapolate,', 'idim=idim + 1,', 'C15.propagate'),
    Mutant('prop-last-subtable-dropped', _A, 'idim=idim + 1, extrapolate=extrapolate,', 'idim=idim + 1,', 'C15.propagate',
           nth=1),
    Mutant('prop-swallowed', MMS, '                raise AnalysisError(errmsg, inspect.currentframe(), self.msginfo)',
           '                print(errmsg)\n                continue', 'C15.propagate'),
    Mutant('prop-semi-swallowed', MMSS, '                raise AnalysisError(errmsg, inspect.currentframe(), self.msginfo)',
           '                val = np.nan', 'C15.propagate'),
    Mutant('prop-semi-flag-dropped-prefix', SEMI, '        table = interp(self.grid, values, interp, extrapolate=extrapolate, **kwargs)',
           '        table = interp(self.grid, values, interp, **kwargs)', 'C15.propagate'),
    Mutant('prop-semi-flag-dropped-seen-by-evaluation', SEMI,
           '        table = interp(self.grid, values, interp, extrapolate=extrapolate, **kwargs)',
           '        table = interp(self.grid, values, interp, **kwargs)', 'C15.exact_semi'),
    # ---------------------------------------------------------------- C15.cachekey
    Mutant('cache-akima-clamped-key-seed', _AK, _AK_CACHE,
           '        if idx not in self.coeffs:\n            self.coeffs[idx] = self.compute_coeffs(idx, extrap)\n'
           '        a, b, c, d = self.coeffs[idx]', 'C15.cachekey'),
    Mutant('cache-akima-read-other-key', _AK, '        a, b, c, d = self.coeffs[query_idx]', '        a, b, c, d = self.coeffs[idx]',
           'C15.cachekey'),
    Mutant('cache-sl-1d-store-other-key', _S, '            self.coeffs[idx_key] = self.compute_coeffs(idx, dtype)\n        a = self.coeffs[idx_key]\n\n'
           '        val = a[0] + a[1] * (x - grid[idx])',
           '            self.coeffs[idx] = self.compute_coeffs(idx, dtype)\n        a = self.coeffs[idx_key]\n\n'
           '        val = a[0] + a[1] * (x - grid[idx])', 'C15.cachekey'),
    Mutant('cache-sl-2d-partial-key', _S, '        x, y = x\n        idx_key = tuple(idx)\n', '        x, y = x\n        idx_key = idx[0]\n',
           'C15.cachekey'),
    Mutant('cache-sl-2d-partial-key-seen-by-evaluation', _S, '        x, y = x\n        idx_key = tuple(idx)\n',
           '        x, y = x\n        idx_key = idx[0]\n', 'C15.exact_slinear'),
    Mutant('cache-l2-1d-key-after-reassign', LAG2, '        a = self.coeffs[i_x]\n\n        x = x[0]\n',
           '        i_x = i_x + 0\n        a = self.coeffs[i_x - 1]\n\n        x = x[0]\n', 'C15.cachekey'),
    Mutant('cache-l3-3d-extra-dependence', LAG3, '        idx = (i_x, i_y, i_z)\n\n        # Complex Step\n        if self.values.dtype == complex:\n'
           '            dtype = self.values.dtype\n        else:\n            dtype = x.dtype\n\n        if idx not in self.coeffs:\n'
           '            self.coeffs[idx] = self.compute_coeffs(idx, dtype)',
           '        idx = (i_x, i_y)\n\n        # Complex Step\n        if self.values.dtype == complex:\n'
           '            dtype = self.values.dtype\n        else:\n            dtype = x.dtype\n\n        if idx not in self.coeffs:\n'
           '            self.coeffs[idx] = self.compute_coeffs((i_x, i_y, i_z), dtype)', 'C15.cachekey'),
    # ---------------------------------------------------------------- C15.rebuild
    Mutant('rebuild-stale-table-seed', MMS, '        for name, train_data in self.training_outputs.items():\n'
           '            self.interps[name] = InterpND(',
           '        for name, train_data in self.training_outputs.items():\n            if name in self.interps:\n'
           '                continue\n            self.interps[name] = InterpND(', 'C15.rebuild'),
    Mutant('rebuild-semi-stale-table', MMSS, '        for name, train_data in self.training_outputs.items():\n'
           '            self.interps[name] = InterpNDSemi(',
           '        for name, train_data in self.training_outputs.items():\n            if name not in self.interps:\n'
           '                self.interps[name] = InterpNDSemi(', 'C15.rebuild'),
    # ---------------------------------------------------------------- C15.zeroguard
    Mutant('zeroguard-akima-mask-seed', _AK, '        bp1[jj2] = bp1pos[jj2]\n', '        bp1[jj1] = bp1pos[jj1]\n', 'C15.zeroguard'),
    Mutant('zeroguard-akima-mask-definition', _AK, '        jj2 = np.where(np.atleast_1d(w32 + w4) > eps)',
           '        jj2 = np.where(np.atleast_1d(w2 + w31) > eps)', 'C15.zeroguard'),
    Mutant('zeroguard-akima-mixed-masks', _AK, '        bp1[jj2] = bp1pos[jj2]\n', '        bp1[jj2] = bp1pos[jj1]\n', 'C15.zeroguard'),
    Mutant('zeroguard-semi-test', _AK, '        if w32 + w4 > eps:\n            bp1 = bp1pos\n',
           '        if w2 + w31 > eps:\n            bp1 = bp1pos\n', 'C15.zeroguard'),
    Mutant('zeroguard-1d-test', _AK, '        if w32 + w4 >= eps:\n', '        if w2 + w31 >= eps:\n', 'C15.zeroguard'),
    Mutant('zeroguard-1d-vec-mask', _AK, '        jj = np.where(w32 + w4 >= eps)[0]', '        jj = np.where(w2 + w31 >= eps)[0]',
           'C15.zeroguard'),
    # ---------------------------------------------------------------- C15.methods
    Mutant('methods-dim-swap', _I, "'2D-slinear': Interp2DSlinear,", "'2D-slinear': Interp3DSlinear,", 'C15.methods'),
    Mutant('methods-family-swap', _I, "'1D-lagrange2': Interp1DLagrange2,", "'1D-lagrange2': Interp1DLagrange3,",
           'C15.methods'),
    Mutant('methods-family-swap-seen-by-evaluation', _I, "'1D-lagrange2': Interp1DLagrange2,",
           "'1D-lagrange2': Interp1DLagrange3,", 'C15.exact_lagrange2'),
    Mutant('methods-offered-but-undefined', _I, "'3D-slinear', '2D-slinear', '1D-slinear',\n",
           "'3D-slinear', '2D-slinear', '1D-slinear', '4D-slinear',\n", 'C15.methods'),
    Mutant('methods-dim-attr', _S, '        self.dim = 2\n', '        self.dim = 3\n', 'C15.methods'),
    # ---------------------------------------------------------------- C15.exact_slinear
    Mutant('sl-step', _S, '        h = 1.0 / (grid[idx + 1] - grid[idx])\n\n        if subtable is not None:',
           '        h = 1.0 / (grid[idx + 2] - grid[idx + 1])\n\n        if subtable is not None:', 'C15.exact_slinear'),
    Mutant('sl-slice', _S, 'slice_idx.append(slice(idx, idx + 2))', 'slice_idx.append(slice(idx + 1, idx + 3))',
           'C15.exact_slinear'),
    Mutant('sl-upper-node', _S, 'return dtmp[..., 0] + delx * slope, derivs, None, None',
           'return dtmp[..., 1] + delx * slope, derivs, None, None', 'C15.exact_slinear'),
    Mutant('sl-delx', _S, '            delx = x[0] - grid[idx]\n', '            delx = x[0] - grid[idx + 1]\n', 'C15.exact_slinear'),
    Mutant('sl-2d-operand', _S, '        a[1] = (c10 - c00) * y1 + (c01 - c11) * y0\n',
           '        a[1] = (c10 - c00) * y0 + (c01 - c11) * y1\n', 'C15.exact_slinear'),
    Mutant('sl-2d-vec-operand', _S, '        a[:, 2] = (c01 - c00) * x1 + (c10 - c11) * x0\n',
           '        a[:, 2] = (c01 - c00) * x1 + (c10 - c11) * x1\n', 'C15.exact_slinear'),
    Mutant('sl-3d-term', _S, '            c011 * x1 * y0 * z0 + \\\n            c100 * x0 * y1 * z1 - \\',
           '            c011 * x1 * y0 * z1 + \\\n            c100 * x0 * y1 * z1 - \\', 'C15.exact_slinear'),
    Mutant('sl-3d-vec-term', _S, '            c011 * x1 * y0 * z0 + \\\n            c100 * x0 * y1 * z1 - \\',
           '            c011 * x1 * y0 * z1 + \\\n            c100 * x0 * y1 * z1 - \\', 'C15.exact_slinear', nth=1),
    Mutant('sl-3d-sign', _S, '        a[7] = c000 - c001 - c010 + c011 - c100 + c101 + c110 - c111',
           '        a[7] = c000 - c001 - c010 + c011 - c100 + c101 - c110 - c111', 'C15.exact_slinear'),
    Mutant('sl-2d-vec-low-clamp', _S, '        i_x[i_x == -1] = 0\n        i_y[i_y == -1] = 0\n\n        # extrapolate high\n'
           '        nx, ny = self.values.shape', '        i_x[i_x == -1] = 0\n\n        # extrapolate high\n'
           '        nx, ny = self.values.shape', 'C15.exact_slinear'),
    Mutant('sl-2d-scalar-low-clamp', _S, '        elif i_y == -1:\n            i_y = 0\n\n        x0 = grid[0][i_x]',
           '        elif i_y == -1:\n            i_y = 1\n\n        x0 = grid[0][i_x]', 'C15.exact_slinear'),
    Mutant('sl-2d-eval', _S, '        val = a[0] + (a[1] + a[3] * y) * x + a[2] * y\n',
           '        val = a[0] + (a[1] + a[3] * y) * x + a[2] * x\n', 'C15.exact_slinear'),
    Mutant('sl-1d-vec-coeff', _S, '        a[:, 1] = (c1 - c0) * rec_vol\n', '        a[:, 1] = (c1 + c0) * rec_vol\n',
           'C15.exact_slinear'),
    Mutant('sl-searchsorted-shift', _A, "np.searchsorted(self.grid[j], x[..., j], side='left') - 1",
           "np.searchsorted(self.grid[j], x[..., j], side='left')", 'C15.exact_slinear'),
    Mutant('sl-batch-row', _I, 'val, d_x, d_values, d_grid = table.evaluate(xi[j, ...])',
           'val, d_x, d_values, d_grid = table.evaluate(xi[0, ...])', 'C15.exact_slinear'),
    Mutant('sl-subtable-point', _S, 'dtmp, subderiv, _, _ = subtable.evaluate(x[1:], slice_idx=slice_idx)',
           'dtmp, subderiv, _, _ = subtable.evaluate(x[:-1], slice_idx=slice_idx)', 'C15.exact_slinear'),
    # ---------------------------------------------------------------- C15.exact_lagrange2
    Mutant('l2-clamp', LAG2, '        if idx > ngrid - 3:\n            idx = ngrid - 3\n\n        derivs = np.empty(len(x), dtype=dtype)\n\n'
           '        xx1 = x[0] - grid[idx]', '        if idx > ngrid - 2:\n            idx = ngrid - 2\n\n'
           '        derivs = np.empty(len(x), dtype=dtype)\n\n        xx1 = x[0] - grid[idx]', 'C15.exact_lagrange2'),
    Mutant('l2-denominator', LAG2, '            q2 = values[..., idx + 1] / (c12 * c23)',
           '            q2 = values[..., idx + 1] / (c12 * c13)', 'C15.exact_lagrange2'),
    Mutant('l2-sub-denominator', LAG2, '            q3 = subval[..., 2] / (c13 * c23)', '            q3 = subval[..., 2] / (c12 * c23)',
           'C15.exact_lagrange2'),
    Mutant('l2-sign', LAG2, '        return xx3 * (q1 * xx2 - q2 * xx1) + q3 * xx1 * xx2, derivs, None, None',
           '        return xx3 * (q1 * xx2 + q2 * xx1) + q3 * xx1 * xx2, derivs, None, None', 'C15.exact_lagrange2'),
    Mutant('l2-difference', LAG2, '        c13 = grid[idx] - grid[idx + 2]\n        c23 = grid[idx + 1] - grid[idx + 2]\n\n        if subtable',
           '        c13 = grid[idx] - grid[idx + 1]\n        c23 = grid[idx + 1] - grid[idx + 2]\n\n        if subtable',
           'C15.exact_lagrange2'),
    Mutant('l2-2d-termrow', LAG2, '        termx[1, :] *= -termx[2, :]\n        termy[1, :] *= -termy[2, :]\n\n        termx[0, :] *= termx[2, :]',
           '        termx[1, :] *= -termx[2, :]\n        termy[1, :] *= termy[2, :]\n\n        termx[0, :] *= termx[2, :]',
           'C15.exact_lagrange2'),
    Mutant('l2-3d-vec-entry', LAG2, '        termz[:, 1, 1] = z3\n', '        termz[:, 1, 1] = z2\n', 'C15.exact_lagrange2'),
    Mutant('l2-2d-vec-wrong-size', LAG2, '        i_y[i_y > ny - 3] = ny - 3\n\n', '        i_y[i_y > nx - 3] = nx - 3\n\n',
           'C15.exact_lagrange2'),
    Mutant('l2-1d-horner', LAG2, '        val = a[0] + x * (a[1] + x * a[2])', '        val = a[0] + x * (a[1] + a[2])',
           'C15.exact_lagrange2'),
    Mutant('l2-2d-delta', LAG2, '        x = x - grid[0][i_x]\n        y = y - grid[1][i_y]\n\n        # Compute interpolated value using the 9',
           '        x = x - grid[0][i_x]\n\n        # Compute interpolated value using the 9', 'C15.exact_lagrange2'),
    Mutant('l2-2d-einsum-transposed', LAG2, 'a = np.einsum("mi,nj,ij->mn", termx, termy, all_val)',
           'a = np.einsum("mi,nj,ji->mn", termx, termy, all_val)', 'C15.exact_lagrange2'),
    Mutant('l2-3d-window', LAG2, '        all_val = values[i_x: i_x + 3, i_y: i_y + 3, i_z: i_z + 3]',
           '        all_val = values[i_x: i_x + 3, i_y: i_y + 3, i_y: i_y + 3]', 'C15.exact_lagrange2'),
    Mutant('l2-1d-vec-power', LAG2, "        xx[:, 2] = x * x\n\n        val = np.einsum('qi,qi->q', a, xx)",
           "        xx[:, 2] = x\n\n        val = np.einsum('qi,qi->q', a, xx)", 'C15.exact_lagrange2'),
    # ---------------------------------------------------------------- C15.exact_lagrange3
    Mutant('l3-low-shift', LAG3, '        elif idx == 0:\n            idx = 1\n\n        derivs = np.empty(len(x))',
           '        elif idx == 0:\n            idx = 0\n\n        derivs = np.empty(len(x))', 'C15.exact_lagrange3'),
    Mutant('l3-reciprocal', LAG3, '        c24 = 1.0 / (p2 - p4)\n', '        c24 = 1.0 / (p2 - p3)\n', 'C15.exact_lagrange3'),
    Mutant('l3-leaf-weight', LAG3, '            q3 = values[..., idx + 1] * (c13 * c23 * c34)',
           '            q3 = values[..., idx + 1] * (c13 * c24 * c34)', 'C15.exact_lagrange3'),
    Mutant('l3-sub-slice', LAG3, '            slice_idx.append(slice(idx - 1, idx + 3))', '            slice_idx.append(slice(idx, idx + 4))',
           'C15.exact_lagrange3'),
    Mutant('l3-3d-scalar-clamp', LAG3, '        elif i_z < 1:\n            i_z = 1\n', '        elif i_z < 0:\n            i_z = 0\n',
           'C15.exact_lagrange3'),
    Mutant('l3-3d-vec-power', LAG3, '        yy[:, 3] = yy[:, 2] * y\n', '        yy[:, 3] = yy[:, 2] * yy[:, 2]\n', 'C15.exact_lagrange3'),
    Mutant('l3-3d-termrow-sign', LAG3, '        termx[2, :] *= -termx[3, :]\n        termy[2, :] *= -termy[3, :]\n        termz[2, :] *= -termz[3, :]',
           '        termx[2, :] *= -termx[3, :]\n        termy[2, :] *= termy[3, :]\n        termz[2, :] *= -termz[3, :]',
           'C15.exact_lagrange3'),
    Mutant('l3-3d-table-entry', LAG3, '                          [x2 + x3 + x4,\n                           x3 + x4,\n                           x2 + x4,\n                           x2 + x3],',
           '                          [x2 + x3 + x4,\n                           x3 + x4,\n                           x2 + x3,\n                           x2 + x4],',
           'C15.exact_lagrange3'),
    Mutant('l3-3d-vec-table-entry', LAG3, '        termy[:, 1, 2] = y2 * y4\n', '        termy[:, 1, 2] = y2 * y3\n', 'C15.exact_lagrange3'),
    Mutant('l3-3d-origin', LAG3, '        z = z - grid[2][i_z - 1]\n', '        z = z - grid[2][i_z]\n', 'C15.exact_lagrange3'),
    Mutant('l3-3d-vec-high-clamp', LAG3, '        i_z[i_z > nz - 3] = nz - 3\n', '        i_z[i_z > nz - 2] = nz - 2\n', 'C15.exact_lagrange3'),
    # ---------------------------------------------------------------- C15.bracket
    Mutant('br-bisect-swapped', _A, _BIS, '            if x < grid[low]:\n                last_index = low\n            else:\n'
           '                high = low', 'C15.bracket'),
    Mutant('br-fixed-bisect-swapped', _A, _BIS, '            if x > grid[low]:\n                high = low\n            else:\n'
           '                last_index = low', 'C15.bracket', nth=1),
    Mutant('br-fixed-midpoint', _A, '            low = (high + last_index) // 2', '            low = (high - last_index) // 2',
           'C15.bracket', nth=1),
    Mutant('br-fixed-step-direction', _A, '            high = last_index\n            last_index -= inc\n            if last_index < 0:\n'
           '                last_index = 0\n\n                # Check if we\'re off of the bottom end.\n                if x < grid[0]:\n'
           '                    return -1, -1',
           '            high = last_index\n            last_index -= inc\n            if last_index < 0:\n'
           '                last_index = 1\n\n                # Check if we\'re off of the bottom end.\n                if x < grid[0]:\n'
           '                    return -1, -1', 'C15.bracket'),
    Mutant('br-vectorised-shift', _A, "np.searchsorted(self.grid[j], x[..., j], side='left') - 1",
           "np.searchsorted(self.grid[j], x[..., j], side='left') - 2", 'C15.bracket'),
    Mutant('br-upper-cap', _A, '                high = highbound\n                break\n            inc += inc\n\n        # Bisection',
           '                high = highbound - 1\n                break\n            inc += inc\n\n        # Bisection',
           'C15.bracket'),
    Mutant('br-no-break', _A, '                    return last_index, -1\n                break\n',
           '                    return last_index, -1\n', 'C15.bracket'),
    # ---------------------------------------------------------------- C15.history
    Mutant('hist-2d-cache-kind', _S, '        if self.vec_coeff is None:\n            self.coeffs = set()\n'
           '            self.vec_coeff = np.empty((nx, ny, 4), dtype=dtype)',
           '        if self.vec_coeff is None:\n            self.vec_coeff = np.empty((nx, ny, 4), dtype=dtype)', 'C15.history'),
    Mutant('hist-3d-l2-cache-kind', LAG2, '            self.coeffs = set()\n            grid = self.grid\n'
           '            self.vec_coeff = np.empty((nx, ny, nz, 3, 3, 3), dtype=dtype)',
           '            grid = self.grid\n            self.vec_coeff = np.empty((nx, ny, nz, 3, 3, 3), dtype=dtype)', 'C15.history'),
    # ---------------------------------------------------------------- C15.exact_semi
    Mutant('semi-sl-leaf-node', _S, '            return values[idx] + (x - grid[idx]) * slope, slope, d_value, extrap',
           '            return values[idx + 1] + (x - grid[idx]) * slope, slope, d_value, extrap', 'C15.exact_semi'),
    Mutant('semi-sl-subtable', _S, '            val1, dx1, dvalue1, flag1 = subtables[idx + 1].interpolate(x[1:])\n\n            # Extrapolation detection.\n            # (Not much',
           '            val1, dx1, dvalue1, flag1 = subtables[idx].interpolate(x[1:])\n\n            # Extrapolation detection.\n            # (Not much',
           'C15.exact_semi'),
    Mutant('semi-l2-weight', LAG2, '            q2 = val1 / (c12 * c23)', '            q2 = val1 / (c12 * c13)', 'C15.exact_semi'),
    Mutant('semi-l2-leaf-weight', LAG2, '            q3 = values[idx + 2] / (c13 * c23)', '            q3 = values[idx + 2] / (c12 * c23)',
           'C15.exact_semi'),
    Mutant('semi-l3-factor', LAG3, '        fact3 = 1.0 / (c13 * c23 * c34)', '        fact3 = 1.0 / (c13 * c24 * c34)', 'C15.exact_semi'),
    Mutant('semi-l3-clamp', LAG3, '        elif idx == 0:\n            idx = 1\n\n        derivs = np.empty(len(x), dtype=dtype)\n\n        if subtables',
           '        elif idx == 0:\n            idx = 0\n\n        derivs = np.empty(len(x), dtype=dtype)\n\n        if subtables',
           'C15.exact_semi'),
    Mutant('semi-grid-not-unique', _A, '            self.grid = np.unique(grid[:, 0])', '            self.grid = grid[:, 0]', 'C15.exact_semi'),
    Mutant('semi-subtable-rows', _A, '                    subtables.append(newtable)\n                    i0 = i1\n',
           '                    subtables.append(newtable)\n                    i0 = i1 + 1\n', 'C15.exact_semi'),
    Mutant('semi-bisect-swapped', _A, _BIS, '            if x < grid[low]:\n                last_index = low\n            else:\n'
           '                high = low', 'C15.exact_semi', nth=2),
    Mutant('semi-upper-cap', _A, '                high = highbound\n                break\n            inc += inc\n\n        # Bisection',
           '                high = highbound - 1\n                break\n            inc += inc\n\n        # Bisection',
           'C15.exact_semi', nth=2),
    Mutant('semi-batch-row', SEMI, 'val, d_x, d_values_tuple, extrapolate = table.interpolate(xi[j, :])',
           'val, d_x, d_values_tuple, extrapolate = table.interpolate(xi[0, :])', 'C15.exact_semi'),
    # ---------------------------------------------------------------- C15.entry
    Mutant('entry-comp-no-transpose', MMS, "        pt = np.array([inputs[pname].ravel() for pname in self.pnames]).T\n"
           "        for out_name, interp in self.interps.items():\n            if self.options",
           "        pt = np.array([inputs[pname].ravel() for pname in self.pnames])\n"
           "        for out_name, interp in self.interps.items():\n            if self.options", 'C15.entry'),
    Mutant('entry-comp-axes-permuted', MMS, "        pt = np.array([inputs[pname].ravel() for pname in self.pnames]).T\n"
           "        for out_name, interp in self.interps.items():\n            if self.options",
           "        pt = np.array([inputs[pname].ravel() for pname in reversed(self.pnames)]).T\n"
           "        for out_name, interp in self.interps.items():\n            if self.options", 'C15.entry'),
    Mutant('entry-comp-output-reversed', MMS, '            outputs[out_name] = val\n', '            outputs[out_name] = val[::-1]\n',
           'C15.entry'),
    Mutant('entry-comp-swallowed', MMS, '                raise AnalysisError(errmsg, inspect.currentframe(), self.msginfo)',
           '                val = np.zeros(len(pt))', 'C15.entry'),
    Mutant('entry-1d-points-as-coordinates', _I, '                    x = np.atleast_2d(x).T\n', '                    x = np.atleast_2d(x)\n',
           'C15.entry'),
    Mutant('entry-single-point-threshold', _I, '                if len(self.grid) > 1:\n', '                if len(self.grid) > 2:\n',
           'C15.entry'),
    Mutant('entry-result-dropped', _I, '        xnew = self._interpolate(x)\n\n        if compute_derivative:',
           '        xnew = self._interpolate(x[:1])\n\n        if compute_derivative:', 'C15.entry'),
    # ---------------------------------------------------------------- twins
    Twin('twin-flag-branches-swapped', _I, _CHECK_BLOCK, _CHECK_BLOCK_FLIPPED),
    Twin('twin-bounds-helper-method', _I, **_helper_edit()),
    Twin('twin-bounds-helper-keyword', _I, **_helper_edit(call='            self._check_bounds(xi=xi)\n')),
    Twin('twin-minmax-reduction', _I, _BT,
         'if np.min(p) < self.grid[i][0] - eps or p.max() > self.grid[i][-1] + eps:'),
    Twin('twin-minmax-inbounds-guard', _I, _CHECK_BODY, _GUARD_BODY.replace(
        'if not (np.any(p < lower - eps) or np.any(p > upper + eps)):',
        'if np.min(p) >= lower - eps and np.max(p) <= upper + eps:')),
    Twin('twin-zeroguard-helper', _AK, '        jj2 = np.where(np.atleast_1d(w32 + w4) > eps)', '        jj2 = _safe_idx(w32 + w4, eps=eps)',
         also=[(_AK, '        jj1 = np.where(np.atleast_1d(w2 + w31) > eps)', '        jj1 = _safe_idx(w2 + w31, eps)'),
               (_AK, 'class InterpAkima(InterpAlgorithm):', _AK_HELPER + 'class InterpAkima(InterpAlgorithm):')]),
    Twin('twin-rebuild-comprehension', MMS, "        for name, train_data in self.training_outputs.items():\n"
         "            self.interps[name] = InterpND(method=interp_method,\n"
         "                                          points=self.inputs, values=train_data,\n"
         "                                          extrapolate=self.options['extrapolate'])",
         "        self.interps = {name: InterpND(method=interp_method, points=self.inputs, values=train_data,\n"
         "                                       extrapolate=self.options['extrapolate'])\n"
         "                        for name, train_data in self.training_outputs.items()}"),
    Twin('twin-rebuild-cleared-first', MMS, "        for name, train_data in self.training_outputs.items():\n"
         "            self.interps[name] = InterpND(",
         "        self.interps.clear()\n        for name, train_data in self.training_outputs.items():\n"
         "            self.interps[name] = InterpND("),
    Twin('twin-zeroguard-flipped-test', _AK, '        if w32 + w4 > eps:\n            bp1 = bp1pos\n',
         '        if eps < w32 + w4:\n            bp1 = bp1pos\n'),
    Twin('twin-zeroguard-mask-renamed', _AK, 'jj2', 'sel2', nth='all'),
    Twin('twin-guard-clause-hoisted', _I, _CHECK_BODY, _GUARD_BODY),
    Twin('twin-guard-clause-all', _I, _CHECK_BODY, _GUARD_BODY.replace(
        'if not (np.any(p < lower - eps) or np.any(p > upper + eps)):',
        'if np.all(p >= lower - eps) and np.all(upper + eps >= p):')),
    Twin('twin-elementwise-or', _I, _BT, 'if np.any((p < self.grid[i][0] - eps) | (p > self.grid[i][-1] + eps)):'),
    Twin('twin-method-any', _I, _BT, 'if (p < self.grid[i][0] - eps).any() or (p > self.grid[i][-1] + eps).any():'),
    Twin('twin-l2-matmul', LAG2, 'a = np.einsum("mi,nj,ij->mn", termx, termy, all_val)', 'a = termx @ all_val @ termy.T'),
    Twin('twin-sl-2d-divide', _S, '        rec_vol = 1.0 / ((x0 - x1) * (y0 - y1))\n        return a * rec_vol',
         '        return a / ((x1 - x0) * (y1 - y0))'),
    Twin('twin-comp-transpose-call', MMS, "        pt = np.array([inputs[pname].ravel() for pname in self.pnames]).T\n"
         "        for out_name, interp in self.interps.items():\n            if self.options",
         "        cols = [inputs[pname].ravel() for pname in self.pnames]\n        pt = np.transpose(np.array(cols))\n"
         "        for out_name, interp in self.interps.items():\n            if self.options"),
    Twin('twin-interpolate-ndim', _I, '            if len(x.shape) < 2:\n', '            if x.ndim < 2:\n'),
    Twin('twin-flipped-compare', _I, _BT,
         'if np.any(self.grid[i][0] - eps > p) or np.any(self.grid[i][-1] + eps < p):'),
    Twin('twin-temporaries', _I, '                ' + _EPS + '\n                ' + _BT,
         '                lo = self.grid[i][0]\n                hi = self.grid[i][-1]\n                tol = abs(hi) * 1e-14\n'
         '                if np.any(p < lo - tol) or np.any(p > hi + tol):'),
    Twin('twin-span-tolerance', _I, _EPS, 'eps = 1e-14 * (self.grid[i][-1] - self.grid[i][0])'),
    Twin('twin-max-abs-tolerance', _I, _EPS, 'eps = 1e-14 * max(abs(self.grid[i][0]), abs(self.grid[i][-1]))'),
    Twin('twin-np-abs', _I, _EPS, 'eps = np.abs(self.grid[i][-1]) * 1e-14'),
    Twin('twin-no-tolerance', _I, _BT, 'if np.any(p < self.grid[i][0]) or np.any(p > self.grid[i][-1]):'),
    Twin('twin-len-index', _I, 'np.any(p > self.grid[i][-1] + eps)', 'np.any(p > self.grid[i][len(self.grid[i]) - 1] + eps)'),
    Twin('twin-semi-flipped-else', _A, _SEMI_LOW,
         '                    if self.extrapolate:\n                        return last_index, -1\n                    else:\n'
         '                        msg = f"Extrapolation while evaluation dimension {self.idim}."\n'
         '                        raise OutOfBoundsError(msg, self.idim, x, grid[0], grid[-1])'),
    Twin('twin-kernel-rename', _S, '            values = self.values[tuple(slice_idx)]\n'
         '            slope = (values[..., idx + 1] - values[..., idx]) * h\n\n'
         '            return values[..., idx] + (x - grid[idx]) * slope, slope[..., None], \\\n                None, None',
         '            tab = self.values[tuple(slice_idx)]\n            lo = tab[..., idx]\n'
         '            m = (tab[..., idx + 1] - lo) * h\n\n'
         '            return lo + m * (x - grid[idx]), m[..., None], \\\n                None, None'),
    Twin('twin-2d-reordered', _S, '        a[1] = (c10 - c00) * y1 + (c01 - c11) * y0\n',
         '        a[1] = (c01 - c11) * y0 + (c10 - c00) * y1\n'),
    Twin('twin-clamp-flipped', LAG2, '        if idx > ngrid - 3:\n            idx = ngrid - 3\n\n        derivs = np.empty(len(x), dtype=dtype)\n\n'
         '        xx1 = x[0] - grid[idx]', '        if ngrid - 3 < idx:\n            idx = ngrid - 3\n\n'
         '        derivs = np.empty(len(x), dtype=dtype)\n\n        xx1 = x[0] - grid[idx]'),
    Twin('twin-l3-reordered', LAG3, '        c12 = 1.0 / (p1 - p2)\n        c13 = 1.0 / (p1 - p3)\n',
         '        c13 = 1.0 / (p1 - p3)\n        c12 = 1.0 / (p1 - p2)\n'),
    Twin('twin-comp-alias', MMS, "            self.interps[name] = InterpND(method=interp_method,\n"
         "                                          points=self.inputs, values=train_data,\n"
         "                                          extrapolate=self.options['extrapolate'])",
         "            extrap = self.options['extrapolate']\n"
         "            self.interps[name] = InterpND(method=interp_method, points=self.inputs, values=train_data,\n"
         "                                          extrapolate=extrap)"),
    Twin('twin-semi-flag-from-attribute', SEMI, '        table = interp(self.grid, values, interp, extrapolate=extrapolate, **kwargs)',
         '        table = interp(self.grid, values, interp, extrapolate=self.extrapolate, **kwargs)'),
    Twin('twin-akima-key-with-side', _AK, _AK_CACHE,
         '        key = (idx, extrap)\n        if key not in self.coeffs:\n'
         '            self.coeffs[key] = self.compute_coeffs(idx, extrap)\n        a, b, c, d = self.coeffs[key]'),
    Twin('twin-akima-key-renamed', _AK, '        query_idx = idx\n', '        raw = idx\n',
         also=[(_AK, _AK_CACHE, '        if raw not in self.coeffs:\n            self.coeffs[raw] = self.compute_coeffs(idx, extrap)\n'
                '        a, b, c, d = self.coeffs[raw]')]),
    Twin('twin-sl-key-inline', _S, '        if idx_key not in self.coeffs:\n            self.coeffs[idx_key] = self.compute_coeffs(idx, dtype)\n'
         '        a = self.coeffs[idx_key]\n\n        val = a[0] + (a[1] + a[3] * y) * x + a[2] * y',
         '        if tuple(idx) not in self.coeffs:\n            self.coeffs[tuple(idx)] = self.compute_coeffs(idx, dtype)\n'
         '        a = self.coeffs[tuple(idx)]\n\n        val = a[0] + (a[1] + a[3] * y) * x + a[2] * y'),
    Twin('twin-bisect-flipped', _A, _BIS, '            if grid[low] > x:\n                high = low\n            else:\n'
         '                last_index = low'),
    Twin('twin-bisect-branches-swapped', _A, _BIS, '            if x >= grid[low]:\n                last_index = low\n            else:\n'
         '                high = low', nth=1),
    Twin('twin-transpose-call', _I, 'for i, p in enumerate(xi.T):', 'for i, p in enumerate(np.transpose(xi)):'),
)
