"""C11 -- assembled Jacobian formats (dense / COO / CSC / CSR / matrix-free dict) are one operator.

The numbers are not decided here.  What is decided are the structural clauses that make the five
representations agree: the update protocol of every ``Matrix`` class (assign into a private COO
slice vs. accumulate through a many-to-one index map into a zeroed buffer), the construction of the
COO->CSC/CSR index map (sort key, duplicate detection, write through the sort order), the per
sub-jacobian slice bookkeeping, the single application of the unit ``factor`` to exactly the entries
a sub-jacobian owns, dtype switches (matrix buffers and sub-jacobian storage), the transpose cache,
the update transaction order, ``_prod`` fwd/rev and the fwd/rev mirror of the matrix-free
``Subjac._apply_*`` functions.
"""
import ast

from .. import astx, cfg as cfgm
from ..core import AnalysisError, Func
from ..engine import rule, describe, selftest, Mutant, Twin

MAT = 'openmdao/matrices/matrix.py'
COO = 'openmdao/matrices/coo_matrix.py'
CSC = 'openmdao/matrices/csc_matrix.py'
CSR = 'openmdao/matrices/csr_matrix.py'
DENSE = 'openmdao/matrices/dense_matrix.py'
SUBJAC = 'openmdao/jacobians/subjac.py'
JAC = 'openmdao/jacobians/jacobian.py'

MATRICES = [(COO, 'COOMatrix'), (CSC, 'CSCMatrix'), (CSR, 'CSRMatrix'), (DENSE, 'DenseMatrix')]
COMPRESSED = [(CSC, 'CSCMatrix', 'csc_matrix'), (CSR, 'CSRMatrix', 'csr_matrix')]

describe('C11',
         'Decides structural necessary conditions for "dense, COO, CSC, CSR and matrix-free give the same '
         'product": (accum) each Matrix class either assigns a sub-jacobian into its private COO slice or '
         'accumulates it exactly once through the many-to-one COO->CSx map into a buffer that _pre_update '
         'zeroes, with np.add.at whenever the pre-computed within-subjac duplicate flag is set, the flag and '
         'the dense "has repeated" detector being evaluated exhaustively on small (n, unique) domains; '
         '(order-key) lexsort primary key matches the scipy container, duplicates detected with OR of the '
         'row/col differences, cumsum-1, map written through the sort order; (slices) symbolic execution of '
         'the COO slice bookkeeping loop; (factor-once / factor-region) subjac.factor multiplies the stored '
         'values exactly once on every path, before an accumulate, never in place on the sub-jacobian\'s own '
         'storage, and over exactly the region just written; (dtype / dtype-slot) matrix buffers and '
         'sub-jacobian storage are converted with the requested dtype, cached vector views are dropped, kinds '
         'f/c handled and others rejected, and set_dtype converts the kind of storage the class holds; '
         '(cache) the cached transpose is invalidated after every rebind of the data; (update-order) '
         '_pre_update once -> every _update_from_submat -> _post_update, both split matrices updated; (prod) '
         '_prod fwd/rev and mask handling; (apply) fwd/rev mirror of the 12 matrix-free Subjac._apply_* '
         'functions; (split-apply) which vector each split matrix multiplies per mode and the input mask in '
         'fwd/rev; (coo-info) abstract evaluation of every Subjac.as_coo_info for the four (full, src_indices) cases: '
         'rows = local rows + row_slice.start iff full, cols = src_indices mapping first, then + col_slice.start iff '
         'full, once; (loopdef) no loop-carried stale factor/src/src_inds_list reaches a sub-jacobian constructor in '
         '_get_split_subjacs; (closed-world, thorough) no Matrix/Subjac subclass outside the analysed ones.  Two clauses '
         'fired on the tree before its last two fix commits and were confirmed at run time as genuine defects: DenseMatrix scales the '
         'whole (of, source) block by subjac.factor (factor-region) and COOSubjac.set_dtype converts a scipy '
         'COO value as if it were an ndarray (dtype-slot).  Does not decide numerical values, scipy internals, or that get_coo_data_size() equals '
         'the length of as_coo_info() rows.',
         ['scipy csc_matrix/csr_matrix((data, (row, col))) yields canonical (sorted, duplicate-summed) '
          'storage; coo_matrix keeps duplicates and sums them in @ and toarray()',
          'ndarray.ravel()/as_coo_info data may alias the sub-jacobian storage',
          'x[idx] += v with repeated idx does not accumulate (numpy semantics)'])


# =========================================================================== helpers
class Unknown(Exception):
    def __init__(self, node, why=''):
        self.node, self.why = node, why


def clone(n):
    """Structural copy of an AST without the `_parent` back links (deepcopy would copy the module)."""
    if isinstance(n, ast.AST):
        new = type(n)()
        for f in n._fields:
            if hasattr(n, f):
                setattr(new, f, clone(getattr(n, f)))
        for a in ('lineno', 'col_offset', 'end_lineno', 'end_col_offset'):
            if hasattr(n, a):
                setattr(new, a, getattr(n, a))
        return new
    if isinstance(n, list):
        return [clone(x) for x in n]
    return n


def dump(e):
    return astx.dump(clone(e))


def _has_call(e):
    return any(isinstance(n, ast.Call) for n in ast.walk(e))


class FA:
    """Per-function analysis context: CFG, reaching definitions, alias expansion."""

    def __init__(self, fn):
        self.fn = fn
        self.g = cfgm.build(fn)
        self.rd = cfgm.ReachingDefs(self.g)
        a = fn.node.args
        self.params = [x.arg for x in a.posonlyargs + a.args]

    def at(self, stmt):
        ns = self.g.nodes_of(stmt)
        if not ns:
            raise AnalysisError(f'{self.fn.ident}: statement not in CFG: {astx.src(stmt)}')
        return ns[0]

    def _subst(self, name, at, depth):
        """Expansion of a local name by its unique call-free definition, else None."""
        if depth > 8:
            return None
        ds = self.rd.defs(at, name)
        if len(ds) != 1:
            return None
        d = next(iter(ds))
        if d.kind != 'stmt' or not isinstance(d.ast, ast.Assign):
            return None
        tg = [t for t in d.ast.targets if astx.path(t) == name]
        if not tg:
            return None
        if not all(isinstance(t, ast.Name) for t in d.ast.targets):
            # `name = self.attr = value` (any order): name is an alias of self.attr while self.attr is not rebound
            sib = [t for t in d.ast.targets if isinstance(t, ast.Attribute) and (astx.path(t) or '').startswith('self.')
                   and astx.path(t).count('.') == 1]
            if len(sib) == 1 and all(isinstance(t, (ast.Name, ast.Attribute)) for t in d.ast.targets):
                sp = astx.path(sib[0])
                rebinds = [st for st in astx.walk_stmts(self.fn.node.body)
                           if isinstance(st, (ast.Assign, ast.AugAssign, ast.AnnAssign)) and
                           any(astx.path(t) == sp for t in astx.assigned_targets(st))]
                if len(rebinds) == 1:
                    r = clone(sib[0])
                    r.ctx = ast.Load()
                    return r
            return None
        v = d.ast.value
        if _has_call(v):
            return None
        # operands must not have been redefined between the definition and the use
        for n in astx.walk(v):
            if isinstance(n, ast.Name) and self.rd.defs(d, n.id) != self.rd.defs(at, n.id):
                return None
        return self.expand(v, d, depth + 1)

    def expand(self, e, at, depth=0):
        """Copy of expression e with local aliases (unique call-free definitions) substituted."""
        fa = self

        class T(ast.NodeTransformer):
            def visit_Name(self, node):
                s = fa._subst(node.id, at, depth)
                if s is not None:
                    return s
                return node
        r = T().visit(clone(e))
        for n in ast.walk(r):           # contexts are irrelevant for structural comparison
            if hasattr(n, 'ctx'):
                n.ctx = ast.Load()
        return r

    def xp(self, e, at):
        """Access path of e with aliases expanded (None if not a path)."""
        return astx.path(self.expand(e, at))

    def origin_at(self, e, at, depth=0):
        """(defining expression, node of that definition) of a local name (calls allowed)."""
        while isinstance(e, ast.Name) and depth < 8:
            v = self.rd.value(at, e.id)
            if v is None:
                return e, at
            at = next(iter(self.rd.defs(at, e.id)))
            e = v
            depth += 1
        return e, at

    def origin(self, e, at):
        return self.origin_at(e, at)[0]

    def paths(self, limit=512):
        """All normal (non-exceptional) entry->exit paths as lists of (node, label taken)."""
        g = self.g
        out = []

        def rec(n, acc, seen):
            if len(out) > limit:
                raise AnalysisError(f'{self.fn.ident}: too many paths')
            if n is g.exit:
                out.append(list(acc))
                return
            for m, lab in g.succ[n]:
                if lab == 'exc':
                    continue
                if m in seen:
                    raise AnalysisError(f'{self.fn.ident}: loop in a function expected to be loop-free')
                acc.append((n, lab))
                rec(m, acc, seen | {m})
                acc.pop()
        rec(g.entry, [], {g.entry})
        return out


def _set_parents(node, parent=None):
    node._parent = parent
    for ch in ast.iter_child_nodes(node):
        _set_parents(ch, node)


def inline_helpers(repo, rel, cls, fn, depth=0):
    """Func whose body has every statement `self.<helper>(args)` replaced by the body of the helper (resolved
    through the MRO of cls), parameters substituted by the argument expressions and helper locals renamed.
    Helpers with early returns, generators, parameter re-binding or starred arguments are left as calls."""
    if fn is None or depth > 2:
        return fn
    changed = [False]

    def expand_body(body):
        out_ = []
        for st in body:
            new = None
            if isinstance(st, ast.Expr) and isinstance(st.value, ast.Call) and \
                    astx.path(astx.receiver(st.value)) == 'self' and not any(isinstance(a, ast.Starred) for a in st.value.args):
                h = repo.lookup(rel, cls, astx.callee_attr(st.value))
                if h is not None and h.node is not fn.node:
                    new = inlined(h, st.value)
            if new is not None:
                changed[0] = True
                out_.extend(new)
                continue
            st2 = clone(st)
            for fld in ('body', 'orelse', 'finalbody'):
                sub = getattr(st, fld, None)
                if isinstance(sub, list) and sub and isinstance(sub[0], ast.stmt):
                    setattr(st2, fld, expand_body(sub))
            if isinstance(st, ast.Try):
                for h2, h1 in zip(st2.handlers, st.handlers):
                    h2.body = expand_body(h1.body)
            out_.append(st2)
        return out_

    def inlined(h, call):
        hn = inline_helpers(repo, rel, cls, h, depth + 1).node
        a = hn.args
        if a.vararg or a.kwarg or a.kwonlyargs or not a.args:
            return None
        params = [x.arg for x in a.posonlyargs + a.args]
        if 'staticmethod' not in h.decorators():
            params = params[1:]
        if len(call.args) > len(params):
            return None
        amap = dict(zip(params, call.args))
        for k in call.keywords:
            if k.arg is None or k.arg not in params:
                return None
            amap[k.arg] = k.value
        ndef = len(a.defaults)
        for prm, dflt in zip(params[len(params) - ndef:] if ndef else [], a.defaults):
            amap.setdefault(prm, dflt)
        if set(params) - set(amap):
            return None
        body = astx.strip_doc(hn.body)
        if body and isinstance(body[-1], ast.Return) and (body[-1].value is None or (
                isinstance(body[-1].value, ast.Constant) and body[-1].value.value is None)):
            body = body[:-1]
        locals_ = set()
        for x in ast.walk(ast.Module(body=body, type_ignores=[])):
            if isinstance(x, (ast.Return, ast.Yield, ast.YieldFrom, ast.FunctionDef, ast.Lambda, ast.Global, ast.Nonlocal)):
                return None
            if isinstance(x, ast.Name) and isinstance(x.ctx, (ast.Store, ast.Del)):
                if x.id in amap:
                    return None
                locals_.add(x.id)

        class T(ast.NodeTransformer):
            def visit_Name(self, node):
                if node.id in amap:
                    return clone(amap[node.id])
                if node.id in locals_:
                    return ast.copy_location(ast.Name(id=node.id + '__inl', ctx=node.ctx), node)
                return node
        return [T().visit(clone(x)) for x in body] or [ast.copy_location(ast.Pass(), call)]

    new_body = expand_body(fn.node.body)
    if not changed[0]:
        return fn
    node = clone(fn.node)
    node.body = new_body
    ast.fix_missing_locations(node)
    _set_parents(node, getattr(fn.node, '_parent', None))
    return Func(fn.module, fn.qualname, node, fn.cls)


def method(repo, rel, cls, name):
    """The method a class resolves `name` to, with self-helper calls inlined."""
    f = repo.lookup(rel, cls, name)
    if f is None:
        raise AnalysisError(f'{cls}.{name} not found')
    return inline_helpers(repo, rel, cls, f)


def path_expand(fa, p, e, upto, depth=0):
    """Copy of e in which local names are replaced by the value last assigned to them ON PATH p before node
    `upto` (simple `name = expr` assignments only; names assigned in any other way are left alone)."""
    nodes = [n for n, _ in p]
    if upto in nodes:
        nodes = nodes[:nodes.index(upto)]
    last = {}
    for n in nodes:
        if n.kind in ('stmt', 'iter', 'with'):
            for t in astx.assigned_targets(n.ast):
                pth = astx.path(t)
                if pth and isinstance(t, ast.Name):
                    ok = n.kind == 'stmt' and isinstance(n.ast, ast.Assign) and len(n.ast.targets) == 1 and \
                        n.ast.targets[0] is t
                    last[pth] = n if ok else None

    class T(ast.NodeTransformer):
        def visit_Name(self, node):
            d = last.get(node.id)
            if d is not None and depth < 8:
                return path_expand(fa, p, d.ast.value, d, depth + 1)
            return node
    r = T().visit(clone(e))
    for x in ast.walk(r):
        if hasattr(x, 'ctx'):
            x.ctx = ast.Load()
    return r


def strip_full(e):
    """Drop trailing subscripts that select everything (x[:], x[:, :], x[...])."""
    def full(s):
        if isinstance(s, ast.Slice):
            return s.lower is None and s.upper is None and s.step is None
        if isinstance(s, ast.Constant) and s.value is Ellipsis:
            return True
        if isinstance(s, ast.Tuple):
            return all(full(x) for x in s.elts)
        return False
    while isinstance(e, ast.Subscript) and full(e.slice):
        e = e.value
    return e


def region_key(e):
    return dump(strip_full(e))


def root_path(e):
    """Path of the object a (nested) subscript expression indexes into."""
    while isinstance(e, ast.Subscript):
        e = e.value
    return astx.path(e)


def is_none_test(t):
    """(operand, True if `operand is None` / False if `is not None`) or None."""
    if isinstance(t, ast.Compare) and len(t.ops) == 1 and isinstance(t.ops[0], (ast.Is, ast.IsNot)) \
            and isinstance(t.comparators[0], ast.Constant) and t.comparators[0].value is None:
        return t.left, isinstance(t.ops[0], ast.Is)
    return None


def test_truth(test, label, atom):
    """Truth value of atom implied by taking edge `label` of `test`; atom(expr)->True/False/None
    says whether expr *is* the atom (True), its negation (False) or something else (None)."""
    pol = label == 'true'
    t = test
    while isinstance(t, ast.UnaryOp) and isinstance(t.op, ast.Not):
        t = t.operand
        pol = not pol
    a = atom(t)
    if a is None:
        return None
    return pol if a else not pol


def calls_named(node, *names):
    return [c for c in astx.calls(node) if astx.callee_attr(c) in names]


def is_zero(e):
    return isinstance(e, ast.Constant) and not isinstance(e.value, bool) and \
        isinstance(e.value, (int, float, complex)) and e.value == 0


def ev(e, env):
    """Evaluate a small arithmetic/boolean expression; env(expr) returns a number or raises KeyError."""
    try:
        return env(e)
    except KeyError:
        pass
    if isinstance(e, ast.Constant) and isinstance(e.value, (int, float, bool)):
        return e.value
    if isinstance(e, ast.BoolOp):
        if isinstance(e.op, ast.And):
            r = True
            for v in e.values:
                r = ev(v, env)
                if not r:
                    return r
            return r
        r = False
        for v in e.values:
            r = ev(v, env)
            if r:
                return r
        return r
    if isinstance(e, ast.UnaryOp) and isinstance(e.op, ast.Not):
        return not ev(e.operand, env)
    if isinstance(e, ast.UnaryOp) and isinstance(e.op, ast.USub):
        return -ev(e.operand, env)
    if isinstance(e, ast.BinOp) and isinstance(e.op, (ast.Add, ast.Sub, ast.Mult)):
        a, b = ev(e.left, env), ev(e.right, env)
        return a + b if isinstance(e.op, ast.Add) else a - b if isinstance(e.op, ast.Sub) else a * b
    if isinstance(e, ast.Compare):
        left = ev(e.left, env)
        for op, c in zip(e.ops, e.comparators):
            right = ev(c, env)
            ok = {ast.Lt: left < right, ast.LtE: left <= right, ast.Gt: left > right,
                  ast.GtE: left >= right, ast.Eq: left == right, ast.NotEq: left != right}.get(type(op))
            if ok is None:
                raise Unknown(e)
            if not ok:
                return False
            left = right
        return True
    raise Unknown(e)


def subj_param(fa):
    """Name of the sub-jacobian parameter of _update_from_submat(self, subjac, randgen)."""
    if len(fa.params) < 2:
        raise AnalysisError(f'{fa.fn.ident}: no sub-jacobian parameter')
    return fa.params[1]


# --------------------------------------------------------------------------- write events
class Ev:
    def __init__(self, kind, node, stmt, target=None, value=None, index=None, buf=None, name=None):
        self.kind = kind        # write | accum-buffered | accum-at | mul-target | mul-local | mul-value | opaque
        self.node, self.stmt = node, stmt
        self.target, self.value, self.index, self.buf, self.name = target, value, index, buf, name


def update_events(fa):
    """Map CFG node -> list of events for an _update_from_submat function."""
    subj = subj_param(fa)
    fpath = f'{subj}.factor'
    evs = {}
    for n in fa.g.nodes:
        if n.kind != 'stmt':
            continue
        st = n.ast
        out = []
        if isinstance(st, ast.Assign) and len(st.targets) == 1 and isinstance(st.targets[0], ast.Subscript):
            tx = fa.expand(st.targets[0], n)
            rp = root_path(tx)
            if rp and rp.startswith('self.'):
                out.append(Ev('write', n, st, target=tx, value=st.value, buf=rp,
                              index=tx.slice if isinstance(tx, ast.Subscript) else None))
        if isinstance(st, ast.AugAssign):
            tx = fa.expand(st.target, n)
            rp = root_path(tx)
            is_self = bool(rp and rp.startswith('self.'))
            vfac = fa.xp(st.value, n) == fpath
            if isinstance(st.op, ast.Add) and is_self and isinstance(tx, ast.Subscript):
                out.append(Ev('accum-buffered', n, st, target=tx, value=st.value, buf=astx.path(tx.value),
                              index=tx.slice))
            elif isinstance(st.op, ast.Mult) and vfac:
                if is_self:
                    out.append(Ev('mul-target', n, st, target=tx, buf=rp))
                elif isinstance(st.target, ast.Name):
                    out.append(Ev('mul-local', n, st, name=st.target.id))
                else:
                    out.append(Ev('opaque', n, st))
            elif is_self and astx.mentions(st.value, 'factor'):
                out.append(Ev('opaque', n, st))
        if isinstance(st, ast.Assign) and len(st.targets) == 1 and isinstance(st.targets[0], ast.Name) and \
                isinstance(st.value, ast.BinOp) and isinstance(st.value.op, ast.Mult):
            l, r = st.value.left, st.value.right
            if fa.xp(l, n) == fpath or fa.xp(r, n) == fpath:
                other = r if fa.xp(l, n) == fpath else l
                out.append(Ev('mul-value', n, st, name=st.targets[0].id, value=other))
        for c in astx.calls(st):
            if astx.call_name(c) in ('np.add.at', 'numpy.add.at') and len(c.args) == 3:
                bx = fa.expand(c.args[0], n)
                out.append(Ev('accum-at', n, st, target=bx, buf=astx.path(bx), index=fa.expand(c.args[1], n),
                              value=c.args[2]))
            elif astx.path(astx.receiver(c) or ast.Constant(0)) == 'self' and \
                    any(isinstance(a, ast.Name) and a.id == subj for a in c.args):
                out.append(Ev('opaque', n, st))
        if out:
            evs[n] = out
    return evs


def factor_truth(fa, node, label):
    """True/False if the edge says subjac.factor is present/absent, None if the test is unrelated,
    'unknown' if the test mentions factor in an unrecognised way."""
    subj = subj_param(fa)
    t = node.ast.test

    def atom(x):
        nt = is_none_test(x)
        if nt and fa.xp(nt[0], node) == f'{subj}.factor':
            return not nt[1]          # `is not None` is the atom "present"
        if fa.xp(x, node) == f'{subj}.factor':
            return True               # truthiness test (`if subjac.factor:`)
        return None
    r = test_truth(t, label, atom)
    if r is None and astx.mentions(t, 'factor'):
        return 'unknown'
    return r


# =========================================================================== facts about _build
class CompressedBuild:
    """Facts extracted from CSCMatrix._build / CSRMatrix._build.  The lexsort-based map computation may live
    in _build itself or in a helper method called from _build whose result is stored in a self attribute."""

    @staticmethod
    def _find_sort(fa):
        found = []
        for n in fa.g.nodes:
            if n.kind == 'stmt' and isinstance(n.ast, ast.Assign) and len(n.ast.targets) == 1 and \
                    isinstance(n.ast.targets[0], ast.Name) and isinstance(n.ast.value, ast.Call) and \
                    astx.callee_attr(n.ast.value) == 'lexsort':
                found.append(n)
        return found

    def __init__(self, repo, rel, cls):
        self.bfn = repo.func(rel, f'{cls}._build')
        self.bfa = bfa = FA(self.bfn)
        self.fn, self.fa = self.bfn, bfa
        self.call_node = None
        self.param_args = {}
        found = self._find_sort(bfa)
        if not found:
            for n in bfa.g.nodes:
                if n.kind != 'stmt' or not isinstance(n.ast, ast.Assign) or not isinstance(n.ast.value, ast.Call):
                    continue
                c = n.ast.value
                if astx.path(astx.receiver(c)) not in ('self', cls, 'self.__class__'):
                    continue
                h = repo.lookup(rel, cls, astx.callee_attr(c))
                if h is None:
                    continue
                hfa = FA(h)
                hf = self._find_sort(hfa)
                if not hf:
                    continue
                if self.call_node is not None:
                    raise AnalysisError(f'{self.bfn.ident}: more than one helper with lexsort')
                params = list(hfa.params)
                if 'staticmethod' not in h.decorators() and params:
                    params = params[1:]
                if any(isinstance(a, ast.Starred) for a in c.args) or len(c.args) > len(params):
                    raise AnalysisError(f'{self.bfn.ident}: helper call arguments not understood')
                self.param_args = dict(zip(params, c.args))
                for k in c.keywords:
                    if k.arg:
                        self.param_args[k.arg] = k.value
                self.fn, self.fa, self.call_node, found = h, hfa, n, hf
        if len(found) != 1:
            raise AnalysisError(f'{self.bfn.ident}: expected exactly one `name = np.lexsort(...)` in _build or in a '
                                f'helper called from it, found {len(found)}')
        fa = self.fa
        self.sort_stmt = found[0]
        self.sort_call, self.sort_name = found[0].ast.value, found[0].ast.targets[0].id
        # element-wise stores in the lexsort function:  X[...] = ...
        self.elem_stores = []   # (node, path of X, index, value)
        for n in fa.g.nodes:
            if n.kind == 'stmt' and isinstance(n.ast, ast.Assign) and len(n.ast.targets) == 1 and \
                    isinstance(n.ast.targets[0], ast.Subscript):
                t = n.ast.targets[0]
                p = fa.xp(t.value, n) or astx.path(t.value)
                if p:
                    self.elem_stores.append((n, p, t.slice, n.ast.value))
        # the many-to-one map: stored through the sort order
        self.map_stores = [(n, p, s, v) for n, p, s, v in self.elem_stores
                           if isinstance(s, ast.Name) and s.id == self.sort_name]
        if self.call_node is None:
            self.map_stores = [x for x in self.map_stores if x[1].startswith('self.') and x[1].count('.') == 1]
            self.map_attrs = {p for _, p, _, _ in self.map_stores}
        else:
            rets = {astx.path(st.value) for st in astx.walk_stmts(self.fn.node.body) if isinstance(st, ast.Return)}
            self.map_stores = [x for x in self.map_stores if rets == {x[1]}]
            self.map_attrs = {astx.path(t) for t in self.call_node.ast.targets
                              if (astx.path(t) or '').startswith('self.')} if self.map_stores else set()
        # the within-subjac duplicate flag (always in _build): <self.D or alias>[key] = <... unique ...> in a loop
        self.flag_stores = []
        for n in bfa.g.nodes:
            if n.kind == 'stmt' and isinstance(n.ast, ast.Assign) and len(n.ast.targets) == 1 and \
                    isinstance(n.ast.targets[0], ast.Subscript) and astx.mentions(n.ast.value, 'unique') and \
                    astx.enclosing(n.ast, (ast.For,)) is not None:
                t = n.ast.targets[0]
                p = bfa.xp(t.value, n) or astx.path(t.value)
                if p and p.startswith('self.'):
                    self.flag_stores.append((n, p, t.slice, n.ast.value))
        self.flag_attrs = {p for _, p, _, _ in self.flag_stores}

    def lexpand(self, e, at):
        """Expression of the lexsort function with local aliases expanded and, for a helper, its parameters
        replaced by the (alias-expanded) arguments of the call in _build."""
        x = self.fa.expand(e, at)
        if self.call_node is None:
            return x
        cb = self

        class T(ast.NodeTransformer):
            def visit_Name(self, node):
                a = cb.param_args.get(node.id)
                if a is not None and cb.fa.rd.defs(at, node.id) == {cb.fa.g.entry}:
                    return cb.bfa.expand(a, cb.call_node)
                return node
        return T().visit(x)

    def role(self, e, at):
        """'row' / 'col' / 'data' if e (in the lexsort function) denotes self._coo.<role>."""
        return {'self._coo.row': 'row', 'self._coo.col': 'col', 'self._coo.data': 'data'}.get(
            astx.path(self.lexpand(e, at)))


def _zeroes(fa, node, buf):
    """True if the statement at `node` sets every element of access path `buf` to zero."""
    st = node.ast
    if node.kind != 'stmt':
        return False
    if isinstance(st, ast.Assign) and len(st.targets) == 1:
        t = st.targets[0]
        tx = fa.expand(t, node)
        if isinstance(t, ast.Subscript) and astx.path(strip_full(tx)) == buf and \
                strip_full(tx) is not tx and is_zero(st.value):
            return True
        if astx.path(tx) == buf and isinstance(st.value, ast.Call) and \
                astx.callee_attr(st.value) in ('zeros', 'zeros_like'):
            return True
    if isinstance(st, ast.Expr) and isinstance(st.value, ast.Call) and astx.callee_attr(st.value) == 'fill' \
            and len(st.value.args) == 1 and is_zero(st.value.args[0]) and \
            fa.xp(astx.receiver(st.value), node) == buf:
        return True
    return False


def _path_flags(fa, path, atom_of):
    """Conjunction of atom truths along a path: dict name -> True/False; None if contradictory."""
    vals = {}
    for n, lab in path:
        if n.kind != 'test' or lab not in ('true', 'false'):
            continue
        for name, atom in atom_of.items():
            r = test_truth(n.ast.test, lab, lambda x, a=atom, nn=n: a(x, nn))
            if r is None:
                continue
            if name in vals and vals[name] != r:
                return None
            vals[name] = r
    return vals


# =========================================================================== C11.accum
@rule('C11.accum', floor=14)
def accum(repo, out):
    """Update protocol: private-slice assign, or exactly-once accumulate through the shared index map
    into a buffer zeroed by _pre_update, unbuffered (np.add.at) whenever duplicates are flagged."""
    # ---- COOMatrix: assign into the private slice of the COO data
    fn = method(repo, COO, 'COOMatrix', '_update_from_submat')
    fa = FA(fn)
    subj = subj_param(fa)
    evs = update_events(fa)
    writes = [e for l in evs.values() for e in l if e.kind in ('write', 'accum-buffered', 'accum-at')]
    for e in writes:
        want = f'self._coo.data[self._coo_slices[{subj}.key]]'
        if e.kind == 'write' and astx.src(e.target) == astx.src(ast.parse(want, mode='eval').body):
            out.ok(fn, e.stmt, 'assigns into the private COO slice of this sub-jacobian')
        elif e.kind == 'write':
            out.unsure(fn, e.stmt, 'COO write that is not data[self._coo_slices[subjac.key]]')
        else:
            out.unsure(fn, e.stmt, 'accumulating write in COOMatrix (slices are private: assign expected)')
    for p in fa.paths():
        if not any(e.kind == 'write' for n, _ in p for e in evs.get(n, [])):
            out.bad(fn, fn.node, 'a path through COOMatrix._update_from_submat stores nothing: the '
                    'sub-jacobian is dropped from the assembled matrix', key='coo-no-write')
    b = repo.func(COO, 'COOMatrix._build')
    chained = [st for st in astx.walk_stmts(b.node.body) if isinstance(st, ast.Assign) and
               {'self._matrix', 'self._coo'} <= {astx.path(t) for t in st.targets}]
    other = [st for st in astx.walk_stmts(b.node.body) if isinstance(st, ast.Assign) and
             ({'self._matrix', 'self._coo'} & {astx.path(t) for t in st.targets}) and st not in chained]
    if chained and not other:
        out.ok(b, chained[0], 'COOMatrix: _matrix and _coo are the same object (writes to _coo.data are seen by _prod)')
    elif other:
        out.bad(b, other[0], 'COOMatrix._build binds _matrix and _coo to different objects while '
                '_update_from_submat writes _coo.data and _prod reads _matrix', key='coo-matrix-alias')

    # ---- CSC / CSR: accumulate
    for rel, cls, _ in COMPRESSED:
        cb = CompressedBuild(repo, rel, cls)
        fn = method(repo, rel, cls, '_update_from_submat')
        fa = FA(fn)
        subj = subj_param(fa)
        evs = update_events(fa)
        all_evs = [e for l in evs.values() for e in l]
        accs = [e for e in all_evs if e.kind in ('accum-buffered', 'accum-at')]
        wr = [e for e in all_evs if e.kind == 'write']
        bad_here = False
        # plain assignment through the many-to-one map loses the other contributions
        for e in wr:
            if any(astx.mentions(e.target, a.split('.', 1)[1]) for a in cb.map_attrs):
                out.bad(fn, e.stmt, f'{cls}: plain assignment through the many-to-one COO->{cls[:3]} map: '
                        'contributions of other sub-jacobians (or duplicate entries) at the same (row, col) '
                        'are overwritten instead of summed', key='assign-through-shared-map')
                bad_here = True
            else:
                out.unsure(fn, e.stmt, f'{cls}: write that does not go through the index map')
        if not accs and not wr:
            out.bad(fn, fn.node, f'{cls}._update_from_submat stores nothing', key='no-accumulate')
            continue
        bufs = {e.buf for e in accs}
        if len(bufs) > 1:
            out.bad(fn, accs[0].stmt, f'{cls}: accumulates into different buffers {sorted(map(str, bufs))}',
                    key='accumulate-buffer')
            bad_here = True
        # index goes through the shared map restricted to the private COO slice
        n_idx_ok = 0
        for e in accs:
            idx = e.index
            ok_shape = isinstance(idx, ast.Subscript) and astx.path(idx.value) in cb.map_attrs and \
                astx.src(idx.slice) == f'self._coo_slices[{subj}.key]'
            if ok_shape:
                n_idx_ok += 1
            elif not any(astx.mentions(idx, a.split('.', 1)[1]) for a in cb.map_attrs):
                out.bad(fn, e.stmt, f'{cls}: accumulate index `{astx.src(idx)}` does not go through the '
                        f'COO->{cls[:3]} map built in _build ({sorted(cb.map_attrs)}): COO positions are not '
                        'positions in the compressed data array', key='index-not-mapped')
                bad_here = True
            else:
                out.unsure(fn, e.stmt, f'unrecognised index expression {astx.src(idx)}')
        if accs and n_idx_ok == len(accs):
            out.ok(fn, accs[0].stmt, f'{n_idx_ok} accumulate statement(s) index the data through '
                   f'{sorted(cb.map_attrs)}[self._coo_slices[{subj}.key]]')
        # once per path, buffered += only when the duplicate flag is false
        def flag_atom(x, n, fa=fa, cb=cb, subj=subj):
            if isinstance(x, ast.Subscript) and fa.xp(x.value, n) in cb.flag_attrs and \
                    fa.xp(x.slice, n) == f'{subj}.key':
                return True
            return None
        once_ok = True
        for p in fa.paths():
            fl = _path_flags(fa, p, {'dup': flag_atom})
            if fl is None:
                continue
            pe = [e for n, _ in p for e in evs.get(n, []) if e.kind in ('accum-buffered', 'accum-at', 'write')]
            if len(pe) == 0:
                out.bad(fn, fn.node, f'{cls}: a path adds nothing to the matrix (flags {fl}): the sub-jacobian '
                        'is dropped', key='accumulate-once')
                once_ok = False
            elif len(pe) > 1:
                out.bad(fn, pe[1].stmt, f'{cls}: a path adds the sub-jacobian {len(pe)} times', key='accumulate-once')
                once_ok = False
            for e in pe:
                if e.kind == 'accum-buffered' and fl.get('dup') is not False:
                    out.bad(fn, e.stmt, f'{cls}: buffered `{astx.src(e.stmt)}` is reachable when the '
                            'within-subjac duplicate flag is ' + ('set' if fl.get('dup') else 'not tested') +
                            ': x[idx] += v keeps only one of the contributions that share an index '
                            '(np.add.at is required)', key='buffered-add-with-duplicates')
                    once_ok = False
        if once_ok and not bad_here:
            out.ok(fn, fn.node, f'{cls}: exactly one accumulate per path; `+=` only when no within-subjac duplicates')
        # zeroing in the resolved _pre_update
        pre = method(repo, rel, cls, '_pre_update')
        pfa = FA(pre)
        for buf in bufs:
            zs = [n for n in pfa.g.nodes if _zeroes(pfa, n, buf)]
            w = pfa.g.must_pass([pfa.g.entry], [pfa.g.exit], zs, labels=cfgm.noexc)
            if w is None and zs:
                out.ok(pre, zs[0].ast, f'{buf} is zeroed on every path of _pre_update before accumulation')
            else:
                out.bad(pre, pre.node, f'{cls} accumulates into {buf} but {pre.qualname} does not zero it on '
                        f'every path ({pfa.g.fmt_path(w) or "no zeroing statement"}): a second update adds to '
                        'the previous values', key='accumulate-without-zero')
        # the duplicate flag table
        if not cb.flag_stores:
            if any(e.kind == 'accum-buffered' for e in accs):
                out.bad(cb.bfn, cb.bfn.node, f'{cls}._build computes no within-subjac duplicate flag', key='dup-flag')
        for n, p, s, v in cb.flag_stores:
            _check_dup_flag(out, cb, n, p, v)

    # ---- DenseMatrix
    _dense_accum(repo, out)


DOMAIN_NU = [(0, 0), (1, 1), (2, 1), (2, 2), (3, 1), (3, 2), (3, 3), (5, 2), (5, 4), (5, 5)]


def _check_dup_flag(out, cb, n, attr, v):
    """flag must be truthy whenever the number of unique mapped indices is smaller than the count."""
    fa = cb.bfa
    vx = fa.expand(v, n)
    loop = astx.enclosing(n.ast, (ast.For,))
    it = astx.path(loop.iter) if loop is not None else None
    uniq_args = [c.args[0] for c in astx.calls(vx) if astx.callee_attr(c) == 'unique' and c.args]
    if not uniq_args or it not in ('self._coo_slices.items()',):
        out.unsure(cb.bfn, n.ast, 'duplicate flag idiom not recognised (expected a loop over '
                   'self._coo_slices.items() and np.unique(map[coo_slice]))')
        return
    base = uniq_args[0]
    slice_var = loop.target.elts[1].id if isinstance(loop.target, ast.Tuple) and len(loop.target.elts) == 2 \
        and isinstance(loop.target.elts[1], ast.Name) else None
    key_var = loop.target.elts[0].id if slice_var and isinstance(loop.target.elts[0], ast.Name) else None
    good_base = isinstance(base, ast.Subscript) and astx.path(base.value) in cb.map_attrs and \
        isinstance(base.slice, ast.Name) and base.slice.id == slice_var
    if not good_base:
        out.bad(cb.bfn, n.ast, f'duplicate flag is computed from `{astx.src(base)}`, not from the COO->compressed '
                f'map restricted to the sub-jacobian\'s slice ({sorted(cb.map_attrs)}[{slice_var}])',
                key='dup-flag-source')
        return
    if not (isinstance(n.ast.targets[0].slice, ast.Name) and n.ast.targets[0].slice.id == key_var):
        out.bad(cb.bfn, n.ast, 'duplicate flag stored under a key that is not the loop key', key='dup-flag-key')
        return
    bdump = dump(base)

    def env_for(nn, uu):
        def env(e):
            if isinstance(e, ast.Attribute) and e.attr == 'size':
                if isinstance(e.value, ast.Call) and astx.callee_attr(e.value) == 'unique' and \
                        e.value.args and dump(e.value.args[0]) == bdump:
                    return uu
                if dump(e.value) == bdump:
                    return nn
            if isinstance(e, ast.Call) and astx.call_name(e) == 'len' and len(e.args) == 1:
                a = e.args[0]
                if isinstance(a, ast.Call) and astx.callee_attr(a) == 'unique' and a.args and \
                        dump(a.args[0]) == bdump:
                    return uu
                if dump(a) == bdump:
                    return nn
            raise KeyError
        return env
    try:
        for nn, uu in DOMAIN_NU:
            val = ev(vx, env_for(nn, uu))
            if uu < nn and not val:
                out.bad(cb.bfn, n.ast, f'duplicate flag `{astx.src(v)}` is false for a sub-jacobian with {nn} '
                        f'entries mapped to {uu} distinct positions: the buffered `+=` then loses '
                        'contributions', key='dup-flag-formula')
                return
    except Unknown as u:
        out.unsure(cb.bfn, n.ast, f'unrecognised term in duplicate flag: {astx.src(u.node)}')
        return
    out.count('flag_states', len(DOMAIN_NU))
    out.ok(cb.bfn, n.ast, f'flag is set whenever unique(map[slice]).size < size ({len(DOMAIN_NU)} abstract states)')


def _dense_accum(repo, out):
    cls = 'DenseMatrix'
    # 1. has_repeated detector in _build
    b = repo.func(DENSE, 'DenseMatrix._build')
    bfa = FA(b)
    coo_assigns = [n for n in bfa.g.nodes if n.kind == 'stmt' and isinstance(n.ast, ast.Assign) and
                   any(astx.path(t) == 'self._coo' for t in n.ast.targets)]
    tests = []
    for n in coo_assigns:
        par = n.ast._parent
        if isinstance(par, ast.If) and par not in tests:
            tests.append(par)
    if len(tests) != 1 or len(coo_assigns) < 2:
        out.unsure(b, b.node, 'DenseMatrix._build: `if <repeated>: self._coo = coo_matrix(...) else: self._coo = None` not found')
    else:
        iff = tests[0]
        tn = bfa.at(iff)
        pol = True
        t = iff.test
        while isinstance(t, ast.UnaryOp) and isinstance(t.op, ast.Not):
            t, pol = t.operand, not pol
        det, dn = bfa.origin_at(t, tn)
        verdict = _dense_detector(bfa, det, dn)
        if verdict[0] == 'unsure':
            out.unsure(b, iff, verdict[1])
        elif verdict[0] == 'bad':
            out.bad(b, astx.stmt_of(det) if hasattr(det, '_parent') else iff, verdict[1], key='dense-repeated-detector')
        else:
            out.ok(b, astx.stmt_of(det) if hasattr(det, '_parent') else iff, verdict[1])
        # which branch keeps the COO form
        rep_body, norep_body = (iff.body, iff.orelse) if pol else (iff.orelse, iff.body)
        def coo_val(body):
            vs = [st.value for st in astx.walk_stmts(body) if isinstance(st, ast.Assign)
                  and any(astx.path(t) == 'self._coo' for t in st.targets)]
            return vs[-1] if vs else None
        rv, nv = coo_val(rep_body), coo_val(norep_body)
        rep_is_coo = isinstance(rv, ast.Call) and astx.callee_attr(rv) == 'coo_matrix'
        norep_none = isinstance(nv, ast.Constant) and nv.value is None
        if rep_is_coo and norep_none:
            out.ok(b, iff, 'repeated indices -> COO form kept (self._coo); none -> self._coo = None and direct dense writes')
        elif (isinstance(rv, ast.Constant) and rv.value is None) or \
                (isinstance(nv, ast.Call) and astx.callee_attr(nv) == 'coo_matrix'):
            out.bad(b, iff, 'DenseMatrix._build keeps the COO form when there are NO repeated indices and writes '
                    'directly into the dense array when there are: repeated entries overwrite each other '
                    'instead of being summed', key='dense-repeated-branch')
        else:
            out.unsure(b, iff, 'unrecognised assignments to self._coo in the has_repeated branches')

    # 2. _update_from_submat: direct writes only when self._coo is None
    fn = method(repo, DENSE, cls, '_update_from_submat')
    fa = FA(fn)
    evs = update_events(fa)

    def coo_none(x, n):
        nt = is_none_test(x)
        if nt and fa.xp(nt[0], n) == 'self._coo':
            return nt[1]
        return None
    ok = True
    seen = set()
    for p in fa.paths():
        fl = _path_flags(fa, p, {'nocoo': coo_none})
        if fl is None:
            continue
        pe = [e for n, _ in p for e in evs.get(n, []) if e.kind in ('write', 'accum-buffered', 'accum-at')]
        if not pe:
            out.bad(fn, fn.node, f'DenseMatrix: a path stores nothing (flags {fl})', key='dense-no-write')
            ok = False
        for e in pe:
            if id(e.stmt) in seen:
                continue
            direct = e.buf == 'self._matrix'
            viacoo = e.buf == 'self._coo.data'
            if direct and fl.get('nocoo') is not True:
                seen.add(id(e.stmt))
                out.bad(fn, e.stmt, 'DenseMatrix: direct write into the dense array is reachable when a COO form '
                        'is kept (repeated indices): fancy-index assignment keeps only the last of repeated '
                        'entries', key='dense-direct-write-with-repeats')
                ok = False
            elif viacoo and fl.get('nocoo') is not False:
                seen.add(id(e.stmt))
                out.bad(fn, e.stmt, 'DenseMatrix: write into self._coo.data is reachable when self._coo is None',
                        key='dense-coo-write-without-coo')
                ok = False
            elif not direct and not viacoo:
                seen.add(id(e.stmt))
                out.unsure(fn, e.stmt, f'DenseMatrix: write into unexpected buffer {e.buf}')
                ok = False
            elif viacoo and astx.src(e.target) != f'self._coo.data[self._coo_slices[{subj_param(fa)}.key]]':
                seen.add(id(e.stmt))
                out.unsure(fn, e.stmt, 'COO write that is not data[self._coo_slices[subjac.key]]')
                ok = False
            elif e.kind != 'write':
                seen.add(id(e.stmt))
                out.unsure(fn, e.stmt, 'accumulating write in DenseMatrix (assign protocol expected)')
                ok = False
    if ok:
        out.ok(fn, fn.node, 'DenseMatrix: direct writes only under `self._coo is None`, COO-slice writes otherwise')

    # 3. _post_update sums the COO form into the dense array
    po = method(repo, DENSE, cls, '_post_update')
    pfa = FA(po)

    def coo_none2(x, n):
        nt = is_none_test(x)
        if nt and pfa.xp(nt[0], n) == 'self._coo':
            return nt[1]
        return None
    okp = True
    for p in pfa.paths():
        fl = _path_flags(pfa, p, {'nocoo': coo_none2})
        if fl is None or fl.get('nocoo') is True:
            continue
        conv = [n for n, _ in p if n.kind == 'stmt' and isinstance(n.ast, ast.Assign)
                and any(astx.path(t) == 'self._matrix' for t in n.ast.targets)
                and isinstance(n.ast.value, ast.Call) and astx.callee_attr(n.ast.value) in ('toarray', 'todense')
                and pfa.xp(astx.receiver(n.ast.value), n) == 'self._coo']
        if not conv:
            out.bad(po, po.node, 'DenseMatrix._post_update has a path with a COO form on which self._matrix is not '
                    'rebuilt from self._coo.toarray(): repeated entries are never summed into the dense array',
                    key='dense-post-update')
            okp = False
    if okp:
        out.ok(po, po.node, 'COO form (repeated indices) is summed into the dense array by toarray()')


def _dense_detector(fa, det, at):
    """np.any(X.data > t) with X = csc/csr_matrix((np.ones(..), (rows, cols))): true iff some count >= 2."""
    e = det
    if isinstance(e, ast.Call) and astx.callee_attr(e) == 'any':
        inner = e.args[0] if e.args else astx.receiver(e)
    else:
        return 'unsure', f'repeated-index detector `{astx.src(e)}` is not np.any(<comparison>)'
    if not isinstance(inner, ast.Compare):
        return 'unsure', f'repeated-index detector `{astx.src(e)}` is not a comparison'
    datas = [n for n in astx.walk(inner) if isinstance(n, ast.Attribute) and n.attr == 'data']
    if len(datas) != 1:
        return 'unsure', 'detector does not read exactly one `.data`'
    mat = fa.origin(datas[0].value, at)
    if not (isinstance(mat, ast.Call) and astx.callee_attr(mat) in
            ('csc_matrix', 'csr_matrix', 'coo_matrix', 'csc_array', 'csr_array', 'coo_array')):
        return 'unsure', f'detector matrix `{astx.src(mat)}` is not a scipy constructor call'
    a0 = mat.args[0] if mat.args else None
    if not (isinstance(a0, ast.Tuple) and len(a0.elts) == 2 and isinstance(a0.elts[0], ast.Call)
            and astx.callee_attr(a0.elts[0]) == 'ones'):
        return 'unsure', 'detector matrix is not built from np.ones(...)'
    if astx.callee_attr(mat).startswith('coo'):
        return 'bad', ('repeated-index detector reads .data of a coo_matrix built from ones: COO storage does '
                       'not sum duplicate (row, col) entries, so every count is 1 and repeats are never '
                       'detected')
    ddump = dump(datas[0])
    try:
        res = []
        for k in (1, 2, 3, 7):
            def env(x, k=k):
                if dump(x) == ddump:
                    return k
                raise KeyError
            res.append(bool(ev(inner, env)))
    except Unknown as u:
        return 'unsure', f'unrecognised term in detector: {astx.src(u.node)}'
    if res[1:] != [True, True, True]:
        return 'bad', (f'repeated-index detector `{astx.src(inner)}` evaluates to {res} for entry counts '
                       '(1, 2, 3, 7); it must be true for every count >= 2, otherwise repeated entries are '
                       'written directly into the dense array and overwrite each other')
    return 'ok', ('detector is true whenever some (row, col) occurs at least twice (counts 1, 2, 3, 7 evaluated'
                  + ('' if not res[0] else '; also true without repeats, which only costs the COO detour') + ')')


# =========================================================================== C11.order-key
def _coo_role(fa, e, at):
    """'row' / 'col' / 'data' if e is self._coo.<role> (aliases expanded), else None."""
    p = fa.xp(e, at)
    return {'self._coo.row': 'row', 'self._coo.col': 'col', 'self._coo.data': 'data'}.get(p)


@rule('C11.order-key', floor=12)
def order_key(repo, out):
    """COO->CSC/CSR map: lexsort primary key matches the container, duplicates = same row AND same col,
    indices = cumsum(is_new) - 1, map written through the sort order, ij given as (row, col)."""
    for rel, cls, ctor in COMPRESSED:
        cb = CompressedBuild(repo, rel, cls)
        fa, fn = cb.fa, cb.fn
        bfa, bfn = cb.bfa, cb.bfn
        # container assigned to self._matrix
        mats = [n for n in bfa.g.nodes if n.kind == 'stmt' and isinstance(n.ast, ast.Assign) and
                any(astx.path(t) == 'self._matrix' for t in n.ast.targets)]
        if len(mats) != 1 or not isinstance(mats[0].ast.value, ast.Call):
            out.unsure(bfn, bfn.node, 'expected exactly one `self._matrix = <scipy constructor>(...)`')
            continue
        mcall = mats[0].ast.value
        kind = astx.callee_attr(mcall)
        major = {'csc_matrix': 'col', 'csc_array': 'col', 'csr_matrix': 'row', 'csr_array': 'row'}.get(kind)
        if major is None:
            out.unsure(bfn, mats[0].ast, f'self._matrix is built by `{kind}`, not a compressed scipy container')
            continue
        # ij order of the constructor
        a0 = mcall.args[0] if mcall.args else None
        if isinstance(a0, ast.Tuple) and len(a0.elts) == 2 and isinstance(a0.elts[1], ast.Tuple) and \
                len(a0.elts[1].elts) == 2:
            roles = [_coo_role(bfa, x, mats[0]) for x in a0.elts[1].elts]
            if roles == ['row', 'col'] and _coo_role(bfa, a0.elts[0], mats[0]) == 'data':
                out.ok(bfn, mats[0].ast, f'{kind}((data, (row, col))) built from the COO arrays')
            elif roles == ['col', 'row']:
                out.bad(bfn, mats[0].ast, f'{kind} is given (col, row) as its (i, j) index pair: the assembled '
                        'matrix is the transpose pattern', key='ij-order')
            else:
                out.unsure(bfn, mats[0].ast, 'constructor index arrays are not self._coo.row / self._coo.col')
        else:
            out.unsure(bfn, mats[0].ast, 'constructor argument is not (data, (row, col))')
        # lexsort keys
        ka = cb.sort_call.args[0] if cb.sort_call.args else None
        if not (isinstance(ka, (ast.Tuple, ast.List)) and len(ka.elts) == 2):
            out.unsure(fn, cb.sort_stmt.ast, 'lexsort argument is not a 2-tuple of keys')
        else:
            roles = [cb.role(x, cb.sort_stmt) for x in ka.elts]
            minor = 'row' if major == 'col' else 'col'
            if roles == [minor, major]:
                out.ok(fn, cb.sort_stmt.ast, f'lexsort primary (last) key is {major}, secondary {minor}: the order '
                       f'of canonical {kind} data')
            elif set(roles) == {'row', 'col'}:
                out.bad(fn, cb.sort_stmt.ast, f'lexsort primary (last) key is {roles[1]} but {kind} stores its data in '
                        f'{major}-major order: COO entry i is mapped to the wrong position of {cls}._matrix.data',
                        key='lexsort-key')
            else:
                out.unsure(fn, cb.sort_stmt.ast, f'lexsort keys {roles} are not self._coo.row / self._coo.col')
        # sorted rows / cols and the is_new expression
        sorted_of = {}
        for n in fa.g.nodes:
            if n.kind == 'stmt' and isinstance(n.ast, ast.Assign) and len(n.ast.targets) == 1 and \
                    isinstance(n.ast.targets[0], ast.Name) and isinstance(n.ast.value, ast.Subscript) and \
                    isinstance(n.ast.value.slice, ast.Name) and n.ast.value.slice.id == cb.sort_name:
                r = cb.role(n.ast.value.value, n)
                if r:
                    sorted_of[n.ast.targets[0].id] = r

        def diff_role(x):
            """role if x is `np.diff(S) != 0` (or `!= 0` flipped) with S a sorted row/col array."""
            if isinstance(x, ast.Compare) and len(x.ops) == 1 and isinstance(x.ops[0], ast.NotEq):
                a, b = x.left, x.comparators[0]
                if is_zero(a):
                    a, b = b, a
                if is_zero(b) and isinstance(a, ast.Call) and astx.callee_attr(a) == 'diff' and len(a.args) == 1:
                    s = a.args[0]
                    if isinstance(s, ast.Name) and s.id in sorted_of:
                        return sorted_of[s.id]
                    if isinstance(s, ast.Subscript) and isinstance(s.slice, ast.Name) and \
                            s.slice.id == cb.sort_name:
                        return cb.role(s.value, cb.sort_stmt)
            return None
        news = []
        for n in fa.g.nodes:
            if n.kind == 'stmt' and isinstance(n.ast, ast.Assign) and len(n.ast.targets) == 1:
                v = n.ast.value
                ops = None
                if isinstance(v, ast.BinOp) and isinstance(v.op, (ast.BitOr, ast.BitAnd)):
                    ops = ('or' if isinstance(v.op, ast.BitOr) else 'and', [v.left, v.right])
                elif isinstance(v, ast.Call) and astx.callee_attr(v) in ('logical_or', 'logical_and') and len(v.args) == 2:
                    ops = ('or' if astx.callee_attr(v) == 'logical_or' else 'and', list(v.args))
                if ops and all(diff_role(x) for x in ops[1]):
                    news.append((n, ops[0], {diff_role(x) for x in ops[1]}))
        if len(news) != 1:
            out.unsure(fn, fn.node, 'first-occurrence mask `(diff(sorted_row) != 0) | (diff(sorted_col) != 0)` not found')
            continue
        nn, op, rs = news[0]
        if rs != {'row', 'col'}:
            out.bad(fn, nn.ast, f'first-occurrence mask only looks at {sorted(rs)}: entries that differ in the other '
                    'coordinate are merged into one position', key='is-new-mask')
        elif op != 'or':
            out.bad(fn, nn.ast, 'first-occurrence mask combines the row and column differences with AND: an entry '
                    'is new when row OR column changes; with AND distinct entries in the same row/column share '
                    'one position', key='is-new-mask')
        else:
            out.ok(fn, nn.ast, 'entry is new iff row or column differs from its predecessor in sort order')
        # the target of the mask must be is_new[1:], guard must admit n >= 2
        tgt = nn.ast.targets[0]
        mask_name = astx.path(tgt.value) if isinstance(tgt, ast.Subscript) else None
        sl = tgt.slice if isinstance(tgt, ast.Subscript) else None
        if not (mask_name and isinstance(sl, ast.Slice) and isinstance(sl.lower, ast.Constant) and
                sl.lower.value == 1 and sl.upper is None and sl.step is None):
            out.unsure(fn, nn.ast, 'mask is not stored into <is_new>[1:]')
            continue
        guards = [a for a in astx.ancestors(nn.ast) if isinstance(a, ast.If)]
        gok = True
        for gi in guards:
            gx = cb.lexpand(gi.test, fa.at(gi))
            try:
                for k in (2, 3, 10):
                    def env(x, k=k):
                        if isinstance(x, ast.Attribute) and x.attr == 'size' and not _has_call(x):
                            return k
                        if isinstance(x, ast.Call) and astx.call_name(x) == 'len' and len(x.args) == 1:
                            return k
                        raise KeyError
                    pol = nn.ast in list(astx.walk_stmts(gi.body))
                    if bool(ev(gx, env)) != pol:
                        out.bad(fn, gi, f'the first-occurrence mask is skipped when there are {k} COO entries '
                                f'(guard `{astx.src(gi.test)}`): duplicates among them are given distinct positions',
                                key='is-new-guard')
                        gok = False
                        break
            except Unknown as u:
                out.unsure(fn, gi, f'unrecognised guard term {astx.src(u.node)}')
                gok = False
            if not gok:
                break
        # cumsum - 1
        idxs = [n for n in fa.g.nodes if n.kind == 'stmt' and isinstance(n.ast, ast.Assign) and
                len(n.ast.targets) == 1 and isinstance(n.ast.targets[0], ast.Name) and
                any(astx.callee_attr(c) == 'cumsum' for c in astx.calls(n.ast.value))]
        if len(idxs) != 1:
            out.unsure(fn, fn.node, '`idx = np.cumsum(is_new) - 1` not found')
            continue
        iv = idxs[0].ast.value
        good = isinstance(iv, ast.BinOp) and isinstance(iv.op, ast.Sub) and isinstance(iv.right, ast.Constant) \
            and iv.right.value == 1 and isinstance(iv.left, ast.Call) and astx.callee_attr(iv.left) == 'cumsum' \
            and iv.left.args and astx.path(iv.left.args[0]) == mask_name
        if good:
            out.ok(fn, idxs[0].ast, 'compressed index = cumsum(is_new) - 1 (0-based, shared by duplicates)')
        elif isinstance(iv, ast.Call) and astx.callee_attr(iv) == 'cumsum' and iv.args and \
                astx.path(iv.args[0]) == mask_name:
            out.bad(fn, idxs[0].ast, 'compressed index is cumsum(is_new) without `- 1`: every entry is mapped one '
                    'position too far', key='cumsum-offset')
        elif isinstance(iv, ast.BinOp) and isinstance(iv.right, ast.Constant) and isinstance(iv.left, ast.Call) \
                and astx.callee_attr(iv.left) == 'cumsum':
            out.bad(fn, idxs[0].ast, f'compressed index is `{astx.src(iv)}`; it must be cumsum(is_new) - 1',
                    key='cumsum-offset')
        else:
            out.unsure(fn, idxs[0].ast, 'unrecognised compressed index expression')
        idx_name = idxs[0].ast.targets[0].id
        # the map is written through the sort order
        if len(cb.map_stores) == 1 and isinstance(cb.map_stores[0][3], ast.Name) and \
                cb.map_stores[0][3].id == idx_name:
            out.ok(fn, cb.map_stores[0][0].ast, 'map[sort_order] = idx: COO entry sort_order[k] gets the index of sorted position k')
        else:
            wrong = [n for n in fa.g.nodes if n.kind == 'stmt' and isinstance(n.ast, ast.Assign) and
                     isinstance(n.ast.value, ast.Subscript) and astx.path(n.ast.value.value) == idx_name and
                     isinstance(n.ast.value.slice, ast.Name) and n.ast.value.slice.id == cb.sort_name]
            if wrong:
                out.bad(fn, wrong[0].ast, f'the map is read through the sort order (`{astx.src(wrong[0].ast.value)}`) '
                        'instead of written through it: that is the inverse permutation, COO entries are '
                        'mapped to positions of other entries', key='map-through-sort-order')
            else:
                out.unsure(fn, fn.node, '`self.<map>[sort_order] = idx` not found')
        if gok:
            out.ok(fn, nn.ast, 'mask applied whenever there are at least two entries')


# =========================================================================== C11.slices
class Lin:
    """Linear form c0 + sum(c_i * sym_i) over symbols (strings)."""

    def __init__(self, c=0, t=None):
        self.c, self.t = c, dict(t or {})

    def __add__(self, o):
        t = dict(self.t)
        for k, v in o.t.items():
            t[k] = t.get(k, 0) + v
        return Lin(self.c + o.c, {k: v for k, v in t.items() if v})

    def __sub__(self, o):
        return self + Lin(-o.c, {k: -v for k, v in o.t.items()})

    def __eq__(self, o):
        return self.c == o.c and self.t == o.t

    def __repr__(self):
        s = ' + '.join(f'{v}*{k}' if v != 1 else k for k, v in sorted(self.t.items()))
        return (s + (f' + {self.c}' if self.c else '')) if s else str(self.c)


def _slices_loop(fa, out, fn, what):
    """Symbolically execute the slice bookkeeping loop of a _build function."""
    loops = [st for st in astx.walk_stmts(fn.node.body) if isinstance(st, ast.For)
             and any(astx.callee_attr(c) == 'as_coo_info' for s2 in st.body for c in astx.calls(s2))]
    if len(loops) != 1:
        out.unsure(fn, fn.node, f'{what}: expected one loop calling as_coo_info, found {len(loops)}')
        return
    loop = loops[0]
    hdr = fa.at(loop)
    # for key, submat in self._submats.items()   |   for key in self._submats[.keys()] ... self._submats[key]
    key_var = sub_var = None
    it = loop.iter
    if isinstance(it, ast.Call) and astx.callee_attr(it) == 'items' and not it.args and \
            fa.xp(astx.receiver(it), hdr) == 'self._submats' and isinstance(loop.target, ast.Tuple) and \
            len(loop.target.elts) == 2 and all(isinstance(e, ast.Name) for e in loop.target.elts):
        key_var, sub_var = (e.id for e in loop.target.elts)
    elif isinstance(loop.target, ast.Name) and (
            fa.xp(it, hdr) == 'self._submats' or
            (isinstance(it, ast.Call) and astx.callee_attr(it) == 'keys' and not it.args and
             fa.xp(astx.receiver(it), hdr) == 'self._submats')):
        key_var = loop.target.id
    else:
        out.unsure(fn, loop, f'{what}: loop does not iterate over all of self._submats (items() or keys)')
        return
    if any(not isinstance(st, (ast.Assign, ast.AugAssign, ast.Expr)) for st in loop.body):
        out.unsure(fn, loop, f'{what}: loop body is not straight-line code')
        return
    sub_names = {sub_var} if sub_var else set()

    def is_sub(e, at):
        if isinstance(e, ast.Name):
            return e.id in sub_names
        return isinstance(e, ast.Subscript) and fa.xp(e.value, at) == 'self._submats' and \
            isinstance(e.slice, ast.Name) and e.slice.id == key_var
    # counters: names assigned an int constant 0 before the loop and re-assigned in the body
    env = {}
    body_targets = {astx.path(t) for st in loop.body for t in astx.assigned_targets(st)}
    for nm in sorted(x for x in body_targets if x and '.' not in x and '[' not in x):
        ds = [d for d in fa.rd.defs(hdr, nm) if not astx.in_body(d.ast, loop, 'body')]
        if ds and all(d.kind == 'stmt' and isinstance(d.ast, ast.Assign) and is_zero(d.ast.value) for d in ds):
            env[nm] = Lin(0, {'T': 1})        # T = total number of entries of the previous sub-jacobians
    carried = set(env)
    for nm in sorted(astx.names(loop) - body_targets):
        ds = fa.rd.defs(hdr, nm)
        if ds and all(d.kind == 'stmt' and isinstance(d.ast, ast.Assign) and is_zero(d.ast.value) and
                      all(isinstance(t, ast.Name) for t in d.ast.targets) for d in ds):
            env[nm] = Lin(0)                  # set to 0 before the loop and never updated in it
    rc = {}                                   # names -> 'data' / 'row' / 'col' (parts of the as_coo_info result)
    info_names = set()                        # names bound to the whole as_coo_info result
    slice_names = {}                          # names bound to slice(lo, hi): name -> (lo, hi)
    problems = []
    recorded = None
    fills = {}
    ROLES = ('data', 'row', 'col')

    def lin(e):
        if isinstance(e, ast.Constant) and isinstance(e.value, int):
            return Lin(e.value)
        if isinstance(e, ast.Name):
            if e.id in env:
                return env[e.id]
            raise Unknown(e)
        if isinstance(e, ast.Attribute) and e.attr == 'size' and isinstance(e.value, ast.Name) and \
                rc.get(e.value.id) in ROLES:
            return Lin(0, {'z': 1})
        if isinstance(e, ast.Call) and astx.call_name(e) == 'len' and len(e.args) == 1 and \
                isinstance(e.args[0], ast.Name) and rc.get(e.args[0].id) in ROLES:
            return Lin(0, {'z': 1})
        sized = e.value if isinstance(e, ast.Attribute) and e.attr == 'size' else \
            e.args[0] if isinstance(e, ast.Call) and astx.call_name(e) == 'len' and len(e.args) == 1 else None
        if isinstance(sized, ast.Subscript) and isinstance(sized.value, ast.Name) and sized.value.id in info_names \
                and isinstance(sized.slice, ast.Constant) and sized.slice.value in (0, 1, 2):
            return Lin(0, {'z': 1})
        if isinstance(e, ast.BinOp) and isinstance(e.op, (ast.Add, ast.Sub)):
            a, b = lin(e.left), lin(e.right)
            return a + b if isinstance(e.op, ast.Add) else a - b
        raise Unknown(e)

    def bounds(sl):
        """(lo, hi) of a subscript index that is `lo:hi`, `slice(lo, hi)` or a name bound to one."""
        if isinstance(sl, ast.Slice) and sl.step is None and sl.lower is not None and sl.upper is not None:
            return lin(sl.lower), lin(sl.upper)
        if isinstance(sl, ast.Call) and astx.call_name(sl) == 'slice' and len(sl.args) == 2 and not sl.keywords:
            return lin(sl.args[0]), lin(sl.args[1])
        if isinstance(sl, ast.Name) and sl.id in slice_names:
            return slice_names[sl.id]
        return None

    full_ok = None

    def info_call(v, st):
        """True if v is <sub-jacobian>.as_coo_info(...) (records the full= argument)."""
        nonlocal full_ok
        if isinstance(v, ast.Call) and astx.callee_attr(v) == 'as_coo_info' and is_sub(astx.receiver(v), fa.at(st)):
            f = astx.arg(v, 0, 'full')
            full_ok = (st, isinstance(f, ast.Constant) and f.value is True)
            return True
        return False

    def part_of(v, st):
        """role if v is <info>[k] with constant k (info = a name bound to, or a call of, as_coo_info)."""
        if isinstance(v, ast.Subscript) and isinstance(v.slice, ast.Constant) and v.slice.value in (0, 1, 2):
            if (isinstance(v.value, ast.Name) and v.value.id in info_names) or info_call(v.value, st):
                return ROLES[v.slice.value]
        return None

    try:
        for st in loop.body:
            if isinstance(st, ast.Assign) and len(st.targets) == 1:
                t, v = st.targets[0], st.value
                if isinstance(t, ast.Tuple) and isinstance(v, ast.Call) and astx.callee_attr(v) == 'as_coo_info':
                    if len(t.elts) != 3 or not info_call(v, st):
                        raise Unknown(st, 'as_coo_info result is not unpacked into three names')
                    for e, r in zip(t.elts, ROLES):
                        if isinstance(e, ast.Name):
                            rc[e.id] = r
                    continue
                if isinstance(t, ast.Name):
                    if info_call(v, st):
                        info_names.add(t.id)
                        continue
                    if is_sub(v, fa.at(st)):
                        sub_names.add(t.id)
                        continue
                    r = part_of(v, st)
                    if r is not None:
                        rc[t.id] = r
                        continue
                    if isinstance(v, ast.Name) and v.id in rc:
                        rc[t.id] = rc[v.id]
                        continue
                    if isinstance(v, ast.Call) and astx.call_name(v) == 'slice':
                        b = bounds(v)
                        if b is None:
                            raise Unknown(st, 'slice(...) temporary not understood')
                        slice_names[t.id] = b
                        continue
                    slice_names.pop(t.id, None)
                    try:
                        env[t.id] = lin(v)
                    except Unknown:
                        if t.id in env:
                            raise
                        rc.pop(t.id, None)
                    continue
                if isinstance(t, ast.Subscript):
                    tp = fa.xp(t.value, fa.at(st)) or astx.path(t.value)
                    if tp == 'self._coo_slices':
                        b = bounds(v)
                        if b is None or isinstance(v, ast.Slice):
                            raise Unknown(st, 'stored value is not slice(start, end)')
                        if astx.path(t.slice) != key_var:
                            problems.append((st, f'slice stored under `{astx.src(t.slice)}`, not under the loop key',
                                             'slice-key'))
                        recorded = (st, b[0], b[1])
                        continue
                    b = bounds(t.slice)
                    r = rc.get(v.id) if isinstance(v, ast.Name) else part_of(v, st)
                    if b is not None and r is not None:
                        fills[tp] = (st, b[0], b[1], r)
                        continue
            if isinstance(st, ast.AugAssign) and isinstance(st.target, ast.Name) and st.target.id in env \
                    and isinstance(st.op, (ast.Add, ast.Sub)):
                d = lin(st.value)
                env[st.target.id] = env[st.target.id] + d if isinstance(st.op, ast.Add) else env[st.target.id] - d
                continue
            if isinstance(st, ast.Expr) and isinstance(st.value, ast.Call) and astx.callee_attr(st.value) == 'append' \
                    and len(st.value.args) == 1:
                a0 = st.value.args[0]
                r = rc.get(a0.id) if isinstance(a0, ast.Name) else part_of(a0, st)
                if r is not None:
                    fills[astx.path(astx.receiver(st.value))] = (st, None, None, r)
                    continue
            raise Unknown(st, 'statement not understood')
    except Unknown as u:
        out.unsure(fn, u.node if isinstance(u.node, ast.stmt) else loop,
                   f'{what}: slice bookkeeping not recognised ({u.why or astx.src(u.node)})')
        return
    T, Z = Lin(0, {'T': 1}), Lin(0, {'T': 1, 'z': 1})
    if full_ok is None:
        out.unsure(fn, loop, f'{what}: no `_, r, c = submat.as_coo_info(full=True)` in the loop')
        return
    if not full_ok[1]:
        problems.append((full_ok[0], 'as_coo_info is not called with full=True: rows/cols are relative to the '
                         'sub-jacobian, all blocks land in the top-left corner', 'coo-info-full'))
    if recorded is None:
        problems.append((loop, 'no slice is recorded in self._coo_slices for the sub-jacobian', 'slice-record'))
    else:
        st, lo, hi = recorded
        if lo != T or hi != Z:
            problems.append((st, f'recorded slice is [{lo}, {hi}) but the entries of this sub-jacobian occupy '
                             f'[{T}, {Z}) (T = entries of the previous sub-jacobians, z = entries of this one)',
                             'slice-bounds'))
    for nm, v in env.items():
        if nm in carried and v != Z:
            problems.append((loop, f'after one iteration `{nm}` is {v}, expected {Z}: the next sub-jacobian\'s '
                             'slice overlaps or leaves a gap', 'slice-carry'))
    for tp, (st, lo, hi, role) in fills.items():
        if lo is not None and (lo != T or hi != Z):
            problems.append((st, f'`{astx.src(st)}` fills [{lo}, {hi}) instead of [{T}, {Z})', 'fill-bounds'))
    # rows/cols arrays feed the (row, col) pair of the constructor in this order
    ctor = [c for st in astx.walk_stmts(fn.node.body) for c in astx.calls(st)
            if astx.callee_attr(c) in ('coo_matrix', 'coo_array') and c.args and isinstance(c.args[0], ast.Tuple)
            and len(c.args[0].elts) == 2 and isinstance(c.args[0].elts[1], ast.Tuple)]
    role_of_arr = {tp: role for tp, (_, _, _, role) in fills.items()}
    for c in ctor:
        ij = [astx.path(x) for x in c.args[0].elts[1].elts]
        roles = [role_of_arr.get(x) for x in ij]
        if roles == ['col', 'row']:
            problems.append((astx.stmt_of(c), 'coo_matrix is given (cols, rows) as its (i, j) pair', 'ij-order'))
        elif roles != ['row', 'col']:
            out.unsure(fn, astx.stmt_of(c), f'{what}: index arrays of coo_matrix not traced to as_coo_info rows/cols')
            return
        shp = astx.kwarg(c, 'shape')
        if isinstance(shp, ast.Tuple) and [astx.path(x) for x in shp.elts] == fa.params[2:0:-1]:
            problems.append((astx.stmt_of(c), 'shape is (num_cols, num_rows)', 'shape-order'))
    if not ctor:
        out.unsure(fn, fn.node, f'{what}: no coo_matrix((data, (rows, cols))) constructor found')
        return
    if problems:
        for st, why, key in problems:
            out.bad(fn, st, f'{what}: {why}', key=key)
    else:
        out.ok(fn, loop, f'{what}: slices [{T}, {Z}) are consecutive and disjoint, rows/cols filled in the same '
               'range and passed as (row, col)')


@rule('C11.slices', floor=2)
def slices(repo, out):
    """COO build: per-subjac slices are consecutive/disjoint, as_coo_info(full=True) rows/cols fill them."""
    for rel, cls in ((COO, 'COOMatrix'), (DENSE, 'DenseMatrix')):
        fn = repo.func(rel, f'{cls}._build')
        _slices_loop(FA(fn), out, fn, f'{cls}._build')


# =========================================================================== C11.factor-once / factor-region
def _factor_paths(repo, rel, cls):
    """Per path of _update_from_submat: (flags, events in order)."""
    fn = method(repo, rel, cls, '_update_from_submat')
    fa = FA(fn)
    evs = update_events(fa)
    res = []
    for p in fa.paths():
        F = None
        feasible = True
        unknown = None
        for n, lab in p:
            if n.kind == 'test' and lab in ('true', 'false'):
                r = factor_truth(fa, n, lab)
                if r == 'unknown':
                    unknown = n
                elif r is not None:
                    if F is not None and F != r:
                        feasible = False
                    F = r
        if not feasible:
            continue
        seq = [e for n, _ in p for e in evs.get(n, [])]
        res.append((F, unknown, seq, p))
    return fn, fa, res


def _is_subjac_storage(fa, name, at, subj):
    """True if local `name` (at node) may alias storage owned by the sub-jacobian."""
    o = fa.origin(ast.Name(id=name, ctx=ast.Load()), at)
    if isinstance(o, (ast.BinOp, ast.UnaryOp, ast.Constant)):
        return False                      # a fresh array
    if isinstance(o, ast.Call) and astx.callee_attr(o) in ('copy', 'array', 'astype', 'toarray', 'todense',
                                                            'zeros', 'ones', 'full', 'empty', 'multiply'):
        return False                      # a fresh array
    for n in ast.walk(o):
        if isinstance(n, ast.Name) and n.id == subj:
            return True
    return False


@rule('C11.factor-once', floor=4)
def factor_once(repo, out):
    """subjac.factor multiplies the stored values exactly once on every path where it is not None, on the
    value actually stored, before an accumulate, and never in place on the sub-jacobian's own storage."""
    for rel, cls in MATRICES:
        fn, fa, res = _factor_paths(repo, rel, cls)
        subj = subj_param(fa)
        mentions = astx.mentions(fn.node, 'factor')
        if not mentions:
            out.unsure(fn, fn.node, f'{cls}._update_from_submat never mentions subjac.factor (moved to a helper?)')
            continue
        problems = {}
        for F, unknown, seq, p in res:
            if unknown is not None or any(e.kind == 'opaque' for e in seq):
                out.unsure(fn, (unknown.ast if unknown is not None else
                                next(e.stmt for e in seq if e.kind == 'opaque')),
                           'factor handling not recognised on a path')
                problems['unsure'] = None
                continue
            muls = [e for e in seq if e.kind in ('mul-target', 'mul-local', 'mul-value')]
            stores = [e for e in seq if e.kind in ('write', 'accum-buffered', 'accum-at')]
            where = ' -> '.join(f'L{n.lineno}' for n, _ in p if n.kind == 'test')
            for e in muls:
                if e.kind == 'mul-local' and _is_subjac_storage(fa, e.name, e.node, subj):
                    problems.setdefault('factor-inplace', (e.stmt, f'`{astx.src(e.stmt)}` multiplies in place an array '
                                        f'obtained from the sub-jacobian ({astx.src(fa.origin(ast.Name(id=e.name), e.node))}), '
                                        'which may be a view of its stored value: every further update multiplies the '
                                        'stored sub-jacobian by the factor again'))
            if F is True:
                if len(muls) == 0:
                    problems.setdefault('factor-missing', (stores[0].stmt if stores else fn.node,
                                        f'on the path with subjac.factor present (tests {where}) the values are stored '
                                        'without the unit-conversion factor'))
                    continue
                if len(muls) > 1:
                    problems.setdefault('factor-twice', (muls[1].stmt, f'subjac.factor is applied {len(muls)} times on one path'))
                    continue
                m = muls[0]
                mi = seq.index(m)
                before = [e for e in seq[:mi] if e in stores]
                after = [e for e in seq[mi + 1:] if e in stores]
                if m.kind == 'mul-target':
                    if any(e.kind != 'write' for e in before):
                        problems.setdefault('factor-after-accumulate', (m.stmt, f'`{astx.src(m.stmt)}` scales the buffer after the '
                                            'sub-jacobian was accumulated into it: contributions of other sub-jacobians at the '
                                            'same positions are scaled too'))
                    elif not before:
                        problems.setdefault('factor-before-write', (m.stmt, f'`{astx.src(m.stmt)}` scales the target before the '
                                            'values are written: the factor is overwritten'))
                else:
                    if not after:
                        problems.setdefault('factor-after-store', (m.stmt, f'`{astx.src(m.stmt)}` is applied after the values were '
                                            'stored: the stored values lack the factor'))
                    else:
                        used = any(m.name in astx.names(e.value) for e in after if e.value is not None)
                        if not used:
                            problems.setdefault('factor-wrong-value', (m.stmt, f'the product `{astx.src(m.stmt)}` is not the value '
                                                'that is stored afterwards'))
            elif F is False:
                if muls:
                    problems.setdefault('factor-none', (muls[0].stmt, f'`{astx.src(muls[0].stmt)}` is executed on the path where '
                                        'subjac.factor is None'))
            else:
                if not muls:
                    problems.setdefault('factor-missing', (stores[0].stmt if stores else fn.node,
                                        f'a path (tests {where}) stores the sub-jacobian without ever looking at '
                                        'subjac.factor: the unit conversion between the input and its source is lost'))
                else:
                    out.unsure(fn, muls[0].stmt, 'factor multiplied without a None test')
                    problems['unsure'] = None
        for k, v in problems.items():
            if v is not None:
                out.bad(fn, v[0], f'{cls}: {v[1]}', key=k)
        if not problems:
            out.ok(fn, fn.node, f'{cls}: factor applied exactly once on {sum(1 for r in res if r[0])} factor path(s), '
                   f'never on {sum(1 for r in res if r[0] is False)} no-factor path(s)')


@rule('C11.factor-region', floor=4)
def factor_region(repo, out):
    """An in-place `target *= factor` covers exactly the region written for this sub-jacobian."""
    for rel, cls in MATRICES:
        fn, fa, res = _factor_paths(repo, rel, cls)
        n_ok = 0
        reported = set()
        for F, unknown, seq, p in res:
            if F is not True:
                continue
            for i, m in enumerate(seq):
                if m.kind != 'mul-target':
                    continue
                writes = [e for e in seq[:i] if e.kind == 'write' and e.buf == m.buf]
                if not writes:
                    continue      # ordering problems are C11.factor-once
                w = writes[-1]
                if region_key(w.target) == region_key(m.target):
                    n_ok += 1
                    continue
                key = f'factor-region:{astx.src(w.stmt.targets[0])}'
                if key in reported:
                    continue
                reported.add(key)
                out.bad(fn, m.stmt, f'{cls}: the values are written to `{astx.src(w.stmt.targets[0])}` but the factor is '
                        f'applied to `{astx.src(m.stmt.target)}`, a different region of {m.buf}: entries of that region '
                        'that belong to another sub-jacobian (another input connected to other src_indices of the same '
                        'source) are scaled by this sub-jacobian\'s unit factor', key=key)
        if not reported:
            out.ok(fn, fn.node, f'{cls}: {n_ok} in-place factor application(s) cover exactly the written region'
                   if n_ok else f'{cls}: factor is applied to the value before it is stored (no region to compare)')


# =========================================================================== C11.dtype
def _kind_cmp(fa, t, at, param):
    """For a test comparing `<param>.kind` with something: (other operand, is_eq) else None."""
    if isinstance(t, ast.Compare) and len(t.ops) == 1 and isinstance(t.ops[0], (ast.Eq, ast.NotEq)):
        a, b = t.left, t.comparators[0]
        if fa.xp(b, at) == f'{param}.kind':
            a, b = b, a
        if fa.xp(a, at) == f'{param}.kind':
            return b, isinstance(t.ops[0], ast.Eq)
    return None


def _carries_dtype(fa, v, at, param):
    """True if the conversion expression v produces an array of dtype `param`."""
    for c in astx.calls(v):
        k = astx.kwarg(c, 'dtype')
        if k is not None and fa.xp(k, at) == param:
            return True
        if astx.callee_attr(c) == 'astype' and c.args and fa.xp(c.args[0], at) == param:
            return True
    return False


def _reaches_update_dtype(repo, rel, cls, f, depth):
    """Every normal path of f (a _pre_update of the MRO of cls) calls self._update_dtype(<its dtype param>),
    directly or through super()._pre_update(<dtype param>)."""
    if f is None or depth > 4 or len(f.node.args.args) < 2:
        return False
    dt = f.node.args.args[1].arg
    g = cfgm.build(f)
    good = []
    for n in g.nodes:
        for c in n.calls() if n.kind in ('stmt', 'test', 'with', 'iter') else []:
            if not (c.args and astx.path(c.args[0]) == dt):
                continue
            if astx.call_name(c) == 'self._update_dtype':
                good.append(n)
            elif astx.callee_attr(c) == '_pre_update' and isinstance(astx.receiver(c), ast.Call) and \
                    astx.call_name(astx.receiver(c)) == 'super':
                mro = repo.mro(rel, cls)
                own = [i for i, (r, q) in enumerate(mro) if (r, f'{q}._pre_update') == (f.rel, f.qualname)]
                nxt = None
                for r, q in (mro[own[0] + 1:] if own else []):
                    nxt = repo.module(r).funcs.get(f'{q}._pre_update')
                    if nxt is not None:
                        break
                if _reaches_update_dtype(repo, rel, cls, nxt, depth + 1):
                    good.append(n)
    return bool(good) and g.must_pass([g.entry], [g.exit], good, labels=cfgm.noexc) is None


@rule('C11.dtype', floor=10)
def dtype_rule(repo, out):
    """Matrix._update_dtype converts every buffer with dtype=dtype under `dtype.kind != self.dtype.kind`;
    Subjac.set_dtype drops cached vector views, handles kinds 'f' and 'c' and raises otherwise."""
    # ---- matrices
    for rel, cls in ((COO, 'COOMatrix'), (DENSE, 'DenseMatrix')):
        fn = repo.func(rel, f'{cls}._update_dtype')
        fa = FA(fn)
        if len(fa.params) < 2:
            raise AnalysisError(f'{fn.ident}: no dtype parameter')
        dt = fa.params[1]
        problems = []
        n_conv = 0
        for p in fa.paths():
            changed = None
            for n, lab in p:
                if n.kind == 'test' and lab in ('true', 'false'):
                    kc = _kind_cmp(fa, n.ast.test, n, dt)
                    if kc and fa.xp(kc[0], n) == 'self.dtype.kind':
                        changed = (lab == 'true') != kc[1]
            stores = [n for n, _ in p if n.kind == 'stmt' and isinstance(n.ast, ast.Assign)]
            sets_dtype = [n for n in stores if any(astx.path(t) == 'self.dtype' for t in n.ast.targets)]
            conv = [n for n in stores if any(astx.path(t) in ('self._matrix', 'self._matrix.data', 'self._coo.data')
                                             for t in n.ast.targets)
                    and not (isinstance(n.ast.value, ast.Constant) and n.ast.value.value is None)]
            if changed is None:
                out.unsure(fn, fn.node, f'{cls}._update_dtype: guard `dtype.kind != self.dtype.kind` not recognised')
                problems.append(None)
                break
            if changed:
                if not conv:
                    problems.append((fn.node, 'dtype-no-conversion',
                                     'a path with a changed dtype kind does not convert the data buffer'))
                for n in conv:
                    n_conv += 1
                    if not _carries_dtype(fa, n.ast.value, n, dt):
                        problems.append((n.ast, 'dtype-not-applied',
                                         f'`{astx.src(n.ast)}` does not convert to the requested dtype (no dtype={dt}): '
                                         'under complex step the buffer stays real and the imaginary parts of the '
                                         'sub-jacobians are discarded on assignment'))
                if not sets_dtype:
                    pass   # only costs a re-conversion on every update
            else:
                if conv or sets_dtype:
                    problems.append(((conv or sets_dtype)[0].ast, 'dtype-guard',
                                     'buffer conversion happens when the dtype kind is unchanged (guard inverted?) '
                                     'and not when it changes'))
        seen = set()
        for pr in problems:
            if pr is None or pr[1] in seen:
                continue
            seen.add(pr[1])
            out.bad(fn, pr[0], f'{cls}._update_dtype: {pr[2]}', key=pr[1])
        if not problems:
            out.ok(fn, fn.node, f'{cls}._update_dtype: buffers converted with dtype={dt} exactly when the kind changes')
    # ---- _pre_update reaches _update_dtype
    for rel, cls in MATRICES:
        pre = repo.lookup(rel, cls, '_pre_update')
        if _reaches_update_dtype(repo, rel, cls, pre, 0):
            out.ok(pre, pre.node, f'{cls}._pre_update(dtype) always reaches self._update_dtype(dtype)')
        else:
            out.bad(pre, pre.node, f'{cls}._pre_update does not reach self._update_dtype(dtype) on every path: the matrix '
                    'buffer never follows a complex-step dtype switch', key=f'pre-update-dtype:{cls}')
    # ---- sub-jacobians
    for qn in [q for q in repo.module(SUBJAC).funcs if q.endswith('.set_dtype')]:
        fn = repo.func(SUBJAC, qn)
        fa = FA(fn)
        dt = fa.params[1]
        g = fa.g
        # early return
        rets = [n for n in g.nodes if n.kind == 'stmt' and isinstance(n.ast, ast.Return)]
        good = True
        for attr in ('_in_view', '_out_view', '_res_view'):
            resets = [n for n in g.nodes if n.kind == 'stmt' and isinstance(n.ast, ast.Assign) and
                      any(astx.path(t) == f'self.{attr}' for t in n.ast.targets) and
                      isinstance(n.ast.value, ast.Constant) and n.ast.value.value is None]
            w = g.path([g.entry], [g.exit], avoid=set(resets) | set(rets), labels=cfgm.noexc)
            if w is not None or not resets:
                out.bad(fn, fn.node, f'{qn} changes the dtype of the stored value without dropping the cached vector view '
                        f'self.{attr}: after a real<->complex switch _apply_fwd/_apply_rev keep reading/writing the '
                        'view of the other vector array (imaginary parts lost or stale data)', key=f'view-reset:{attr}')
                good = False
        # early return only when the kind is unchanged
        for r in rets:
            par = r.ast._parent
            okret = False
            if isinstance(par, ast.If) and r.ast in par.body:
                kc = _kind_cmp(fa, par.test, fa.at(par), dt)
                if kc and kc[1] and (fa.xp(kc[0], fa.at(par)) or '').endswith("['val'].dtype.kind"):
                    okret = True
            if not okret:
                out.unsure(fn, r.ast, 'early return not under `dtype.kind == <val>.dtype.kind`')
                good = False
        # branch chain over kinds
        kinds = {}
        has_else_raise = False
        for n in g.nodes:
            if n.kind == 'test':
                kc = _kind_cmp(fa, n.ast.test, n, dt)
                if kc and isinstance(kc[0], ast.Constant) and isinstance(kc[0].value, str) and kc[1]:
                    kinds[kc[0].value] = n.ast
        for k, iff in kinds.items():
            tail = iff
            while tail.orelse and len(tail.orelse) == 1 and isinstance(tail.orelse[0], ast.If):
                tail = tail.orelse[0]
            if tail.orelse and any(isinstance(s, ast.Raise) for s in tail.orelse):
                has_else_raise = True
        if set(kinds) != {'f', 'c'}:
            out.bad(fn, fn.node, f'{qn} handles dtype kinds {sorted(kinds)}; both \'f\' and \'c\' must be handled',
                    key='kinds')
            good = False
        elif not has_else_raise:
            out.bad(fn, kinds['c'], f'{qn}: an unsupported dtype kind falls through silently instead of raising',
                    key='kinds-else')
            good = False
        else:
            for k, iff in kinds.items():
                stores = [s for s in iff.body if isinstance(s, ast.Assign)]
                if len(stores) != 1:
                    out.unsure(fn, iff, f'{qn}: kind {k!r} branch is not a single store')
                    good = False
                    continue
                v = stores[0].value
                at = fa.at(stores[0])
                if k == 'c' and not _carries_dtype(fa, v, at, dt):
                    out.bad(fn, stores[0], f'{qn}: the complex branch does not convert to the requested dtype: the stored '
                            'sub-jacobian stays real under complex step', key='kind-c-conversion')
                    good = False
                if k == 'f' and not (astx.mentions(v, 'real') or _carries_dtype(fa, v, at, dt)):
                    out.bad(fn, stores[0], f'{qn}: the float branch neither takes .real nor converts to the requested dtype',
                            key='kind-f-conversion')
                    good = False
        if good:
            out.ok(fn, fn.node, f'{qn}: views dropped, kinds f/c converted, other kinds rejected')


# =========================================================================== C11.dtype-slot
def _storage_kind(repo, cls):
    """'sparse' if the class stores a scipy matrix in info['val'], 'ndarray' if an array, else None."""
    f = repo.lookup(SUBJAC, cls, '_update_instance_meta')
    if f is None:
        return None, None
    sparse = nd = False
    for st in astx.walk_stmts(f.node.body):
        if isinstance(st, ast.Assign):
            for t in st.targets:
                if astx.path(t) == "meta['val'].data":
                    sparse = True
                if astx.path(t) in ("meta['val']", 'val') and isinstance(st.value, ast.Call):
                    root = st.value
                    while isinstance(root, ast.Call) and isinstance(root.func, ast.Attribute) and \
                            isinstance(root.func.value, ast.Call):
                        root = root.func.value     # np.asarray(...).copy().reshape(...)
                    if astx.call_name(root) in ('np.zeros', 'np.full', 'np.asarray', 'np.array', 'np.atleast_2d'):
                        nd = True
    if sparse and not nd:
        return 'sparse', f
    if nd and not sparse:
        return 'ndarray', f
    return None, f


SPARSE_TYPES = {'spmatrix', 'sparray', 'coo_matrix', 'csr_matrix', 'csc_matrix', 'coo_array', 'csr_array',
                'csc_array'}


def _kind_atom(x, n):
    """For a test on the *kind of storage* in self.info['val']: the storage kind for which the test is
    true ('sparse' / 'ndarray'), else None.  issparse(v), isinstance(v, np.ndarray), isinstance(v, spmatrix...)."""
    if not isinstance(x, ast.Call) or not x.args or astx.path(x.args[0]) != "self.info['val']":
        return None
    nm = astx.callee_attr(x)
    if nm in ('issparse', 'isspmatrix') and len(x.args) == 1:
        return 'sparse'
    if nm == 'isinstance' and len(x.args) == 2:
        t = x.args[1]
        names = {astx.callee_attr(ast.Call(func=e, args=[], keywords=[])) for e in
                 (t.elts if isinstance(t, ast.Tuple) else [t])}
        if names == {'ndarray'}:
            return 'ndarray'
        if names and names <= SPARSE_TYPES:
            return 'sparse'
    return None


def _treatments(repo, cls, f, kind, depth=0):
    """Conversions of self.info['val'] reachable in set_dtype function f for a class `cls` whose storage
    kind is `kind`: list of (treatment, stmt, Func); treatment in sparse / ndarray / any / ?."""
    if depth > 4:
        return [('?', f.node, f)]
    fa = FA(f)
    res = []
    seen = set()
    conv_ids = set()
    for p in fa.paths():
        feasible = True
        for n, lab in p:
            if n.kind != 'test' or lab not in ('true', 'false'):
                continue
            t, pol = n.ast.test, lab == 'true'
            while isinstance(t, ast.UnaryOp) and isinstance(t.op, ast.Not):
                t, pol = t.operand, not pol
            k = _kind_atom(t, n)
            if k is not None and (k == kind) != pol:
                feasible = False
                break
        if not feasible:
            continue
        n_before = len(res)
        converted = False
        for n, _ in p:
            if n.kind != 'stmt':
                continue
            st = n.ast
            if id(st) in seen:
                converted = converted or id(st) in conv_ids
                continue
            if isinstance(st, ast.Assign):
                for t in st.targets:
                    pth = astx.path(t)
                    if pth == "self.info['val'].data":
                        seen.add(id(st))
                        res.append(('sparse', st, f))
                    elif pth == "self.info['val']":
                        seen.add(id(st))
                        v = st.value
                        if isinstance(v, ast.Call) and astx.callee_attr(v) == 'astype':
                            res.append(('any', st, f))
                        elif isinstance(v, ast.Call) and astx.call_name(v) in (
                                'np.asarray', 'np.ascontiguousarray', 'np.array', 'numpy.asarray'):
                            res.append(('ndarray', st, f))
                        else:
                            res.append(('?', st, f))
            for c in astx.calls(st):
                if astx.callee_attr(c) == 'set_dtype' and isinstance(astx.receiver(c), ast.Call) and \
                        astx.call_name(astx.receiver(c)) == 'super':
                    seen.add(id(st))
                    mro = repo.mro(SUBJAC, cls)
                    own = [i for i, (r, q) in enumerate(mro) if (r, f'{q}.set_dtype') == (f.rel, f.qualname)]
                    nxt = None
                    for r, q in (mro[own[0] + 1:] if own else []):
                        nxt = repo.module(r).funcs.get(f'{q}.set_dtype')
                        if nxt is not None:
                            break
                    if nxt is None:
                        res.append(('?', st, f))
                    else:
                        res.extend(_treatments(repo, cls, nxt, kind, depth + 1))
        if len(res) > n_before:
            converted = True
            conv_ids.update(id(n.ast) for n, _ in p if n.kind == 'stmt' and id(n.ast) in seen)
        returns = any(n.kind == 'stmt' and isinstance(n.ast, ast.Return) for n, _ in p)
        if not converted and not returns and not any(t == 'none' for t, _, _ in res):
            res.append(('none', f.node, f))
    return res


@rule('C11.dtype-slot', floor=6)
def dtype_slot(repo, out):
    """The conversion code reachable in the set_dtype a concrete Subjac class resolves to (storage-kind guards
    such as issparse(...) and super() delegation followed) converts the kind of storage that class holds."""
    m = repo.module(SUBJAC)
    table = None
    for st in m.tree.body:
        if isinstance(st, ast.Assign) and any(astx.path(t) == '_sparse_subjac_types' for t in st.targets) and \
                isinstance(st.value, ast.Dict):
            table = {astx.const_str(k): astx.path(v) for k, v in zip(st.value.keys, st.value.values)}
    if not table:
        raise AnalysisError('_sparse_subjac_types table not found')
    gsc = repo.func(SUBJAC, 'Subjac.get_subjac_class')
    concrete = set(table.values())
    for st in astx.walk_stmts(gsc.node.body):
        if isinstance(st, ast.Return) and isinstance(st.value, ast.Name) and st.value.id in m.classes:
            concrete.add(st.value.id)
    for cls in sorted(concrete):
        if cls not in m.classes:
            out.unsure(SUBJAC, None, f'class {cls} of the subjac table not found')
            continue
        kind, uim = _storage_kind(repo, cls)
        tkind = 'sparse' if cls in table.values() else 'ndarray'
        if kind is None or kind != tkind:
            out.unsure((SUBJAC, cls), m.classes[cls], f'{cls}: storage kind not determined (table says {tkind}, '
                       f'_update_instance_meta says {kind})')
            continue
        sd = repo.lookup(SUBJAC, cls, 'set_dtype')
        if sd is None:
            out.bad((SUBJAC, cls), m.classes[cls], f'{cls} has no set_dtype', key=f'set-dtype-slot:{cls}')
            continue
        tr = _treatments(repo, cls, sd, kind)
        kinds = {t for t, _, _ in tr}
        wrong = [(t, st, f) for t, st, f in tr if t in ('sparse', 'ndarray') and t != kind]
        if any(t == 'none' for t, _, _ in tr):
            f = next(f for t, _, f in tr if t == 'none')
            out.bad((SUBJAC, cls), f.node, f'{cls} stores a {kind} value but {f.qualname} has a path for such a value that '
                    'passes the "same kind" early return and ends without converting self.info[\'val\'] (and without '
                    'delegating to the parent class): the stored sub-jacobian keeps its old dtype after a real<->complex '
                    'switch', key=f'set-dtype-slot:{cls}')
        elif not tr:
            out.unsure(sd, sd.node, f'{cls}: no store to self.info[\'val\'] reachable for a {kind} value in {sd.qualname}')
        elif wrong:
            t, st, f = wrong[0]
            via = '' if f is sd else f' (reached from {sd.qualname} through super())'
            if kind == 'sparse':
                why = (f'{cls} stores a scipy sparse matrix in info[\'val\'] (created through _sparse_subjac_types / '
                       f'{uim.qualname}) but for such a value set_dtype reaches `{astx.src(st)}` in {f.qualname}{via}, '
                       'which converts the value as an ndarray: numpy cannot convert a sparse matrix, so the first '
                       'real<->complex switch (complex step through a component that declares a '
                       f'{cls[:3].lower()}-format partial) raises TypeError')
            else:
                why = (f'{cls} stores an ndarray in info[\'val\'] ({uim.qualname}) but for such a value set_dtype reaches '
                       f'`{astx.src(st)}` in {f.qualname}{via}, which converts `.data` of it (an ndarray\'s .data is a '
                       'read-only buffer attribute): the real<->complex switch fails')
            out.bad((SUBJAC, cls), st, why, key=f'set-dtype-slot:{cls}')
        elif '?' in kinds:
            st = next(st for t, st, _ in tr if t == '?')
            out.unsure(sd, st, f'{cls}: unrecognised conversion or delegation in {sd.qualname}')
        else:
            fs = sorted({f.qualname for _, _, f in tr})
            out.ok((SUBJAC, cls), m.classes[cls], f'{cls} stores a {kind} value; the conversions reachable for it '
                   f'({len(tr)} in {", ".join(fs)}) convert ' +
                   ('with .astype' if kinds == {'any'} else
                    "self.info['val'].data" if kind == 'sparse' else "self.info['val']"))


# =========================================================================== C11.update-order
@rule('C11.update-order', floor=4)
def update_order(repo, out):
    """_update_matrix: _pre_update(dtype) once -> _update_from_submat for every submat -> _post_update;
    SplitJacobian._update updates both matrices with self.dtype; update contexts call _update."""
    fn = repo.func(JAC, 'SplitJacobian._update_matrix')
    fa = FA(fn)
    g = fa.g
    if len(fa.params) < 4:
        raise AnalysisError('SplitJacobian._update_matrix signature changed')
    mobj, dt = fa.params[1], fa.params[3]
    pre = g.calling('_pre_update', recv=mobj)
    upd = g.calling('_update_from_submat', recv=mobj)
    post = g.calling('_post_update', recv=mobj)
    if not upd:
        raise AnalysisError('no _update_from_submat call in SplitJacobian._update_matrix')
    loops = [st for st in astx.walk_stmts(fn.node.body) if isinstance(st, (ast.For, ast.While))]
    in_loop = lambda n: any(astx.in_body(n.ast, lp, 'body') for lp in loops)
    bad = False
    if not pre:
        out.bad(fn, fn.node, '_pre_update is never called: dtype is not switched and accumulating formats are not zeroed',
                key='pre-update-missing')
        bad = True
    else:
        for u in upd:
            w = g.dominated_by(u, pre, labels=cfgm.noexc)
            if w is not None:
                out.bad(fn, u.ast, '_update_from_submat can run before _pre_update: ' + g.fmt_path(w), key='pre-update-order')
                bad = True
        for p_ in pre:
            if in_loop(p_) or (set(g.reach(g.normal_succ(p_), labels=cfgm.noexc)) & set(pre)):
                out.bad(fn, p_.ast, '_pre_update is executed once per sub-jacobian: accumulating formats (CSC/CSR) zero '
                        'their data each time, only the last sub-jacobian survives', key='pre-update-once')
                bad = True
            c = [c for c in p_.calls() if astx.callee_attr(c) == '_pre_update'][0]
            if not (c.args and astx.path(c.args[0]) == dt):
                out.bad(fn, p_.ast, f'_pre_update is not given the requested dtype `{dt}`', key='pre-update-dtype')
                bad = True
    if not post:
        out.bad(fn, fn.node, '_post_update is never called: DenseMatrix never sums its COO form, cached transposes stay',
                key='post-update-missing')
        bad = True
    else:
        starts = [m for u in upd for m in g.normal_succ(u)] + [g.entry]
        w = g.must_pass(starts, [g.exit], post, labels=cfgm.noexc)
        if w is not None:
            out.bad(fn, fn.node, 'a path leaves _update_matrix without _post_update: ' + g.fmt_path(w), key='post-update-order')
            bad = True
        for p_ in post:
            late = set(g.reach(g.normal_succ(p_), labels=cfgm.noexc)) & set(upd)
            if late or in_loop(p_):
                out.bad(fn, p_.ast, '_update_from_submat runs after _post_update: a DenseMatrix with repeated indices has '
                        'already been converted with toarray() and misses the later sub-jacobians', key='post-update-order')
                bad = True
    # every submat
    for u in upd:
        lp = astx.enclosing(u.ast, (ast.For,))
        itp = astx.path(lp.iter) if lp is not None else None
        if itp not in (f'{mobj}._submats.values()', f'{mobj}._submats.items()'):
            out.unsure(fn, u.ast, f'_update_from_submat is not in a loop over {mobj}._submats.values()')
            bad = True
        else:
            skip = [n for n in g.body_nodes(lp) if n.kind == 'stmt' and isinstance(n.ast, (ast.Continue, ast.Break))]
            body_entry = [m for m, lab in g.succ[g.nodes_of(lp)[0]] if lab == 'true']
            w = g.must_pass(body_entry, [g.nodes_of(lp)[0]], [u], labels=cfgm.noexc)
            if skip or w is not None:
                out.bad(fn, lp, 'some sub-jacobians are skipped in the update loop', key='submat-skipped')
                bad = True
    if not bad:
        out.ok(fn, fn.node, '_pre_update(dtype) once, then every submat, then _post_update')

    # SplitJacobian._update
    fn = repo.func(JAC, 'SplitJacobian._update')
    fa = FA(fn)
    calls = [(n, c) for n in fa.g.nodes for c in (n.calls() if n.kind == 'stmt' else [])
             if astx.call_name(c) == 'self._update_matrix']
    mats = {}
    ok = True
    for n, c in calls:
        a0 = astx.path(c.args[0]) if c.args else None
        mats.setdefault(a0, []).append(n)
        d = astx.arg(c, 2, 'dtype')
        if d is None or astx.path(d) != 'self.dtype':
            out.bad(fn, n.ast, f'_update_matrix is given `{astx.src(d)}` as dtype, not self.dtype (set by _pre_update)',
                    key='update-dtype')
            ok = False
    want = {'self._dr_do_mtx', 'self._dr_di_mtx'}
    if set(mats) != want or any(len(v) != 1 for v in mats.values()):
        out.bad(fn, fn.node, f'SplitJacobian._update updates {sorted(map(str, mats))} (with multiplicity '
                f'{[len(v) for v in mats.values()]}); both self._dr_do_mtx and self._dr_di_mtx must be updated once',
                key='update-both')
        ok = False
    if ok:
        out.ok(fn, fn.node, 'dr/do and dr/di are both updated once with self.dtype')

    # update contexts
    for cls in ('JacobianUpdateContext', 'GroupJacobianUpdateContext'):
        en = repo.func(JAC, f'{cls}.__enter__')
        ex = repo.func(JAC, f'{cls}.__exit__')
        ge, gx = cfgm.build(en), cfgm.build(ex)
        pre = ge.calling('_pre_update', recv='self.jac')
        upd = gx.calling('_update', recv='self.jac')
        post = gx.calling('_post_update', recv='self.jac')
        okc = True
        if not pre or not upd:
            out.bad(ex if pre else en, (ex if pre else en).node, f'{cls}: ' + ('__exit__ never calls self.jac._update: '
                    'values set in linearize never reach the assembled matrices' if pre else
                    '__enter__ never calls self.jac._pre_update: sub-jacobians do not follow dtype switches'),
                    key='context-update')
            continue
        # _update unless jac is None, on normal paths
        def jac_none(x, n):
            nt = is_none_test(x)
            if nt and astx.path(nt[0]) == 'self.jac':
                return nt[1]
            return None
        for f, g, nodes, what in ((en, ge, pre, '_pre_update'), (ex, gx, upd, '_update')):
            fa2 = FA(f)
            for p in fa2.paths():
                fl = _path_flags(fa2, p, {'none': jac_none})
                if fl is None or fl.get('none') is True:
                    continue
                mine = set(fa2.g.calling(what, recv='self.jac'))
                if not any(n in mine for n, _ in p):
                    out.bad(f, f.node, f'{cls}.{f.name}: a path with a jacobian skips {what}', key=f'context-{what}')
                    okc = False
                    break
        for u in upd:
            for p_ in post:
                if gx.path(gx.normal_succ(p_), [u], labels=cfgm.noexc) is not None:
                    out.bad(ex, p_.ast, f'{cls}.__exit__ calls _post_update before _update', key='context-order')
                    okc = False
        if okc:
            out.ok(ex, upd[0].ast, f'{cls}: _pre_update on enter, _update (then _post_update) on exit whenever a jacobian exists')


# =========================================================================== C11.cache
@rule('C11.cache', floor=4)
def cache(repo, out):
    """The cached transpose (_matrix_T) is the transpose of the current data: invalidated after any
    rebind of _matrix/_matrix.data before the next transpose(); only transpose() reads it."""
    for rel, cls, _ in COMPRESSED:
        tr = repo.lookup(rel, cls, 'transpose')
        fa = FA(tr)
        g = fa.g
        reads_cache = astx.mentions(tr.node, '_matrix_T')
        if not reads_cache:
            out.ok(tr, tr.node, f'{cls}.transpose does not cache')
            continue
        okt = True

        def valid(x, n):
            nt = is_none_test(x)
            if nt and astx.path(nt[0]) == 'self._matrix_T':
                return not nt[1]
            return None
        fills = []
        for n in g.nodes:
            if n.kind == 'stmt' and isinstance(n.ast, ast.Assign) and \
                    any(astx.path(t) == 'self._matrix_T' for t in n.ast.targets):
                v = n.ast.value
                tposed = (isinstance(v, ast.Attribute) and v.attr == 'T' and astx.path(v.value) == 'self._matrix') or \
                    (isinstance(v, ast.Call) and astx.callee_attr(v) == 'transpose' and
                     astx.path(astx.receiver(v)) == 'self._matrix')
                if tposed:
                    fills.append(n)
                else:
                    out.bad(tr, n.ast, f'{cls}.transpose caches `{astx.src(v)}`, which is not the transpose of self._matrix',
                            key='cache-fill')
                    okt = False
        for p in fa.paths():
            fl = _path_flags(fa, p, {'valid': valid})
            if fl is None:
                continue
            ret = [n for n, _ in p if n.kind == 'stmt' and isinstance(n.ast, ast.Return)]
            if not ret or ret[-1].ast.value is None:
                out.bad(tr, tr.node, f'{cls}.transpose has a path that returns nothing', key='cache-return')
                okt = False
                continue
            rv = ret[-1].ast.value
            if astx.path(rv) == 'self._matrix_T':
                filled = any(n in fills for n, _ in p)
                if not filled and fl.get('valid') is not True:
                    out.bad(tr, ret[-1].ast, f'{cls}.transpose returns self._matrix_T on a path where it is '
                            + ('None' if fl.get('valid') is False else 'not known to be filled') +
                            ' and has not been recomputed', key='cache-return')
                    okt = False
            elif not ((isinstance(rv, ast.Attribute) and rv.attr == 'T' and astx.path(rv.value) == 'self._matrix')):
                out.unsure(tr, ret[-1].ast, 'unrecognised return value of transpose')
                okt = False
        if okt:
            out.ok(tr, tr.node, f'{cls}.transpose returns self._matrix.T, recomputed whenever the cache is None')

        # invalidation: _post_update always resets, or every rebinder resets afterwards
        def resets_always(f, after=None):
            g2 = cfgm.build(f)
            rs = [n for n in g2.nodes if n.kind == 'stmt' and isinstance(n.ast, ast.Assign) and
                  any(astx.path(t) == 'self._matrix_T' for t in n.ast.targets) and
                  isinstance(n.ast.value, ast.Constant) and n.ast.value.value is None]
            starts = [g2.entry] if after is None else [m for a in g2.nodes_of(after) for m in g2.normal_succ(a)]
            return bool(rs) and g2.must_pass(starts, [g2.exit], rs, labels=cfgm.noexc) is None
        post = repo.lookup(rel, cls, '_post_update')
        post_resets = resets_always(post)
        rebinders = []
        for r, q in repo.mro(rel, cls):
            for qn, f in repo.module(r).funcs.items():
                if not qn.startswith(q + '.') or f.name in ('__init__', '_build'):
                    continue
                if repo.lookup(rel, cls, f.name) is not f:
                    continue
                for st in astx.walk_stmts(f.node.body):
                    if isinstance(st, ast.Assign) and any(astx.path(t) in ('self._matrix', 'self._matrix.data')
                                                          for t in st.targets):
                        rebinders.append((f, st))
        stale = [(f, st) for f, st in rebinders if not resets_always(f, after=st)]
        if post_resets:
            out.ok(post, post.node, f'{cls}: every update transaction ends with self._matrix_T = None')
        elif not stale:
            out.ok(post, post.node, f'{cls}: every rebind of the data ({len(rebinders)}) is followed by self._matrix_T = None')
        else:
            f, st = stale[0]
            out.bad(f, st, f'{cls}: `{astx.src(st)}` replaces the data array but neither {f.qualname} nor '
                    f'{post.qualname} invalidates the cached transpose: reverse-mode products keep using the old '
                    '(e.g. real, pre-complex-step) data', key='cache-stale')
    # WHO reads _matrix_T
    n_readers = 0
    for rel in (MAT, COO, CSC, CSR, DENSE, JAC):
        for f in repo.module(rel).funcs.values():
            for n in astx.walk(f.node):
                if isinstance(n, ast.Attribute) and n.attr == '_matrix_T' and isinstance(n.ctx, ast.Load):
                    if f.name == 'transpose':
                        n_readers += 1
                    else:
                        out.bad(f, astx.stmt_of(n), f'{f.qualname} reads the transpose cache directly; only transpose() '
                                'revalidates it', key='cache-reader')
    out.count('cache_reads', n_readers)


# =========================================================================== C11.prod
@rule('C11.prod', floor=3)
def prod(repo, out):
    """_prod: fwd = _matrix @ v, rev = transpose() @ v; a non-None mask is applied to a copy of v."""
    for rel, cls in ((COO, 'COOMatrix'), (DENSE, 'DenseMatrix')):
        fn = repo.func(rel, f'{cls}._prod')
        fa = FA(fn)
        if len(fa.params) < 4:
            raise AnalysisError(f'{fn.ident}: signature changed')
        vec, mode, mask = fa.params[1:4]

        def is_fwd(x, n):
            if isinstance(x, ast.Compare) and len(x.ops) == 1 and isinstance(x.ops[0], (ast.Eq, ast.NotEq)):
                a, b = x.left, x.comparators[0]
                if astx.const_str(a) is not None:
                    a, b = b, a
                if astx.path(a) == mode and astx.const_str(b) in ('fwd', 'rev'):
                    r = astx.const_str(b) == 'fwd'
                    return r if isinstance(x.ops[0], ast.Eq) else not r
            return None

        def mask_none(x, n):
            nt = is_none_test(x)
            if nt and astx.path(nt[0]) == mask:
                return nt[1]
            return None
        problems = []
        npaths = 0
        for p in fa.paths():
            fl = _path_flags(fa, p, {'fwd': is_fwd, 'nomask': mask_none})
            if fl is None:
                continue
            ret = [n for n, _ in p if n.kind == 'stmt' and isinstance(n.ast, ast.Return)]
            if not ret or 'fwd' not in fl:
                out.unsure(fn, fn.node, 'path without a `mode == ...` test or without return')
                problems.append(None)
                continue
            rn = ret[-1]
            e = path_expand(fa, p, rn.ast.value, rn) if rn.ast.value is not None else None
            if not (isinstance(e, ast.BinOp) and isinstance(e.op, ast.MatMult)):
                out.unsure(fn, rn.ast, 'return value is not a matrix product')
                problems.append(None)
                continue
            npaths += 1
            L, R = e.left, e.right
            lp = astx.path(L)
            tposed = lp in ('self.transpose()', 'self._matrix.T', 'self._matrix_T') or \
                (isinstance(L, ast.Call) and astx.call_name(L) == 'self._matrix.transpose')
            plain = lp == 'self._matrix'
            if not (tposed or plain):
                out.unsure(fn, rn.ast, f'left operand `{astx.src(L)}` is neither self._matrix nor its transpose')
                problems.append(None)
                continue
            if fl['fwd'] and tposed:
                problems.append((rn.ast, 'prod-mode', f"mode 'fwd' multiplies by the transpose (`{astx.src(rn.ast.value)}`)"))
            if not fl['fwd'] and plain:
                problems.append((rn.ast, 'prod-mode', f"mode 'rev' multiplies by the matrix itself (`{astx.src(rn.ast.value)}`): "
                                 'reverse mode needs the transpose'))
            masked = isinstance(R, ast.Call) and astx.call_name(R) == 'self._get_masked_arr' and len(R.args) == 2 and \
                astx.path(R.args[0]) == vec and astx.path(R.args[1]) == mask
            raw = astx.path(R) == vec
            if not (masked or raw):
                out.unsure(fn, rn.ast, f'right operand `{astx.src(R)}` is not the input vector')
                problems.append(None)
            elif raw and fl.get('nomask') is not True:
                problems.append((rn.ast, 'prod-mask', f'`{astx.src(rn.ast.value)}` ignores the mask on a path where it may be '
                                 'set: entries of the vector that must be treated as zero contribute to the product'))
        seen = set()
        for pr in problems:
            if pr and (pr[1], astx.src(pr[0])) not in seen:
                seen.add((pr[1], astx.src(pr[0])))
                out.bad(fn, pr[0], f'{cls}._prod: {pr[2]}', key=f'{pr[1]}:{astx.src(pr[0])}')
        if not problems:
            out.ok(fn, fn.node, f'{cls}._prod: {npaths} path(s): fwd uses _matrix, rev uses transpose(), mask honoured')
    # uncached transposes
    for rel, cls in ((COO, 'COOMatrix'), (DENSE, 'DenseMatrix')):
        tr = repo.func(rel, f'{cls}.transpose')
        rets = [st for st in astx.walk_stmts(tr.node.body) if isinstance(st, ast.Return)]
        good = rets and all(isinstance(r.value, ast.Attribute) and r.value.attr == 'T' and
                            astx.path(r.value.value) == 'self._matrix' or
                            (isinstance(r.value, ast.Call) and astx.call_name(r.value) == 'self._matrix.transpose')
                            for r in rets)
        if good:
            out.count('transposes', 1)
        elif rets and any(astx.path(r.value) == 'self._matrix' for r in rets):
            out.bad(tr, rets[0], f'{cls}.transpose returns the matrix itself', key='transpose')
        else:
            out.unsure(tr, tr.node, 'unrecognised transpose')
    # the masking helper copies
    fn = repo.func(MAT, 'Matrix._get_masked_arr')
    fa = FA(fn)
    arr, mask = fa.params[1:3]
    okm = True

    def mask_none2(x, n):
        nt = is_none_test(x)
        if nt and astx.path(nt[0]) == mask:
            return nt[1]
        return None
    for p in fa.paths():
        fl = _path_flags(fa, p, {'nomask': mask_none2})
        if fl is None:
            continue
        ret = [n for n, _ in p if n.kind == 'stmt' and isinstance(n.ast, ast.Return)]
        if not ret:
            out.unsure(fn, fn.node, 'path without return')
            okm = False
            continue
        if fl.get('nomask') is True:
            continue
        rv = ret[-1].ast.value
        o = fa.origin(rv, ret[-1])
        fresh = isinstance(o, ast.Call) and astx.callee_attr(o) in ('copy', 'array', 'where', 'zeros_like')
        zeroed = [n for n, _ in p if n.kind == 'stmt' and isinstance(n.ast, ast.Assign) and
                  isinstance(n.ast.targets[0], ast.Subscript) and astx.path(n.ast.targets[0].slice) == mask and
                  is_zero(n.ast.value)]
        if astx.path(o) == arr or (zeroed and any(astx.path(z.ast.targets[0].value) == arr for z in zeroed)):
            out.bad(fn, (zeroed[0].ast if zeroed else ret[-1].ast), 'the mask is applied to the caller\'s array itself (no copy): '
                    'the masked entries of the d_inputs vector are destroyed as a side effect of the product',
                    key='mask-copy')
            okm = False
        elif not fresh and not isinstance(o, ast.Call):
            out.unsure(fn, ret[-1].ast, 'masked array origin not recognised')
            okm = False
        elif fresh and astx.callee_attr(o) == 'copy' and not zeroed:
            out.bad(fn, ret[-1].ast, 'a mask is given but no entry of the copy is set to zero', key='mask-zero')
            okm = False
    if okm:
        out.ok(fn, fn.node, 'mask None -> same array; otherwise a copy with the masked entries zeroed')


# =========================================================================== C11.apply
APPLY_CLASSES = ('Subjac', 'OMCOOSubjac', 'DiagonalSubjac')


def _arms(fa, e, at):
    """Alternative values of an expression defined through `a if c else b` (aliases followed)."""
    o = fa.origin(e, at)
    if isinstance(o, ast.IfExp):
        return [o.body, o.orelse]
    return [o]


def _is_T(x):
    return (isinstance(x, ast.Attribute) and x.attr == 'T') or \
        (isinstance(x, ast.Call) and astx.callee_attr(x) == 'transpose' and not x.args)


@rule('C11.apply', floor=12)
def apply_rule(repo, out):
    """Matrix-free Subjac._apply_{fwd,rev}_{input,output}: views bound to the right vector/slice; rev is the
    transpose of fwd (val.T @ r, bincount with rows/cols exchanged and minlength=parent_ncols, elementwise)."""
    for cls in APPLY_CLASSES:
        for mode in ('fwd', 'rev'):
            for side in ('input', 'output'):
                fn = repo.func(SUBJAC, f'{cls}._apply_{mode}_{side}')
                fa = FA(fn)
                if len(fa.params) < 4:
                    raise AnalysisError(f'{fn.ident}: signature changed')
                vecs = dict(zip(('input', 'output', 'resid'), fa.params[1:4]))
                wview = 'self._in_view' if side == 'input' else 'self._out_view'
                rview = 'self._res_view'
                problems = []
                # --- view binding
                binds = {}
                for st in astx.walk_stmts(fn.node.body):
                    if isinstance(st, ast.Assign) and len(st.targets) == 1 and \
                            astx.path(st.targets[0]) in ('self._in_view', 'self._out_view', 'self._res_view'):
                        v = st.value
                        if isinstance(v, ast.Call) and astx.callee_attr(v) == 'get_slice' and len(v.args) == 1:
                            binds[astx.path(st.targets[0])] = (st, astx.path(astx.receiver(v)), astx.path(v.args[0]))
                        else:
                            binds[astx.path(st.targets[0])] = (st, None, None)
                want = {wview: (vecs[side], 'self.col_slice'), rview: (vecs['resid'], 'self.row_slice')}
                for vw, (vec, slc) in want.items():
                    if vw not in binds:
                        problems.append((fn.node, f'bind:{vw}', f'{vw} is never bound to a slice of `{vec}`'))
                        continue
                    st, gvec, gslc = binds[vw]
                    if gvec is None:
                        problems.append(('unsure', st, f'unrecognised binding of {vw}'))
                    elif (gvec, gslc) != (vec, slc):
                        problems.append((st, f'bind:{vw}', f'{vw} is bound to `{gvec}.get_slice({gslc})`; it must be '
                                         f'`{vec}.get_slice({slc})` ({"columns" if vw != rview else "rows"} of this '
                                         'sub-jacobian)'))
                for vw in set(binds) - set(want):
                    problems.append((binds[vw][0], f'bind:{vw}', f'{fn.name} binds {vw}, which belongs to the other variant'))
                # guard of the lazy binding tests one of the views it binds
                for vw, (st, _, _) in binds.items():
                    par = st._parent
                    if isinstance(par, ast.If):
                        nt = is_none_test(par.test)
                        if not (nt and nt[1] and astx.path(nt[0]) in want and st in par.body):
                            problems.append(('unsure', par, 'lazy view binding guard not recognised'))
                # --- the update statement
                ups = [st for st in fn.node.body if isinstance(st, ast.AugAssign)]
                if len(ups) != 1 or not isinstance(ups[0].op, ast.Add):
                    out.unsure(fn, fn.node, 'expected exactly one top-level `target += expr`')
                    continue
                up = ups[0]
                at = fa.at(up)
                tgt = astx.path(up.target)
                src_view, dst_view = (wview, rview) if mode == 'fwd' else (rview, wview)
                if tgt != dst_view:
                    problems.append((up, 'target', f'{mode} mode accumulates into {tgt}; it must accumulate into {dst_view}'))
                e = fa.origin(up.value, at)
                form = None
                if isinstance(e, ast.BinOp) and isinstance(e.op, ast.MatMult):
                    form = 'lin'
                    L, R = e.left, e.right
                    if astx.path(R) in (wview, rview, 'self._in_view', 'self._out_view'):
                        mat, vec, mat_left = L, R, True
                    else:
                        mat, vec, mat_left = R, L, False
                    arms = _arms(fa, mat, at)
                    ts = [_is_T(a) for a in arms]
                    if len(set(ts)) != 1:
                        problems.append((up, 'transpose-arms', 'one alternative of the value is transposed and the other is not '
                                         f'(`{astx.src(fa.origin(mat, at))}`): the random-value (sparsity/coloring) and the '
                                         'normal application disagree'))
                    else:
                        eff_T = ts[0] != (not mat_left)     # v @ M  ==  M.T @ v
                        if eff_T != (mode == 'rev'):
                            problems.append((up, 'transpose', f'{mode} mode multiplies by the '
                                             f'{"transposed" if eff_T else "untransposed"} sub-jacobian'))
                    if astx.path(vec) != src_view:
                        problems.append((up, 'operand', f'{mode} mode multiplies `{astx.path(vec)}`; it must multiply {src_view}'))
                elif isinstance(e, ast.Call) and astx.callee_attr(e) == 'bincount':
                    form = 'coo'
                    scat = astx.path(fa.origin(astx.arg(e, 0, 'x'), at))
                    w = astx.arg(e, 1, 'weights')
                    w = fa.origin(w, at) if w is not None else None
                    mle = astx.arg(e, 2, 'minlength')
                    ml = astx.path(fa.origin(mle, at)) if mle is not None else None
                    gath = None
                    if isinstance(w, ast.BinOp) and isinstance(w.op, ast.Mult):
                        for x in (w.left, w.right):
                            if isinstance(x, ast.Subscript):
                                gath = (astx.path(x.value), astx.path(x.slice))
                    if gath is None:
                        out.unsure(fn, up, 'bincount weights are not `view[index] * val`')
                        continue
                    exp = dict(scat='self.rows', gv=wview, gi='self.cols', ml='self.nrows') if mode == 'fwd' else \
                        dict(scat='self.cols', gv=rview, gi='self.rows', ml='self.parent_ncols')
                    got = dict(scat=scat, gv=gath[0], gi=gath[1], ml=ml)
                    for k, label in (('scat', 'scatter index'), ('gv', 'gathered view'), ('gi', 'gather index'),
                                     ('ml', 'minlength')):
                        if got[k] != exp[k]:
                            problems.append((up, f'coo-{k}', f'{mode} mode {label} is {got[k]}; it must be {exp[k]} '
                                             f'({"r[rows] += J * x[cols]" if mode == "fwd" else "x[cols] += J * r[rows]"})'))
                elif isinstance(e, ast.BinOp) and isinstance(e.op, ast.Mult):
                    form = 'diag'
                    ops = [astx.path(x) for x in (e.left, e.right)]
                    if src_view not in ops:
                        problems.append((up, 'operand', f'{mode} mode scales {ops}; it must scale {src_view}'))
                else:
                    out.unsure(fn, up, f'unrecognised operator form `{astx.src(e)}`')
                    continue
                uns = [p for p in problems if p[0] == 'unsure']
                bads = [p for p in problems if p[0] != 'unsure']
                for _, node, why in uns:
                    out.unsure(fn, node, why)
                for node, key, why in bads:
                    out.bad(fn, node, f'{cls}.{fn.name}: {why}', key=key)
                if not problems:
                    out.ok(fn, up, f'{form}: {dst_view} += {"J^T" if mode == "rev" else "J"} * {src_view}')


# =========================================================================== C11.split-apply
@rule('C11.split-apply', floor=4)
def split_apply(repo, out):
    """SplitJacobian._apply: dr/do and dr/di products use the right vector per mode; the input mask is given
    to _prod in fwd and applied to the result in rev."""
    fn = repo.func(JAC, 'SplitJacobian._apply')
    fa = FA(fn)
    if len(fa.params) < 6:
        raise AnalysisError('SplitJacobian._apply signature changed')
    d_in, d_out, d_res, mode = fa.params[2:6]

    def vp(e, at):
        """Path of the array a local name is bound to (in-place `+=`/`-=` keep the binding)."""
        if not isinstance(e, ast.Name):
            return astx.path(e)
        todo, seen, assigns = [(at, e.id)], set(), set()
        while todo:
            a, nm = todo.pop()
            for d in fa.rd.defs(a, nm):
                if d in seen:
                    continue
                seen.add(d)
                if d.kind == 'stmt' and isinstance(d.ast, ast.AugAssign):
                    todo.append((d, nm))
                else:
                    assigns.add(d)
        if len(assigns) == 1:
            d = next(iter(assigns))
            if d.kind == 'stmt' and isinstance(d.ast, ast.Assign) and len(d.ast.targets) == 1:
                return astx.path(d.ast.value)
        return astx.path(e)

    def is_fwd(x, n):
        if isinstance(x, ast.Compare) and len(x.ops) == 1 and isinstance(x.ops[0], (ast.Eq, ast.NotEq)):
            a, b = x.left, x.comparators[0]
            if astx.const_str(a) is not None:
                a, b = b, a
            if astx.path(a) == mode and astx.const_str(b) in ('fwd', 'rev'):
                r = astx.const_str(b) == 'fwd'
                return r if isinstance(x.ops[0], ast.Eq) else not r
        return None
    RES, OUT, INP = f'{d_res}.asarray()', f'{d_out}.asarray()', f'{d_in}.asarray()'
    expect = {('fwd', 'self._dr_do_mtx'): (OUT, RES), ('fwd', 'self._dr_di_mtx'): (INP, RES),
              ('rev', 'self._dr_do_mtx'): (RES, OUT), ('rev', 'self._dr_di_mtx'): (RES, d_in)}
    seen_ok, reported = set(), set()

    def bad(node, key, why):
        if key not in reported:
            reported.add(key)
            out.bad(fn, node, f'SplitJacobian._apply: {why}', key=key)
    for p in fa.paths():
        fl = _path_flags(fa, p, {'fwd': is_fwd})
        if fl is None or 'fwd' not in fl:
            continue
        m = 'fwd' if fl['fwd'] else 'rev'
        nodes = [n for n, _ in p]
        for i, n in enumerate(nodes):
            if n.kind != 'stmt':
                continue
            for c in n.calls():
                if astx.callee_attr(c) != '_prod':
                    continue
                mtx = fa.xp(astx.receiver(c), n)
                if (m, mtx) not in expect:
                    out.unsure(fn, n.ast, f'_prod on unexpected matrix {mtx}')
                    continue
                want_arg, want_tgt = expect[(m, mtx)]
                arg = vp(c.args[0], n) if c.args else None
                ident = (m, mtx)
                if arg != want_arg:
                    bad(n.ast, f'arg:{m}:{mtx}', f'in {m} mode {mtx} multiplies `{arg}`; it must multiply `{want_arg}`')
                    continue
                if not (len(c.args) > 1 and astx.path(c.args[1]) == mode):
                    bad(n.ast, f'mode:{m}:{mtx}', f'_prod of {mtx} is not given the `{mode}` argument')
                    continue
                # where the product goes
                st = n.ast
                if isinstance(st, ast.AugAssign) and isinstance(st.op, ast.Add):
                    tgt = vp(st.target, n)
                    res_name = None
                elif isinstance(st, ast.Assign) and len(st.targets) == 1 and isinstance(st.targets[0], ast.Name) \
                        and st.value is c:
                    res_name = st.targets[0].id
                    adds = [x for x in nodes[i + 1:] if x.kind == 'stmt' and isinstance(x.ast, ast.AugAssign) and
                            isinstance(x.ast.op, ast.Add) and astx.path(x.ast.value) == res_name]
                    tgt = vp(adds[0].ast.target, adds[0]) if adds else None
                else:
                    out.unsure(fn, st, 'product is neither accumulated nor stored in a local')
                    continue
                if tgt != want_tgt:
                    bad(st, f'target:{m}:{mtx}', f'in {m} mode the product of {mtx} is added to `{tgt}`; it must be added '
                        f'to `{want_tgt}`')
                    continue
                # mask handling for dr/di
                if mtx == 'self._dr_di_mtx':
                    def is_mask(e, at):
                        o = fa.origin(e, at)
                        return isinstance(o, ast.Call) and astx.call_name(o) == 'self._get_mask' and o.args and \
                            astx.path(o.args[0]) == d_in
                    if m == 'fwd':
                        mk = astx.arg(c, 2, 'mask')
                        if mk is None or not is_mask(mk, n):
                            bad(st, 'mask:fwd', 'in fwd mode the dr/di product is not given the input mask '
                                '(self._get_mask(d_inputs, mode)): inputs outside the active set contribute to the residuals')
                            continue
                    else:
                        zero = [x for x in nodes[i + 1:] if x.kind == 'stmt' and isinstance(x.ast, ast.Assign) and
                                isinstance(x.ast.targets[0], ast.Subscript) and
                                astx.path(x.ast.targets[0].value) == res_name and is_zero(x.ast.value) and
                                is_mask(x.ast.targets[0].slice, x)]

                        def mask_none(x, nn):
                            nt = is_none_test(x)
                            if nt and isinstance(nt[0], ast.Name) and is_mask(nt[0], nn):
                                return nt[1]
                            return None
                        mf = _path_flags(fa, p, {'nomask': mask_none})
                        if mf is None:
                            continue
                        if not zero and mf.get('nomask') is not True:
                            bad(st, 'mask:rev', 'in rev mode the masked entries of the dr/di transpose product are not '
                                'zeroed before being added to d_inputs (fwd mode masks the same inputs): fwd and rev '
                                'are no longer transposes of each other')
                            continue
                seen_ok.add(ident)
    for ident in sorted(seen_ok):
        if not any(k.endswith(f'{ident[0]}:{ident[1]}') or (ident[1].endswith('di_mtx') and k == f'mask:{ident[0]}')
                   for k in reported):
            out.ok(fn, fn.node, f'{ident[0]}: {ident[1]}._prod({expect[ident][0]}) -> {expect[ident][1]}')


# =========================================================================== C11.coo-info
class _U:
    """Unknown abstract value."""
    def __repr__(self):
        return '?'


UNK = _U()


class Off:
    """Scalar offset: integer combination of R = row_slice.start and C = col_slice.start."""
    def __init__(self, t=None):
        self.t = {k: v for k, v in (t or {}).items() if v}

    def add(self, o, sign=1):
        t = dict(self.t)
        for k, v in o.t.items():
            t[k] = t.get(k, 0) + sign * v
        return Off(t)

    def __repr__(self):
        return ' + '.join(f'{v}*{k}' if v != 1 else k for k, v in sorted(self.t.items())) or '0'


class Idx:
    """Index array: kind local (0-based position inside the sub-jacobian) or src (source entries selected by
    src_indices), role r/c/None, accumulated offset, and whether src mapping happened after an offset."""
    def __init__(self, kind, role=None, off=None, late_map=False):
        self.kind, self.role, self.off, self.late_map = kind, role, off or Off(), late_map

    def __repr__(self):
        return f'{self.kind}[{self.role}]+{self.off}'


_PASS_FUNCS = {'repeat', 'tile', 'asarray', 'array', 'ascontiguousarray', 'ravel', 'reshape', 'copy', 'astype',
               'flatten', 'atleast_1d'}
_OFFNAMES = {'self.row_slice.start': 'R', 'self.row_slice.stop': 'R', 'self.col_slice.start': 'C',
             'self.col_slice.stop': 'C'}


def _aeval(e, env, flags):
    """Abstract value of an index expression inside as_coo_info."""
    if isinstance(e, ast.Constant):
        return Off() if isinstance(e.value, (int, float)) and not isinstance(e.value, bool) else UNK
    p = astx.path(e)
    if p in _OFFNAMES:
        return Off({_OFFNAMES[p]: 1})
    if p == 'self.src_indices':
        return Idx('src', 'c')
    if isinstance(e, ast.Name):
        return env.get(e.id, UNK)
    if isinstance(e, ast.Attribute):
        if e.attr in ('row', 'rows'):
            return Idx('local', 'r')
        if e.attr in ('col', 'cols'):
            return Idx('local', 'c')
        if e.attr == 'T':
            return _aeval(e.value, env, flags)
        return UNK
    if isinstance(e, ast.IfExp):
        t = _atest(e.test, flags)
        if t is None:
            a, b = _aeval(e.body, env, flags), _aeval(e.orelse, env, flags)
            return a if repr(a) == repr(b) and a is not UNK else UNK
        return _aeval(e.body if t else e.orelse, env, flags)
    if isinstance(e, ast.Subscript):
        base = _aeval(e.value, env, flags)
        if isinstance(base, Idx) and base.kind == 'src' and not base.off.t:
            i = _aeval(e.slice, env, flags)
            if isinstance(i, Idx) and i.kind == 'local':
                return Idx('src', 'c', Off(), late_map=bool(i.off.t))
        return UNK
    if isinstance(e, ast.BinOp) and isinstance(e.op, (ast.Add, ast.Sub)):
        a, b = _aeval(e.left, env, flags), _aeval(e.right, env, flags)
        sign = 1 if isinstance(e.op, ast.Add) else -1
        if isinstance(a, Off) and isinstance(b, Off):
            return a.add(b, sign)
        if isinstance(a, Idx) and isinstance(b, Off):
            return Idx(a.kind, a.role, a.off.add(b, sign), a.late_map)
        if isinstance(b, Idx) and isinstance(a, Off) and sign == 1:
            return Idx(b.kind, b.role, b.off.add(a), b.late_map)
        return UNK
    if isinstance(e, ast.Call):
        nm = astx.callee_attr(e)
        if nm in ('arange', 'range') and e.args:
            if len(e.args) == 1:
                return Idx('local')
            st = _aeval(e.args[0], env, flags)
            return Idx('local', None, st) if isinstance(st, Off) else UNK
        if nm in _PASS_FUNCS:
            recv = astx.receiver(e)
            if recv is not None and astx.path(recv) not in ('np', 'numpy'):
                return _aeval(recv, env, flags)
            return _aeval(e.args[0], env, flags) if e.args else UNK
    return UNK


def _atest(t, flags):
    """Truth of a test under the flags {'full': bool, 'src': bool (src_indices present)}; None = unknown."""
    pol = True
    while isinstance(t, ast.UnaryOp) and isinstance(t.op, ast.Not):
        t, pol = t.operand, not pol
    if isinstance(t, ast.Name) and t.id == flags['_full']:
        return flags['full'] == pol
    nt = is_none_test(t)
    if nt and astx.path(nt[0]) == 'self.src_indices':
        return (flags['src'] != nt[1]) == pol
    return None


def _coo_info_returns(fn, flags):
    """Abstract (rows, cols) of every return reachable under the flags, or raises Unknown."""
    g = cfgm.build(fn)
    results = []
    budget = [4000]

    def bind(tgt, val, env):
        if isinstance(tgt, ast.Name):
            env[tgt.id] = val
        elif isinstance(tgt, (ast.Tuple, ast.List)):
            for x in tgt.elts:
                bind(x, UNK, env)

    def step(n, env, seen):
        budget[0] -= 1
        if budget[0] < 0:
            raise Unknown(fn.node, 'too many paths')
        if n is g.exit:
            return
        env = dict(env)
        nxt = None
        if n.kind == 'test':
            t = _atest(n.ast.test, flags)
            nxt = [m for m, lab in g.succ[n] if lab in ('true', 'false') and (t is None or (lab == 'true') == t)]
        elif n.kind in ('iter',) or (n.kind == 'test' and isinstance(n.ast, ast.While)):
            raise Unknown(n.ast, 'loop in as_coo_info')
        elif n.kind == 'stmt':
            st = n.ast
            if isinstance(st, ast.Return):
                v = st.value
                if not (isinstance(v, ast.Tuple) and len(v.elts) == 3):
                    raise Unknown(st, 'return value is not a (data, rows, cols) tuple')
                results.append((st, _aeval(v.elts[1], env, flags), _aeval(v.elts[2], env, flags)))
                return
            if isinstance(st, ast.Assign):
                if len(st.targets) == 1 and isinstance(st.targets[0], ast.Tuple) and isinstance(st.value, ast.Tuple) \
                        and len(st.targets[0].elts) == len(st.value.elts):
                    vals = [_aeval(x, env, flags) for x in st.value.elts]
                    for t_, v_ in zip(st.targets[0].elts, vals):
                        bind(t_, v_, env)
                else:
                    val = _aeval(st.value, env, flags)
                    for t_ in st.targets:
                        bind(t_, val, env)
            elif isinstance(st, ast.AugAssign) and isinstance(st.target, ast.Name):
                if isinstance(st.op, (ast.Add, ast.Sub)):
                    env[st.target.id] = _aeval(ast.BinOp(left=st.target, op=st.op, right=st.value), env, flags)
                else:
                    env[st.target.id] = UNK
        if nxt is None:
            nxt = [m for m, lab in g.succ[n] if lab != 'exc']
        for m in nxt:
            if (m, id(n)) in seen:
                raise Unknown(n.ast, 'loop in as_coo_info')
            step(m, env, seen | {(m, id(n))})
    step(g.entry, {}, frozenset())
    return results


@rule('C11.coo-info', floor=5)
def coo_info(repo, out):
    """Every as_coo_info: rows = local rows (+ row_slice.start iff full); cols = src_indices[local cols] if
    src_indices is given else local cols, then (+ col_slice.start iff full) -- same composition in all classes."""
    m = repo.module(SUBJAC)
    fns = [f for q, f in m.funcs.items() if q.endswith('.as_coo_info')]
    for fn in fns:
        a = fn.node.args
        names = [x.arg for x in a.posonlyargs + a.args + a.kwonlyargs]
        if 'full' not in names:
            out.unsure(fn, fn.node, 'as_coo_info has no `full` parameter')
            continue
        problems = {}
        unsure = None
        n_ret = 0
        for full, src in ((True, True), (True, False), (False, True), (False, False)):
            flags = {'full': full, 'src': src, '_full': 'full'}
            try:
                rets = _coo_info_returns(fn, flags)
            except Unknown as u:
                unsure = (u.node, u.why or astx.src(u.node))
                break
            if not rets:
                unsure = (fn.node, f'no return reachable for full={full}, src_indices {"given" if src else "None"}')
                break
            case = f'full={full}, src_indices {"given" if src else "None"}'
            for st, rows, cols in rets:
                n_ret += 1
                if not isinstance(rows, Idx) or not isinstance(cols, Idx):
                    unsure = (st, f'rows/cols expression not understood for {case} (rows={rows}, cols={cols})')
                    continue
                want_r = {'R': 1} if full else {}
                want_c = {'C': 1} if full else {}
                if rows.kind != 'local' or rows.role == 'c':
                    problems.setdefault('rows-source', (st, f'for {case} the returned rows are {rows}, not the local row '
                                                        'indices of the sub-jacobian'))
                elif rows.off.t != want_r:
                    problems.setdefault('rows-offset', (st, f'for {case} the returned rows carry the offset {rows.off}; '
                                                        f'they must carry {Off(want_r)} (row_slice.start exactly once iff '
                                                        'full)'))
                if cols.role == 'r':
                    problems.setdefault('cols-source', (st, f'for {case} the returned cols are derived from row indices'))
                elif cols.kind != ('src' if src else 'local'):
                    problems.setdefault('cols-src-indices', (st, f'for {case} the returned cols are '
                                        + ('not mapped through self.src_indices: the sub-jacobian of an input connected '
                                           'with src_indices lands in the columns of the first source entries'
                                           if src else 'mapped through self.src_indices although it is None')))
                elif cols.late_map:
                    problems.setdefault('cols-map-order', (st, f'for {case} self.src_indices is indexed with columns that '
                                        'already carry an offset: the mapping must come first, then + col_slice.start'))
                elif cols.off.t != want_c:
                    problems.setdefault('cols-offset', (st, f'for {case} the returned cols carry the offset {cols.off}; they '
                                        f'must carry {Off(want_c)} (col_slice.start exactly once iff full, also after the '
                                        'src_indices mapping): with a source that does not start at offset 0 every '
                                        'assembled format puts this sub-jacobian into the wrong columns'))
        if unsure is not None and not problems:
            out.unsure(fn, unsure[0], f'{fn.qualname}: {unsure[1]}')
            continue
        for k, (st, why) in problems.items():
            out.bad(fn, st, f'{fn.qualname}: {why}', key=f'coo-info:{k}')
        if not problems:
            out.count('returns_evaluated', n_ret)
            out.ok(fn, fn.node, f'{fn.qualname}: rows/cols composition agrees with the common contract for the 4 '
                   f'(full, src_indices) cases ({n_ret} returns evaluated)')


# =========================================================================== C11.loopdef
CTOR_CALLS = ('create_dr_do_subjac', 'create_subjac', '_subjac_from_meta')


@rule('C11.loopdef', floor=4)
def loopdef(repo, out):
    """_get_split_subjacs: every per-iteration value handed to a sub-jacobian constructor (factor, src,
    src_inds_list, wrt ...) is (re)defined on every path of the current iteration before the call."""
    fn = repo.func(JAC, 'SplitJacobian._get_split_subjacs')
    fa = FA(fn)
    g = fa.g
    loops = [st for st in astx.walk_stmts(fn.node.body) if isinstance(st, ast.For) and
             any(astx.callee_attr(c) in CTOR_CALLS for s2 in astx.walk_stmts(st.body) for c in astx.calls(s2))]
    if len(loops) != 1:
        raise AnalysisError(f'{fn.ident}: expected one loop creating sub-jacobians, found {len(loops)}')
    loop = loops[0]
    hdr = g.nodes_of(loop)[0]
    body = set(g.body_nodes(loop))
    body_entry = [m_ for m_, lab in g.succ[hdr] if lab == 'true']
    loop_targets = {astx.path(t) for t in astx.assigned_targets(loop)}
    n_calls = 0
    for n in sorted(body, key=lambda x: x.id):
        for c in n.calls():
            if astx.callee_attr(c) not in CTOR_CALLS or astx.path(astx.receiver(c)) != 'self':
                continue
            n_calls += 1
            used = []
            for a in list(c.args) + [k.value for k in c.keywords]:
                for x in astx.walk(a):
                    if isinstance(x, ast.Name) and x.id not in used:
                        used.append(x.id)
            for nm in used:
                if nm in loop_targets:
                    continue
                defs_in = [d for d in body if d.kind in ('stmt', 'iter', 'with') and
                           nm in {astx.path(t) for t in astx.assigned_targets(d.ast)}]
                if not defs_in:
                    continue        # loop-invariant
                w = g.path(body_entry, [n], avoid=set(defs_in), labels=cfgm.noexc)
                if w is None:
                    out.ok(fn, n.ast, f'`{nm}` is defined in the current iteration on every path to '
                           f'{astx.callee_attr(c)}(...)')
                else:
                    out.bad(fn, n.ast, f'`{nm}` is assigned inside the loop ({", ".join(sorted({"L%d" % d.lineno for d in defs_in}))}) '
                            f'but {astx.callee_attr(c)}(...) can be reached in an iteration without passing any of those '
                            f'assignments ({g.fmt_path(w)}): the value left over from a previous sub-jacobian (e.g. the unit '
                            'factor or src_indices of another input) is used for this one', key=f'stale:{nm}')
    if n_calls == 0:
        raise AnalysisError(f'{fn.ident}: no sub-jacobian constructor call in the loop')


# =========================================================================== C11.mask-cache
VEC = 'openmdao/vectors/vector.py'
DEFVEC = 'openmdao/vectors/default_vector.py'
SYSTEM = 'openmdao/core/system.py'
_FAITHFUL_WRAPPERS = {'frozenset', 'tuple', 'sorted', 'set'}
_LOSSY_WRAPPERS = {'len', 'bool', 'any', 'all', 'min', 'max', 'sum', 'type'}


def _self_reads(repo, rel, cls, method, seen=None):
    """Attributes of self read by a method, following self.<method>() calls through the given classes."""
    seen = seen if seen is not None else set()
    out_ = set()
    for r, c in ((rel, cls), (DEFVEC, 'DefaultVector')):
        f = repo.try_func(r, f'{c}.{method}')
        if f is None or f.ident in seen:
            continue
        seen.add(f.ident)
        for n in astx.walk(f.node):
            if isinstance(n, ast.Attribute) and isinstance(n.value, ast.Name) and n.value.id == 'self' and \
                    isinstance(n.ctx, ast.Load):
                par = getattr(n, '_parent', None)
                if isinstance(par, ast.Call) and par.func is n:
                    out_ |= _self_reads(repo, rel, cls, n.attr, seen)
                else:
                    out_.add(n.attr)
    return out_


@rule('C11.mask-cache', floor=1)
def mask_cache(repo, out):
    """SplitJacobian._get_mask: a cached input mask is keyed by every scope attribute of the vector that
    Vector.get_mask() depends on (the matvec scope `_names`), on the read and on the write side."""
    fn = repo.func(JAC, 'SplitJacobian._get_mask')
    fa = FA(fn)
    if len(fa.params) < 2:
        raise AnalysisError('SplitJacobian._get_mask signature changed')
    vec = fa.params[1]
    # what the mask depends on, and which of that changes between applications (set by _matvec_context)
    deps = _self_reads(repo, VEC, 'Vector', 'get_mask')
    mc = repo.func(SYSTEM, 'System._matvec_context')
    scoped = {t.attr for st in astx.walk_stmts(mc.node.body) if isinstance(st, ast.Assign)
              for t in st.targets if isinstance(t, ast.Attribute) and isinstance(t.value, ast.Name)}
    required = sorted(deps & scoped)
    if not required:
        raise AnalysisError('Vector.get_mask does not read any attribute set by System._matvec_context '
                            f'(reads {sorted(deps)}, context sets {sorted(scoped)})')
    # the stores of a get_mask() result into a self.<cache>[key]
    stores = []
    for n in fa.g.nodes:
        if n.kind == 'stmt' and isinstance(n.ast, ast.Assign) and len(n.ast.targets) == 1 and \
                isinstance(n.ast.targets[0], ast.Subscript):
            t = n.ast.targets[0]
            cp = fa.xp(t.value, n)
            o = fa.origin(n.ast.value, n)
            if cp and cp.startswith('self.') and isinstance(o, ast.Call) and astx.callee_attr(o) == 'get_mask' \
                    and astx.path(astx.receiver(o)) == vec:
                stores.append((n, cp, fa.expand(t.slice, n)))
    getm = [n for n in fa.g.nodes if any(astx.callee_attr(c) == 'get_mask' for c in n.calls())]
    if not getm:
        out.unsure(fn, fn.node, 'no call of <vector>.get_mask() in SplitJacobian._get_mask')
        return
    if not stores:
        if any(astx.mentions(n.ast, '_mask_caches') for n in fa.g.nodes if n.kind == 'stmt'):
            out.unsure(fn, fn.node, 'mask cache is used but the store of the get_mask() result was not recognised')
        else:
            out.ok(fn, getm[0].ast, 'the mask is recomputed from the vector on every call (no cache)')
        return
    caches = {cp for _, cp, _ in stores}
    reads = []
    for n in fa.g.nodes:
        for e in n.exprs():
            for x in astx.walk(e):
                if isinstance(x, ast.Subscript) and isinstance(x.ctx, ast.Load) and fa.xp(x.value, n) in caches:
                    reads.append((n, fa.expand(x.slice, n)))
                elif isinstance(x, ast.Call) and astx.callee_attr(x) in ('get', 'pop', 'setdefault') and x.args and \
                        fa.xp(astx.receiver(x), n) in caches:
                    reads.append((n, fa.expand(x.args[0], n)))
                elif isinstance(x, ast.Compare) and len(x.ops) == 1 and isinstance(x.ops[0], (ast.In, ast.NotIn)) \
                        and fa.xp(x.comparators[0], n) in caches:
                    reads.append((n, fa.expand(x.left, n)))

    def keyx(e, n):
        """Key expression with aliases expanded; a plain local name is followed to its definition."""
        x = fa.expand(e, n)
        if isinstance(x, ast.Name):
            o, at = fa.origin_at(e if isinstance(e, ast.Name) else x, n)
            x = fa.expand(o, at) if o is not x else x
        return x
    stores = [(n, cp, keyx(n.ast.targets[0].slice, n)) for n, cp, _ in stores]
    reads = [(n, keyx(k, n)) for n, k in reads]

    def covers(key, attr):
        """'yes' if key contains <vec>.<attr> faithfully, 'lossy' if only through a lossy function, else 'no'."""
        want = f'{vec}.{attr}'
        elts = key.elts if isinstance(key, ast.Tuple) else [key]
        res = 'no'
        for e in elts:
            x = e
            lossy = False
            while isinstance(x, ast.Call) and len(x.args) == 1 and not x.keywords and \
                    astx.call_name(x) in _FAITHFUL_WRAPPERS | _LOSSY_WRAPPERS:
                lossy = lossy or astx.call_name(x) in _LOSSY_WRAPPERS
                x = x.args[0]
            if astx.path(x) == want:
                if not lossy:
                    return 'yes'
                res = 'lossy'
            elif astx.mentions(e, attr) and res == 'no':
                res = 'unknown'
        return res
    for attr in required:
        w = [(n, k, covers(k, attr)) for n, _, k in stores]
        r = [(n, k, covers(k, attr)) for n, k in reads]
        w_miss = [x for x in w if x[2] in ('no', 'lossy')]
        r_miss = [x for x in r if x[2] in ('no', 'lossy')]
        unk = [x for x in w + r if x[2] == 'unknown']
        if w_miss and (r_miss or not reads):
            n, k, _ = w_miss[0]
            out.bad(fn, n.ast, f'the input mask returned by {vec}.get_mask() depends on {vec}.{attr} (the matvec scope set by '
                    f'System._matvec_context) but it is cached under the key `{astx.src(k)}`, which does not determine '
                    f'{vec}.{attr}: the mask of the first scope seen is reused for every later scope, so inputs outside '
                    'the current scope are (un)masked wrongly in the dr/di product', key=f'mask-cache-key:{attr}')
        elif unk or w_miss or r_miss:
            n = (unk or w_miss or r_miss)[0][0]
            out.unsure(fn, n.ast, f'cache key uses {vec}.{attr} in an unrecognised way, or read and write keys differ')
        else:
            out.ok(fn, stores[0][0].ast, f'cached mask is keyed by {vec}.{attr} on {len(reads)} read(s) and {len(stores)} '
                   'write(s)')


# =========================================================================== self-test
_SET_DTYPE_HEAD = ("        self._in_view = None\n        self._out_view = None\n        self._res_view = None\n\n"
                   "        if dtype.kind == 'f':")
_OUT_BIND = "            self._out_view = d_outputs.get_slice(self.col_slice)"

selftest(
    'C11',
    # ---- accum
    Mutant('csc-assign-instead-of-add', CSC, '            self._matrix.data[csc_indices] += data',
           '            self._matrix.data[csc_indices] = data', 'C11.accum'),
    Mutant('csr-dup-branches-swapped', CSR, '        if self._has_within_subjac_duplicates[subjac.key]:',
           '        if not self._has_within_subjac_duplicates[subjac.key]:', 'C11.accum'),
    Mutant('csr-add-at-removed', CSR,
           '        if self._has_within_subjac_duplicates[subjac.key]:\n'
           '            # Rare case: within-subjac duplicate (row, col) entries require unbuffered add\n'
           '            np.add.at(self._matrix.data, csr_indices, data)\n'
           '        else:\n'
           '            self._matrix.data[csr_indices] += data',
           '        self._matrix.data[csr_indices] += data', 'C11.accum'),
    Mutant('csc-no-zero', CSC, '        self._matrix.data[:] = 0.\n', '        pass\n', 'C11.accum'),
    Mutant('csr-zero-wrong-buffer', CSR, '        self._matrix.data[:] = 0.', '        self._coo.data[:] = 0.', 'C11.accum'),
    Mutant('csc-zero-only-on-dtype-change', CSC,
           '        super()._pre_update(dtype)\n'
           '        # Zero CSC data so contributions from each subjac can be accumulated\n'
           '        self._matrix.data[:] = 0.',
           '        if dtype.kind != self.dtype.kind:\n'
           '            self._matrix.data[:] = 0.\n'
           '        super()._pre_update(dtype)', 'C11.accum'),
    Mutant('csc-flag-n-gt-2', CSC, '                n > 1 and np.unique(idx).size != n',
           '                n > 2 and np.unique(idx).size != n', 'C11.accum'),
    Mutant('csr-flag-eq', CSR, '                n > 1 and np.unique(idx).size != n',
           '                n > 1 and np.unique(idx).size == n', 'C11.accum'),
    Mutant('csc-flag-from-coo-positions', CSC, '            idx = self._coo_to_csc_map[coo_slice]',
           '            idx = np.arange(coo_slice.start, coo_slice.stop)', 'C11.accum'),
    Mutant('csc-index-unmapped', CSC, '        csc_indices = self._coo_to_csc_map[self._coo_slices[subjac.key]]',
           '        csc_indices = self._coo_slices[subjac.key]', 'C11.accum'),
    Mutant('dense-detector-gt-2', DENSE, 'np.any(csc.data > 1.0)', 'np.any(csc.data > 2.0)', 'C11.accum'),
    Mutant('dense-detector-on-coo', DENSE,
           '        csc = csc_matrix((np.ones(end, dtype=dtype), (rows, cols)), shape=(num_rows, num_cols))',
           '        csc = coo_matrix((np.ones(end, dtype=dtype), (rows, cols)), shape=(num_rows, num_cols))', 'C11.accum'),
    Mutant('dense-build-branch-flipped', DENSE, '        if has_repeated:\n            # we have',
           '        if not has_repeated:\n            # we have', 'C11.accum'),
    Mutant('dense-update-branch-flipped', DENSE, '        if self._coo is None:\n            if subjac.dense:',
           '        if self._coo is not None:\n            if subjac.dense:', 'C11.accum'),
    Mutant('dense-post-update-no-toarray', DENSE, '            self._matrix = self._coo.toarray()',
           '            self._matrix = self._coo', 'C11.accum'),
    Mutant('coo-matrix-not-aliased', COO,
           '        self._matrix = self._coo = coo_matrix((data, (rows, cols)), shape=(num_rows, num_cols))',
           '        self._coo = coo_matrix((data, (rows, cols)), shape=(num_rows, num_cols))\n'
           '        self._matrix = self._coo.copy()', 'C11.accum'),
    # ---- order-key
    Mutant('csc-lexsort-row-major', CSC, 'np.lexsort((coo.row, coo.col))', 'np.lexsort((coo.col, coo.row))', 'C11.order-key'),
    Mutant('csr-lexsort-col-major', CSR, 'np.lexsort((coo.col, coo.row))', 'np.lexsort((coo.row, coo.col))', 'C11.order-key'),
    Mutant('csr-container-is-csc', CSR, '        self._matrix = csr_matrix((coo.data', '        self._matrix = csc_matrix((coo.data',
           'C11.order-key', also=[(CSR, 'from scipy.sparse import csr_matrix', 'from scipy.sparse import csr_matrix, csc_matrix')]),
    Mutant('csc-is-new-and', CSC, '(np.diff(sorted_row) != 0) | (np.diff(sorted_col) != 0)',
           '(np.diff(sorted_row) != 0) & (np.diff(sorted_col) != 0)', 'C11.order-key'),
    Mutant('csr-is-new-row-only', CSR, '(np.diff(sorted_row) != 0) | (np.diff(sorted_col) != 0)',
           '(np.diff(sorted_row) != 0) | (np.diff(sorted_row) != 0)', 'C11.order-key'),
    Mutant('csr-cumsum-no-minus-one', CSR, 'np.cumsum(is_new, dtype=INT_DTYPE) - 1', 'np.cumsum(is_new, dtype=INT_DTYPE)',
           'C11.order-key'),
    Mutant('csc-map-inverse-permutation', CSC,
           '        self._coo_to_csc_map = np.empty(n_entries, dtype=INT_DTYPE)\n'
           '        self._coo_to_csc_map[sort_order] = csc_idx',
           '        self._coo_to_csc_map = csc_idx[sort_order]', 'C11.order-key'),
    Mutant('csr-mask-guard-gt-2', CSR, '        if n_entries > 1:', '        if n_entries > 2:', 'C11.order-key'),
    Mutant('csc-ij-swapped', CSC, 'csc_matrix((coo.data, (coo.row, coo.col)), shape=coo.shape)',
           'csc_matrix((coo.data, (coo.col, coo.row)), shape=coo.shape)', 'C11.order-key'),
    # ---- slices
    Mutant('coo-start-not-carried', COO,
           '            self._coo_slices[key] = slice(start, end)\n            start = end\n\n        data = np.zeros',
           '            self._coo_slices[key] = slice(start, end)\n\n        data = np.zeros', 'C11.slices'),
    Mutant('dense-slice-recorded-before-end', DENSE,
           '            end += r.size\n            rows.append(r)\n            cols.append(c)\n'
           '            self._coo_slices[key] = slice(start, end)',
           '            self._coo_slices[key] = slice(start, end)\n            end += r.size\n'
           '            rows.append(r)\n            cols.append(c)', 'C11.slices'),
    Mutant('dense-end-not-cumulative', DENSE, '            end += r.size', '            end = r.size', 'C11.slices'),
    Mutant('coo-as-coo-info-not-full', COO, 'submat.as_coo_info(full=True)', 'submat.as_coo_info()', 'C11.slices'),
    Mutant('coo-rows-cols-swapped', COO, '            rows[start:end] = r\n            cols[start:end] = c',
           '            rows[start:end] = c\n            cols[start:end] = r', 'C11.slices'),
    Mutant('dense-slice-wrong-key', DENSE, '            self._coo_slices[key] = slice(start, end)',
           '            self._coo_slices[submat.key[0]] = slice(start, end)', 'C11.slices'),
    # ---- factor-once
    Mutant('csc-factor-in-place-on-subjac-data', CSC, '            data = data * subjac.factor', '            data *= subjac.factor',
           'C11.factor-once'),
    Mutant('dense-factor-missing-in-sparse-branch', DENSE,
           '                self._matrix[rows, cols] = data  # only works if there are no repeated indices\n'
           '                if subjac.factor is not None:\n'
           '                    self._matrix[rows, cols] *= subjac.factor\n',
           '                self._matrix[rows, cols] = data  # only works if there are no repeated indices\n', 'C11.factor-once'),
    Mutant('coo-factor-twice', COO,
           '            self._coo.data[self._coo_slices[subjac.key]] *= subjac.factor\n',
           '            self._coo.data[self._coo_slices[subjac.key]] *= subjac.factor\n'
           '            self._coo.data[self._coo_slices[subjac.key]] *= subjac.factor\n', 'C11.factor-once'),
    Mutant('csr-factor-after-accumulate', CSR,
           '        if subjac.factor is not None:\n            data = data * subjac.factor\n'
           '        if self._has_within_subjac_duplicates[subjac.key]:\n'
           '            # Rare case: within-subjac duplicate (row, col) entries require unbuffered add\n'
           '            np.add.at(self._matrix.data, csr_indices, data)\n'
           '        else:\n'
           '            self._matrix.data[csr_indices] += data',
           '        if self._has_within_subjac_duplicates[subjac.key]:\n'
           '            np.add.at(self._matrix.data, csr_indices, data)\n'
           '        else:\n'
           '            self._matrix.data[csr_indices] += data\n'
           '        if subjac.factor is not None:\n            self._matrix.data[csr_indices] *= subjac.factor',
           'C11.factor-once'),
    Mutant('dense-coo-factor-guard-inverted', DENSE,
           '            if subjac.factor is not None:\n                self._coo.data[self._coo_slices[subjac.key]] *= subjac.factor',
           '            if subjac.factor is None:\n                self._coo.data[self._coo_slices[subjac.key]] *= subjac.factor',
           'C11.factor-once'),
    Mutant('csc-factor-product-unused', CSC, '            data = data * subjac.factor', '            scaled = data * subjac.factor',
           'C11.factor-once'),
    Mutant('dense-factor-after-store', DENSE, '                    val = val * subjac.factor\n', '                    pass\n',
           'C11.factor-once',
           also=[(DENSE, '                    view[:, :] = val\n',
                  '                    view[:, :] = val\n                if subjac.factor is not None:\n'
                  '                    val = val * subjac.factor\n')]),
    # ---- factor-region
    Mutant('dense-prefix-factor-scales-whole-block', DENSE, '                    val = val * subjac.factor\n',
           '                    pass\n', 'C11.factor-region',
           also=[(DENSE, '                    view[:, :] = val\n',
                  '                    view[:, :] = val\n                if subjac.factor is not None:\n'
                  '                    view *= subjac.factor\n')]),
    Mutant('dense-factor-region-rows-only', DENSE, '                    self._matrix[rows, cols] *= subjac.factor',
           '                    self._matrix[rows] *= subjac.factor', 'C11.factor-region'),
    Mutant('coo-factor-whole-buffer', COO, '            self._coo.data[self._coo_slices[subjac.key]] *= subjac.factor',
           '            self._coo.data *= subjac.factor', 'C11.factor-region'),
    # ---- dtype
    Mutant('coo-dtype-not-applied', COO, 'self._matrix.data = np.ascontiguousarray(data, dtype=dtype)',
           'self._matrix.data = np.ascontiguousarray(data)', 'C11.dtype'),
    Mutant('dense-dtype-guard-inverted', DENSE, '        if dtype.kind != self.dtype.kind:\n            if self._coo is None:',
           '        if dtype.kind == self.dtype.kind:\n            if self._coo is None:', 'C11.dtype'),
    Mutant('dense-coo-branch-dtype-not-applied', DENSE, 'self._coo.data = np.ascontiguousarray(data, dtype=dtype)',
           'self._coo.data = np.ascontiguousarray(data)', 'C11.dtype'),
    Mutant('csc-pre-update-no-super', CSC,
           '        super()._pre_update(dtype)\n        # Zero CSC', '        # Zero CSC', 'C11.dtype'),
    Mutant('matrix-pre-update-no-dtype', MAT, '        self._update_dtype(dtype)', '        pass', 'C11.dtype'),
    Mutant('diagonal-res-view-not-dropped', SUBJAC, _SET_DTYPE_HEAD,
           "        self._in_view = None\n        self._out_view = None\n\n        if dtype.kind == 'f':", 'C11.dtype', nth=2),
    Mutant('subjac-in-view-not-dropped', SUBJAC, _SET_DTYPE_HEAD,
           "        self._out_view = None\n        self._res_view = None\n\n        if dtype.kind == 'f':", 'C11.dtype', nth=0),
    Mutant('subjac-unsupported-kind-silent', SUBJAC,
           '        else:\n            raise ValueError(f"Subjacobian {self.key}: Unsupported dtype: {dtype}")',
           '        else:\n            pass', 'C11.dtype', nth=0),
    Mutant('sparse-complex-branch-stays-real', SUBJAC,
           "            self.info['val'].data = np.asarray(self.info['val'].data, dtype=dtype)",
           "            self.info['val'].data = np.asarray(self.info['val'].data)", 'C11.dtype'),
    # ---- dtype-slot
    Mutant('sparse-set-dtype-as-ndarray', SUBJAC,
           "            self.info['val'].data = np.ascontiguousarray(self.info['val'].data.real, dtype=dtype)\n"
           "        elif dtype.kind == 'c':\n"
           "            self.info['val'].data = np.asarray(self.info['val'].data, dtype=dtype)",
           "            self.info['val'] = np.ascontiguousarray(self.info['val'].real, dtype=dtype)\n"
           "        elif dtype.kind == 'c':\n"
           "            self.info['val'] = np.asarray(self.info['val'], dtype=dtype)", 'C11.dtype-slot'),
    Mutant('coo-ndarray-branches-convert-data', SUBJAC,
           "            self.info['val'] = np.ascontiguousarray(self.info['val'].real, dtype=dtype)\n"
           "        elif dtype.kind == 'c':\n"
           "            self.info['val'] = np.asarray(self.info['val'], dtype=dtype)",
           "            self.info['val'].data = np.ascontiguousarray(self.info['val'].data.real, dtype=dtype)\n"
           "        elif dtype.kind == 'c':\n"
           "            self.info['val'].data = np.asarray(self.info['val'].data, dtype=dtype)", 'C11.dtype-slot', nth=0),
    Mutant('coo-prefix-never-delegates', SUBJAC, "        if issparse(self.info['val']):", '        if False:', 'C11.dtype-slot'),
    Mutant('coo-issparse-guard-inverted', SUBJAC, "        if issparse(self.info['val']):",
           "        if not issparse(self.info['val']):", 'C11.dtype-slot'),
    Mutant('coo-delegates-for-ndarray', SUBJAC, "        if issparse(self.info['val']):",
           "        if isinstance(self.info['val'], np.ndarray):", 'C11.dtype-slot'),
    Mutant('coo-delegation-dropped', SUBJAC, '            super().set_dtype(dtype)\n        elif dtype.kind == \'f\':',
           '            pass\n        elif dtype.kind == \'f\':', 'C11.dtype-slot'),
    # ---- update-order
    Mutant('pre-update-inside-loop', JAC,
           '        matrixobj._pre_update(dtype)\n        for subjac in matrixobj._submats.values():\n'
           '            matrixobj._update_from_submat(subjac, randgen)',
           '        for subjac in matrixobj._submats.values():\n            matrixobj._pre_update(dtype)\n'
           '            matrixobj._update_from_submat(subjac, randgen)', 'C11.update-order'),
    Mutant('post-update-missing', JAC, '        matrixobj._post_update()', '        pass', 'C11.update-order'),
    Mutant('post-update-before-loop', JAC,
           '        matrixobj._pre_update(dtype)\n        for subjac in matrixobj._submats.values():\n'
           '            matrixobj._update_from_submat(subjac, randgen)\n        matrixobj._post_update()',
           '        matrixobj._pre_update(dtype)\n        matrixobj._post_update()\n'
           '        for subjac in matrixobj._submats.values():\n'
           '            matrixobj._update_from_submat(subjac, randgen)', 'C11.update-order'),
    Mutant('update-loop-skips-submats', JAC,
           '        for subjac in matrixobj._submats.values():\n            matrixobj._update_from_submat(subjac, randgen)',
           '        for subjac in matrixobj._submats.values():\n            if subjac.factor is None:\n                continue\n'
           '            matrixobj._update_from_submat(subjac, randgen)', 'C11.update-order'),
    Mutant('dr-di-never-updated', JAC, '            self._update_matrix(self._dr_di_mtx, randgen, self.dtype)',
           '            self._update_matrix(self._dr_do_mtx, randgen, self.dtype)', 'C11.update-order'),
    Mutant('update-with-float-dtype', JAC, '            self._update_matrix(self._dr_do_mtx, randgen, self.dtype)',
           '            self._update_matrix(self._dr_do_mtx, randgen, np.dtype(float))', 'C11.update-order'),
    Mutant('context-exit-without-update', JAC, '            self.jac._update(self.system)\n', '', 'C11.update-order'),
    Mutant('group-context-pre-update-dropped', JAC, '            self.jac._pre_update(self.group._outputs.dtype)', '            pass',
           'C11.update-order'),
    # ---- cache
    Mutant('csc-cache-never-invalidated', CSC, '        self._matrix_T = None\n\n    def dump(self, msginfo):',
           '        pass\n\n    def dump(self, msginfo):', 'C11.cache',
           also=[(COO, '            self._matrix_T = None\n', '')]),
    Mutant('csr-cache-fill-untransposed', CSR, '            self._matrix_T = self._matrix.T', '            self._matrix_T = self._matrix',
           'C11.cache'),
    Mutant('csc-cache-test-flipped', CSC, '        if self._matrix_T is None:', '        if self._matrix_T is not None:', 'C11.cache'),
    Mutant('coo-prod-reads-cache', COO, '            return self.transpose() @ self._get_masked_arr(in_vec, mask)',
           '            return self._matrix_T @ self._get_masked_arr(in_vec, mask)', 'C11.cache'),
    # ---- prod
    Mutant('coo-rev-without-transpose', COO, '            return self.transpose() @ self._get_masked_arr(in_vec, mask)',
           '            return self._matrix @ self._get_masked_arr(in_vec, mask)', 'C11.prod'),
    Mutant('dense-fwd-mask-ignored', DENSE, '                return self._matrix @ self._get_masked_arr(in_vec, mask)',
           '                return self._matrix @ in_vec', 'C11.prod'),
    Mutant('dense-mode-flipped', DENSE, "        if mode == 'fwd':\n            if mask is None:",
           "        if mode == 'rev':\n            if mask is None:", 'C11.prod'),
    Mutant('dense-transpose-identity', DENSE, '        return self._matrix.T', '        return self._matrix', 'C11.prod'),
    Mutant('mask-applied-to-callers-array', MAT, '        mask_arr = in_arr.copy()', '        mask_arr = in_arr', 'C11.prod'),
    Mutant('mask-never-zeroed', MAT, '        mask_arr[mask] = 0.0\n', '', 'C11.prod'),
    # ---- apply
    Mutant('subjac-rev-input-rand-arm-untransposed', SUBJAC,
           "        val = self.info['val'].T if randgen is None else self.get_rand_val(randgen).T\n"
           "        self._in_view += val @ self._res_view",
           "        val = self.info['val'].T if randgen is None else self.get_rand_val(randgen)\n"
           "        self._in_view += val @ self._res_view", 'C11.apply'),
    Mutant('subjac-rev-output-untransposed', SUBJAC,
           "        val = self.info['val'].T if randgen is None else self.get_rand_val(randgen).T\n"
           "        self._out_view += val @ self._res_view",
           "        val = self.info['val'] if randgen is None else self.get_rand_val(randgen)\n"
           "        self._out_view += val @ self._res_view", 'C11.apply'),
    Mutant('omcoo-rev-output-minlength-nrows', SUBJAC,
           '        self._out_view += bincount(self.cols, self._res_view[self.rows] * val,\n'
           '                                   minlength=self.parent_ncols)',
           '        self._out_view += bincount(self.cols, self._res_view[self.rows] * val,\n'
           '                                   minlength=self.nrows)', 'C11.apply'),
    Mutant('omcoo-fwd-output-gathers-inputs', SUBJAC,
           '        self._res_view += bincount(self.rows, self._out_view[self.cols] * val, minlength=self.nrows)',
           '        self._res_view += bincount(self.rows, self._in_view[self.cols] * val, minlength=self.nrows)', 'C11.apply'),
    Mutant('omcoo-rev-input-rows-cols-swapped', SUBJAC,
           '        self._in_view += bincount(self.cols, self._res_view[self.rows] * val,',
           '        self._in_view += bincount(self.rows, self._res_view[self.cols] * val,', 'C11.apply'),
    Mutant('diagonal-rev-output-binds-d-inputs', SUBJAC, _OUT_BIND,
           '            self._out_view = d_inputs.get_slice(self.col_slice)', 'C11.apply', nth=5),
    Mutant('subjac-fwd-output-view-row-slice', SUBJAC, _OUT_BIND,
           '            self._out_view = d_outputs.get_slice(self.row_slice)', 'C11.apply', nth=0),
    Mutant('diagonal-rev-input-wrong-operand', SUBJAC, '        self._in_view += self._res_view * val',
           '        self._in_view += self._in_view * val', 'C11.apply'),
    Mutant('diagonal-fwd-output-wrong-target', SUBJAC, '        self._res_view += self._out_view * val',
           '        self._out_view += self._out_view * val', 'C11.apply'),
    # ---- split-apply
    Mutant('rev-mask-dropped', JAC, '                    if mask is not None:\n                        arr[mask] = 0.0\n', '',
           'C11.split-apply'),
    Mutant('fwd-mask-dropped', JAC,
           '                    dresids += drdi_mtx._prod(d_inputs.asarray(), mode,\n'
           '                                              self._get_mask(d_inputs, mode))',
           '                    dresids += drdi_mtx._prod(d_inputs.asarray(), mode)', 'C11.split-apply'),
    Mutant('rev-drdo-wrong-direction', JAC, '                        doutarr += self._dr_do_mtx._prod(dresids, mode)',
           '                        dresids += self._dr_do_mtx._prod(doutarr, mode)', 'C11.split-apply'),
    Mutant('rev-drdo-literal-mode', JAC, '                        doutarr += self._dr_do_mtx._prod(dresids, mode)',
           "                        doutarr += self._dr_do_mtx._prod(dresids, 'fwd')", 'C11.split-apply'),
    Mutant('rev-drdi-result-to-residuals', JAC, '                    d_inputs += arr', '                    dresids += arr',
           'C11.split-apply'),

    # ---- coo-info
    Mutant('seed2-diagonal-src-indices-without-offset', SUBJAC,
           '            if self.src_indices is None:\n'
           '                cols = np.arange(self.col_slice.start, self.col_slice.stop)\n'
           '            else:\n'
           '                cols = self.src_indices + self.col_slice.start\n'
           '        else:\n'
           '            rows = cols = np.arange(self.nrows)\n'
           '            if self.src_indices is not None:\n'
           '                cols = self.src_indices\n',
           '            cols = np.arange(self.col_slice.start, self.col_slice.stop)\n'
           '        else:\n'
           '            rows = cols = np.arange(self.nrows)\n'
           '\n'
           '        if self.src_indices is not None:\n'
           '            cols = self.src_indices\n', 'C11.coo-info'),
    Mutant('sparse-offset-before-src-mapping', SUBJAC,
           '        if self.src_indices is not None:\n'
           '            col = self.src_indices[col]\n'
           '\n'
           '        if full:\n'
           '            row = row + self.row_slice.start\n'
           '            col = col + self.col_slice.start\n',
           '        if full:\n'
           '            row = row + self.row_slice.start\n'
           '            col = col + self.col_slice.start\n'
           '\n'
           '        if self.src_indices is not None:\n'
           '            col = self.src_indices[col]\n', 'C11.coo-info'),
    Mutant('sparse-rows-offset-by-col-start', SUBJAC, '            row = row + self.row_slice.start',
           '            row = row + self.col_slice.start', 'C11.coo-info'),
    Mutant('dense-col-offset-from-row-slice', SUBJAC, '        coffset = self.col_slice.start if full else 0',
           '        coffset = self.row_slice.start if full else 0', 'C11.coo-info'),
    Mutant('dense-src-indices-never-offset', SUBJAC,
           '            if full:\n                colrange = colrange + coffset\n', '', 'C11.coo-info'),
    Mutant('omcoo-cols-offset-twice', SUBJAC,
           '            rows = rows + self.row_slice.start\n            cols = cols + self.col_slice.start\n\n        return data, rows, cols',
           '            rows = rows + self.row_slice.start\n            cols = cols + self.col_slice.start\n'
           '            cols = cols + self.col_slice.start\n\n        return data, rows, cols', 'C11.coo-info', nth=1),
    Mutant('coo-cols-from-rows', SUBJAC,
           '            rows = rows + self.row_slice.start\n            cols = cols + self.col_slice.start\n\n        return data, rows, cols',
           '            rows = rows + self.row_slice.start\n            cols = rows + self.col_slice.start\n\n        return data, rows, cols',
           'C11.coo-info', nth=0),
    Mutant('coo-src-mapping-dropped', SUBJAC,
           '            # to source variables and we have to convert columns using src_indices.\n'
           '            cols = self.src_indices[cols]\n',
           '            # to source variables and we have to convert columns using src_indices.\n'
           '            pass\n', 'C11.coo-info', nth=0),
    Mutant('diagonal-local-branch-offset', SUBJAC, '            rows = cols = np.arange(self.nrows)',
           '            rows = cols = np.arange(self.col_slice.start, self.col_slice.stop)', 'C11.coo-info'),
    # ---- loopdef
    Mutant('seed3-factor-reset-hoisted-out-of-loop', JAC,
           '            input_slices = self._input_slices\n\n            for abs_key, meta in self._subjacs_info.items():\n'
           '                wrt = abs_key[1]\n                factor = None\n',
           '            input_slices = self._input_slices\n            factor = None\n\n'
           '            for abs_key, meta in self._subjacs_info.items():\n                wrt = abs_key[1]\n', 'C11.loopdef'),
    Mutant('factor-reset-only-when-units-differ', JAC,
           '                wrt = abs_key[1]\n                factor = None\n', '                wrt = abs_key[1]\n', 'C11.loopdef',
           also=[(JAC, '                            if factor == 1.0:\n                                factor = None\n',
                  '                            if factor == 1.0:\n                                factor = None\n'
                  '                        elif not in_units:\n                            factor = None\n')]),
    Mutant('src-inds-list-only-for-unit-conversions', JAC,
           "                        src_inds_list = abs2meta_in[wrt]['src_inds_list']\n\n",
           "                        if in_units != out_units:\n"
           "                            src_inds_list = abs2meta_in[wrt]['src_inds_list']\n\n", 'C11.loopdef',
           also=[(JAC, '            input_slices = self._input_slices\n\n            for abs_key, meta',
                  '            input_slices = self._input_slices\n            src_inds_list = None\n\n            for abs_key, meta')]),

    # ---- the same obligations in the refactored shapes accepted by the robustness round
    Mutant('helper-shape-lexsort-row-major', CSC,
           '        sort_order = np.lexsort((coo.row, coo.col))\n', '        sort_order = self._sort(coo.col, coo.row)\n',
           'C11.order-key',
           also=[(CSC, '    def _pre_update(self, dtype):',
                  '    @staticmethod\n    def _sort(a, b):\n        order = np.lexsort((a, b))\n        return order\n\n'
                  '    def _pre_update(self, dtype):')]),
    Mutant('keys-shape-rows-cols-swapped', COO,
           '        start = end = 0\n'
           '        for key, submat in submats.items():\n'
           '            _, r, c = submat.as_coo_info(full=True)\n'
           '            end = start + r.size\n'
           '            rows[start:end] = r\n'
           '            cols[start:end] = c\n'
           '            self._coo_slices[key] = slice(start, end)\n'
           '            start = end\n',
           '        offset = 0\n'
           '        for key in submats:\n'
           '            coo_info = submats[key].as_coo_info(full=True)\n'
           '            stop = offset + coo_info[1].size\n'
           '            rows[offset:stop] = coo_info[2]\n'
           '            cols[offset:stop] = coo_info[1]\n'
           '            self._coo_slices[key] = slice(offset, stop)\n'
           '            offset = stop\n', 'C11.slices'),
    Mutant('operator-shape-rev-without-transpose', COO,
           "        if mode == 'fwd':\n            return self._matrix @ self._get_masked_arr(in_vec, mask)\n"
           "        else:  # rev\n            return self.transpose() @ self._get_masked_arr(in_vec, mask)",
           "        if mode == 'fwd':\n            operator = self.transpose()\n"
           "        else:  # rev\n            operator = self._matrix\n"
           "        return operator @ self._get_masked_arr(in_vec, mask)", 'C11.prod'),
    Mutant('weights-temp-shape-rows-cols-swapped', SUBJAC,
           '        self._in_view += bincount(self.cols, self._res_view[self.rows] * val,\n'
           '                                  minlength=self.parent_ncols)',
           '        weighted = self._res_view[self.cols] * val\n'
           '        self._in_view += bincount(self.rows, weights=weighted, minlength=self.parent_ncols)', 'C11.apply'),

    Mutant('seed2-csr-factor-in-place-on-subjac-data', CSR, '            data = data * subjac.factor',
           '            data *= subjac.factor', 'C11.factor-once'),
    Mutant('seed2-dense-coo-branch-factor-dropped', DENSE,
           '            if subjac.factor is not None:\n'
           '                self._coo.data[self._coo_slices[subjac.key]] *= subjac.factor\n', '', 'C11.factor-once'),
    # ---- mask-cache
    Mutant('seed2-mask-cached-per-mode-only', JAC, 'self._mask_caches[(d_inputs._names, mode)]', 'self._mask_caches[mode]',
           'C11.mask-cache', nth='all'),
    Mutant('mask-cache-key-len-of-names', JAC, 'self._mask_caches[(d_inputs._names, mode)]',
           'self._mask_caches[(len(d_inputs._names), mode)]', 'C11.mask-cache', nth='all'),
    Mutant('mask-cache-keyed-by-other-vector-state', JAC, 'self._mask_caches[(d_inputs._names, mode)]',
           'self._mask_caches[(d_inputs._kind, mode)]', 'C11.mask-cache', nth='all'),

    # ---- obligations inside an extracted helper (second robustness round)
    Mutant('helper-shape-dense-coo-factor-dropped', DENSE, '        else:\n            self._coo.data[self._coo_slices[subjac.key]] = subjac.get_as_coo_data(randgen)\n            if subjac.factor is not None:\n                self._coo.data[self._coo_slices[subjac.key]] *= subjac.factor\n',
           '        else:\n            self._update_coo_from_submat(subjac, randgen)\n\n    def _update_coo_from_submat(self, subjac, randgen):\n        self._coo.data[self._coo_slices[subjac.key]] = subjac.get_as_coo_data(randgen)\n',
           'C11.factor-once'),
    Mutant('helper-shape-dense-coo-branch-stores-nothing', DENSE, '        else:\n            self._coo.data[self._coo_slices[subjac.key]] = subjac.get_as_coo_data(randgen)\n            if subjac.factor is not None:\n                self._coo.data[self._coo_slices[subjac.key]] *= subjac.factor\n',
           '        else:\n            self._update_coo_from_submat(subjac, randgen)\n\n    def _update_coo_from_submat(self, subjac, randgen):\n        if subjac.factor is not None:\n            self._coo.data[self._coo_slices[subjac.key]] *= subjac.factor\n',
           'C11.accum'),
    Mutant('helper-shape-csc-buffered-add-with-duplicates', CSC,
           '        if self._has_within_subjac_duplicates[subjac.key]:\n'
           '            # Rare case: within-subjac duplicate (row, col) entries require unbuffered add\n'
           '            np.add.at(self._matrix.data, csc_indices, data)\n'
           '        else:\n'
           '            self._matrix.data[csc_indices] += data\n',
           '        self._accumulate(values=data, where=csc_indices, dups=self._has_within_subjac_duplicates[subjac.key])\n\n'
           '    def _accumulate(self, where, values, dups=False):\n'
           '        target = self._matrix.data\n'
           '        if not dups:\n'
           '            np.add.at(target, where, values)\n'
           '        else:\n'
           '            target[where] += values\n', 'C11.accum'),

    Mutant('named-slice-shape-taken-before-end-update', COO,
           '            end = start + r.size\n            rows[start:end] = r\n            cols[start:end] = c\n'
           '            self._coo_slices[key] = slice(start, end)\n',
           '            sub_slice = slice(start, end)\n            end = start + r.size\n            rows[start:end] = r\n'
           '            cols[start:end] = c\n            self._coo_slices[key] = sub_slice\n', 'C11.slices'),

    # ---- twins
    Twin('twin-coo-build-named-slice', COO,
         '            rows[start:end] = r\n            cols[start:end] = c\n            self._coo_slices[key] = slice(start, end)\n',
         '            sub_slice = slice(start, end)\n            rows[sub_slice] = r\n            cols[sub_slice] = c\n'
         '            self._coo_slices[key] = sub_slice\n'),
    Twin('twin-dense-coo-branch-in-helper', DENSE, '        else:\n            self._coo.data[self._coo_slices[subjac.key]] = subjac.get_as_coo_data(randgen)\n            if subjac.factor is not None:\n                self._coo.data[self._coo_slices[subjac.key]] *= subjac.factor\n',
         '        else:\n            self._update_coo_from_submat(subjac, randgen)\n\n    def _update_coo_from_submat(self, subjac, randgen):\n        self._coo.data[self._coo_slices[subjac.key]] = subjac.get_as_coo_data(randgen)\n        if subjac.factor is not None:\n            self._coo.data[self._coo_slices[subjac.key]] *= subjac.factor\n'),
    Twin('twin-csc-accumulate-in-helper-keyword-args', CSC,
         '        if self._has_within_subjac_duplicates[subjac.key]:\n'
         '            # Rare case: within-subjac duplicate (row, col) entries require unbuffered add\n'
         '            np.add.at(self._matrix.data, csc_indices, data)\n'
         '        else:\n'
         '            self._matrix.data[csc_indices] += data\n',
         '        self._accumulate(values=data, where=csc_indices, dups=self._has_within_subjac_duplicates[subjac.key])\n\n'
         '    def _accumulate(self, where, values, dups=False):\n'
         '        target = self._matrix.data\n'
         '        if dups:\n'
         '            np.add.at(target, where, values)\n'
         '        else:\n'
         '            target[where] += values\n'),
    Twin('twin-mask-cache-key-names-only', JAC, 'self._mask_caches[(d_inputs._names, mode)]',
         'self._mask_caches[d_inputs._names]', nth='all'),
    Twin('twin-mask-cache-key-temporary-if-form', JAC,
         '        try:\n            mask = self._mask_caches[(d_inputs._names, mode)]\n        except KeyError:\n'
         '            mask = d_inputs.get_mask()\n            self._mask_caches[(d_inputs._names, mode)] = mask\n',
         '        key = (mode, frozenset(d_inputs._names))\n        if key not in self._mask_caches:\n'
         '            self._mask_caches[key] = d_inputs.get_mask()\n        mask = self._mask_caches[key]\n'),
    Twin('twin-mask-not-cached', JAC,
         '        try:\n            mask = self._mask_caches[(d_inputs._names, mode)]\n        except KeyError:\n'
         '            mask = d_inputs.get_mask()\n            self._mask_caches[(d_inputs._names, mode)] = mask\n',
         '        mask = d_inputs.get_mask()\n'),
    # ---- shapes accepted after the robustness round (behaviour-preserving refactors)
    Twin('twin-coo-build-keys-lookup-tuple-index', COO,
         '        start = end = 0\n'
         '        for key, submat in submats.items():\n'
         '            _, r, c = submat.as_coo_info(full=True)\n'
         '            end = start + r.size\n'
         '            rows[start:end] = r\n'
         '            cols[start:end] = c\n'
         '            self._coo_slices[key] = slice(start, end)\n'
         '            start = end\n',
         '        offset = 0\n'
         '        for key in submats:\n'
         '            coo_info = submats[key].as_coo_info(full=True)\n'
         '            sub_rows = coo_info[1]\n'
         '            sub_cols = coo_info[2]\n'
         '            stop = offset + sub_rows.size\n'
         '            rows[offset:stop] = sub_rows\n'
         '            cols[offset:stop] = sub_cols\n'
         '            coo_slices[key] = slice(offset, stop)\n'
         '            offset = stop\n',
         also=[(COO, '        submats = self._submats\n        self._coo_slices = {}\n',
                '        submats = self._submats\n        coo_slices = self._coo_slices = {}\n')]),
    Twin('twin-csc-build-map-helper', CSC,
         '        sort_order = np.lexsort((coo.row, coo.col))\n'
         '        sorted_row = coo.row[sort_order]\n'
         '        sorted_col = coo.col[sort_order]\n'
         '\n'
         '        # Mark the first occurrence of each unique (row, col) pair\n'
         '        is_new = np.ones(n_entries, dtype=bool)\n'
         '        if n_entries > 1:\n'
         '            is_new[1:] = (np.diff(sorted_row) != 0) | (np.diff(sorted_col) != 0)\n'
         '\n'
         '        # Assign CSC indices: increment for each new unique entry, same for duplicates\n'
         '        csc_idx = np.cumsum(is_new, dtype=INT_DTYPE) - 1\n'
         '\n'
         '        # Map back to original COO order\n'
         '        self._coo_to_csc_map = np.empty(n_entries, dtype=INT_DTYPE)\n'
         '        self._coo_to_csc_map[sort_order] = csc_idx\n',
         '        self._coo_to_csc_map = coo2csc = self._get_coo_to_csc_map(coo.row, coo.col,\n'
         '                                                                  coo.data.size)\n',
         also=[(CSC, '            idx = self._coo_to_csc_map[coo_slice]\n            n = idx.size\n'
                     '            self._has_within_subjac_duplicates[key] = (',
                '            idx = coo2csc[coo_slice]\n            n = idx.size\n            has_dups[key] = ('),
               (CSC, '        self._has_within_subjac_duplicates = {}\n        for key, coo_slice',
                '        self._has_within_subjac_duplicates = has_dups = {}\n        for key, coo_slice'),
               (CSC, '    def _pre_update(self, dtype):',
                '    @staticmethod\n'
                '    def _get_coo_to_csc_map(coo_row, coo_col, n_entries):\n'
                '        sort_order = np.lexsort((coo_row, coo_col))\n'
                '        sorted_row = coo_row[sort_order]\n'
                '        sorted_col = coo_col[sort_order]\n'
                '        is_new = np.ones(n_entries, dtype=bool)\n'
                '        if n_entries > 1:\n'
                '            is_new[1:] = (np.diff(sorted_row) != 0) | (np.diff(sorted_col) != 0)\n'
                '        csc_idx = np.cumsum(is_new, dtype=INT_DTYPE) - 1\n'
                '        coo_to_csc_map = np.empty(n_entries, dtype=INT_DTYPE)\n'
                '        coo_to_csc_map[sort_order] = csc_idx\n'
                '        return coo_to_csc_map\n'
                '\n'
                '    def _pre_update(self, dtype):')]),
    Twin('twin-omcoo-bincount-weights-temporary', SUBJAC,
         "        val = self.info['val'] if randgen is None else self.get_rand_val(randgen)\n"
         '        self._in_view += bincount(self.cols, self._res_view[self.rows] * val,\n'
         '                                  minlength=self.parent_ncols)',
         "        val = self.get_rand_val(randgen) if randgen is not None else self.info['val']\n"
         '        weighted = self._res_view[self.rows] * val\n'
         '        self._in_view += bincount(self.cols, weights=weighted, minlength=self.parent_ncols)'),
    Twin('twin-coo-prod-operator-selected-first', COO,
         "        if mode == 'fwd':\n            return self._matrix @ self._get_masked_arr(in_vec, mask)\n"
         "        else:  # rev\n            return self.transpose() @ self._get_masked_arr(in_vec, mask)",
         "        if mode == 'fwd':\n            operator = self._matrix\n"
         "        else:  # rev\n            operator = self.transpose()\n"
         "        return operator @ self._get_masked_arr(in_vec, mask)"),
    Twin('twin-masked-arr-inverted-guard', MAT,
         '        if mask is None:\n            return in_arr\n        mask_arr = in_arr.copy()\n'
         '        mask_arr[mask] = 0.0\n        return mask_arr',
         '        if mask is not None:\n            masked = in_arr.copy()\n            masked[mask] = 0.0\n'
         '            return masked\n        return in_arr'),
    Twin('twin-factor-reset-moved-into-branch', JAC,
         '                wrt = abs_key[1]\n                factor = None\n', '                wrt = abs_key[1]\n',
         also=[(JAC, '                        if in_units and out_units and in_units != out_units:\n',
                '                        factor = None\n                        if in_units and out_units and in_units != out_units:\n')]),
    Twin('twin-factor-else-none', JAC,
         '                wrt = abs_key[1]\n                factor = None\n', '                wrt = abs_key[1]\n',
         also=[(JAC, '                            if factor == 1.0:\n                                factor = None\n',
                '                            if factor == 1.0:\n                                factor = None\n'
                '                        else:\n                            factor = None\n')]),
    Twin('twin-diagonal-coo-info-sparse-style', SUBJAC,
         '        if full:\n'
         '            rows = np.arange(self.row_slice.start, self.row_slice.stop)\n'
         '            if self.src_indices is None:\n'
         '                cols = np.arange(self.col_slice.start, self.col_slice.stop)\n'
         '            else:\n'
         '                cols = self.src_indices + self.col_slice.start\n'
         '        else:\n'
         '            rows = cols = np.arange(self.nrows)\n'
         '            if self.src_indices is not None:\n'
         '                cols = self.src_indices\n',
         '        rows = cols = np.arange(self.nrows)\n'
         '        if self.src_indices is not None:\n'
         '            cols = self.src_indices\n'
         '        if full:\n'
         '            rows = rows + self.row_slice.start\n'
         '            cols = cols + self.col_slice.start\n'),
    Twin('twin-dense-coffset-unconditional', SUBJAC,
         '            if full:\n                colrange = colrange + coffset\n', '            colrange = colrange + coffset\n'),
    Twin('twin-sparse-offset-commuted', SUBJAC, '            col = col + self.col_slice.start', '            col = self.col_slice.start + col'),
    Twin('twin-csc-rename-index-local', CSC, 'csc_indices', 'positions', nth='all'),
    Twin('twin-csr-flip-dup-branches', CSR,
         '        if self._has_within_subjac_duplicates[subjac.key]:\n'
         '            # Rare case: within-subjac duplicate (row, col) entries require unbuffered add\n'
         '            np.add.at(self._matrix.data, csr_indices, data)\n'
         '        else:\n'
         '            self._matrix.data[csr_indices] += data',
         '        if not self._has_within_subjac_duplicates[subjac.key]:\n'
         '            self._matrix.data[csr_indices] += data\n'
         '        else:\n'
         '            np.add.at(self._matrix.data, csr_indices, data)'),
    Twin('twin-csc-zero-with-fill', CSC, '        self._matrix.data[:] = 0.', '        self._matrix.data.fill(0.0)'),
    Twin('twin-csc-lexsort-list-no-alias', CSC, 'np.lexsort((coo.row, coo.col))', 'np.lexsort([self._coo.row, self._coo.col])'),
    Twin('twin-dense-detector-flipped-compare', DENSE, 'np.any(csc.data > 1.0)', 'np.any(1.5 < csc.data)'),
    Twin('twin-dense-detector-conservative', DENSE, 'np.any(csc.data > 1.0)', 'np.any(csc.data >= 1.0)'),
    Twin('twin-csc-buffer-temporaries', CSC, '        self._matrix.data[:] = 0.', '        buf = self._matrix.data\n        buf[:] = 0',
         also=[(CSC, '            self._matrix.data[csc_indices] += data',
                '            target = self._matrix.data\n            target[csc_indices] += data')]),
    Twin('twin-csc-flag-lt-size', CSC, '                n > 1 and np.unique(idx).size != n',
         '                np.unique(idx).size < idx.size'),
    Twin('twin-csc-always-add-at', CSC,
         '        if self._has_within_subjac_duplicates[subjac.key]:\n'
         '            # Rare case: within-subjac duplicate (row, col) entries require unbuffered add\n'
         '            np.add.at(self._matrix.data, csc_indices, data)\n'
         '        else:\n'
         '            self._matrix.data[csc_indices] += data',
         '        np.add.at(self._matrix.data, csc_indices, data)'),
    Twin('twin-coo-extract-slice-temp', COO,
         '        self._coo.data[self._coo_slices[subjac.key]] = subjac.get_as_coo_data(randgen)\n'
         '        if subjac.factor is not None:\n'
         '            self._coo.data[self._coo_slices[subjac.key]] *= subjac.factor\n',
         '        sl = self._coo_slices[subjac.key]\n'
         '        self._coo.data[sl] = subjac.get_as_coo_data(randgen)\n'
         '        if subjac.factor is not None:\n'
         '            self._coo.data[sl] *= subjac.factor\n'),
    Twin('twin-csr-factor-operands-swapped', CSR, '            data = data * subjac.factor', '            data = subjac.factor * data'),
    Twin('twin-csc-factor-flipped-test', CSC,
         '        if subjac.factor is not None:\n            data = data * subjac.factor\n',
         '        if subjac.factor is None:\n            pass\n        else:\n            data = data * subjac.factor\n'),
    Twin('twin-update-matrix-items', JAC, '        for subjac in matrixobj._submats.values():',
         '        for _, subjac in matrixobj._submats.items():'),
    Twin('twin-coo-prod-flipped', COO,
         "        if mode == 'fwd':\n            return self._matrix @ self._get_masked_arr(in_vec, mask)\n"
         "        else:  # rev\n            return self.transpose() @ self._get_masked_arr(in_vec, mask)",
         "        if mode != 'fwd':\n            return self.transpose() @ self._get_masked_arr(in_vec, mask)\n"
         "        else:\n            return self._matrix @ self._get_masked_arr(in_vec, mask)"),
    Twin('twin-diagonal-commuted-product', SUBJAC, '        self._res_view += self._in_view * val',
         '        self._res_view += val * self._in_view'),
    Twin('twin-coo-dtype-guard-commuted', COO, '        if dtype.kind != self.dtype.kind:', '        if self.dtype.kind != dtype.kind:'),
    Twin('twin-coo-end-from-len-c', COO, '            end = start + r.size', '            end = start + len(c)'),
    Twin('twin-set-dtype-view-resets-reordered', SUBJAC, _SET_DTYPE_HEAD,
         "        self._res_view = None\n        self._in_view = None\n        self._out_view = None\n\n"
         "        if dtype.kind == 'f':", nth=0),
    Twin('twin-split-apply-rename-arr', JAC,
         '                    arr = drdi_mtx._prod(dresids, mode)\n'
         '                    mask = self._get_mask(d_inputs, mode)\n'
         '                    if mask is not None:\n'
         '                        arr[mask] = 0.0\n'
         '                    d_inputs += arr',
         '                    mask = self._get_mask(d_inputs, mode)\n'
         '                    product = drdi_mtx._prod(dresids, mode)\n'
         '                    if mask is not None:\n'
         '                        product[mask] = 0.0\n'
         '                    d_inputs += product'),
    Twin('twin-coo-redundant-cache-reset-removed', COO, '            self._matrix_T = None\n', ''),
    Twin('twin-csr-transpose-method', CSR, '            self._matrix_T = self._matrix.T', '            self._matrix_T = self._matrix.transpose()'),
    Twin('twin-coo-guard-not-ndarray', SUBJAC, "        if issparse(self.info['val']):",
         "        if not isinstance(self.info['val'], np.ndarray):"),
    Twin('twin-coo-guard-isinstance-coo-matrix', SUBJAC, "        if issparse(self.info['val']):",
         "        if isinstance(self.info['val'], coo_matrix):"),
    Twin('twin-diagonal-set-dtype-astype', SUBJAC,
         "        if dtype.kind == 'f':\n"
         "            self.info['val'] = np.ascontiguousarray(self.info['val'].real, dtype=dtype)\n"
         "        elif dtype.kind == 'c':\n"
         "            self.info['val'] = np.asarray(self.info['val'], dtype=dtype)",
         "        if dtype.kind == 'f':\n"
         "            self.info['val'] = self.info['val'].real.astype(dtype)\n"
         "        elif dtype.kind == 'c':\n"
         "            self.info['val'] = self.info['val'].astype(dtype)", nth=0),
)


# =========================================================================== C11.closed-world (thorough)
@rule('C11.closed-world', floor=11, tier='thorough')
def closed_world(repo, out):
    """Repo-wide: every Matrix subclass and every Subjac subclass is one of the analysed ones, and every
    concrete Subjac class resolves its four _apply_* functions to analysed functions."""
    known_m = {(MAT, 'Matrix')} | set(MATRICES)
    for r, q in repo.subclasses(MAT, 'Matrix'):
        if (r, q) in known_m:
            if (r, q) != (MAT, 'Matrix'):
                out.ok((r, q), repo.module(r).classes[q], 'analysed Matrix class')
        else:
            out.unsure((r, q), repo.module(r).classes[q], f'Matrix subclass {q} is not covered by the C11 rules')
    for r, q in repo.subclasses(SUBJAC, 'Subjac'):
        if (r, q) == (SUBJAC, 'Subjac'):
            continue
        if r != SUBJAC:
            out.unsure((r, q), repo.module(r).classes[q], f'Subjac subclass {q} outside subjac.py is not covered by the C11 rules')
            continue
        bad = False
        for nm in ('_apply_fwd_input', '_apply_fwd_output', '_apply_rev_input', '_apply_rev_output'):
            f = repo.lookup(r, q, nm)
            owner = f.qualname.rsplit('.', 1)[0] if f is not None else None
            if f is None or f.rel != SUBJAC or owner not in APPLY_CLASSES:
                out.unsure((r, q), repo.module(r).classes[q], f'{q}.{nm} resolves to {f.ident if f else None}, which is '
                           'not one of the analysed matrix-free functions')
                bad = True
        if not bad:
            out.ok((r, q), repo.module(r).classes[q], f'{q}: all four _apply_* resolve to analysed functions')
